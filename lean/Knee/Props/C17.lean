import Knee.Lemmas.Geometry
/-!
# C17 — the exact geometric primitives compute what their names say

Models (Layer N, exact over ℚ, squares instead of square roots): `Knee.perpSq`, `Knee.shortestSq`
(linear_fit.perpendicular_distance_points / shortest_distance_points), `Knee.rect`,
`Knee.rectOverlap` (knee_ranking.rect / rect_overlap), `Knee.mengerSq` (menger.menger_curvature),
`Knee.triArea` (postprocessing.triangle_area), `Knee.rankOf` (knee_ranking.rank).
`distSqAt p a b lam` is the squared distance from `p` to the point `a + lam·(b - a)`.
Helper lemmas: `Lemmas/Geometry.lean`.
-/
namespace Knee

/-! ## A. perpendicular distance = distance to the infinite line -/

theorem perpSq_le (p a b : P2) (hab : a ≠ b) (lam : Rat) :
    perpSq p a b ≤ distSqAt p a b lam := by
  have hN := normSq_sub_pos hab
  have h1 := perpSq_mul_normSq p a b hab
  have h2 := distSqAt_mul_normSq p a b lam
  have h3 := mul_self_nonneg (dot (sub p a) (sub b a) - lam * normSq (sub b a))
  exact le_of_mul_le_mul_right (by rw [h1, h2]; linarith) hN

theorem perpSq_attained (p a b : P2) (hab : a ≠ b) :
    ∃ lam, distSqAt p a b lam = perpSq p a b := by
  have hN := normSq_sub_pos hab
  refine ⟨dot (sub p a) (sub b a) / normSq (sub b a), ?_⟩
  apply mul_right_cancel₀ hN.ne'
  rw [perpSq_mul_normSq p a b hab, distSqAt_mul_normSq, div_mul_cancel₀ _ hN.ne']
  ring

/-! ## B. shortest distance = distance to the closed segment -/

theorem shortestSq_le (p a b : P2) (hab : a ≠ b) (lam : Rat) (h0 : 0 ≤ lam) (h1 : lam ≤ 1) :
    shortestSq p a b ≤ distSqAt p a b lam := by
  have hN := normSq_sub_pos hab
  apply le_of_mul_le_mul_right _ hN
  rw [shortestSq_mul_normSq p a b hab, distSqAt_mul_normSq]
  generalize dot (sub p a) (sub b a) = d at *
  generalize normSq (sub b a) = N at *
  generalize cross (sub p a) (sub b a) = c at *
  have hl : 0 ≤ lam * N := mul_nonneg h0 hN.le
  have hl' : lam * N ≤ N := by nlinarith
  unfold rmax
  split_ifs <;> nlinarith

theorem shortestSq_attained (p a b : P2) (hab : a ≠ b) :
    ∃ lam, 0 ≤ lam ∧ lam ≤ 1 ∧ distSqAt p a b lam = shortestSq p a b := by
  have hN := normSq_sub_pos hab
  have key : ∀ lam, distSqAt p a b lam * normSq (sub b a) = shortestSq p a b * normSq (sub b a) →
      distSqAt p a b lam = shortestSq p a b := fun lam h => mul_right_cancel₀ hN.ne' h
  by_cases hd0 : dot (sub p a) (sub b a) ≤ 0
  · refine ⟨0, le_refl _, zero_le_one, key _ ?_⟩
    rw [shortestSq_mul_normSq p a b hab, distSqAt_mul_normSq]
    unfold rmax
    split_ifs <;> nlinarith
  · by_cases hd1 : normSq (sub b a) ≤ dot (sub p a) (sub b a)
    · refine ⟨1, zero_le_one, le_refl _, key _ ?_⟩
      rw [shortestSq_mul_normSq p a b hab, distSqAt_mul_normSq]
      unfold rmax
      split_ifs <;> nlinarith
    · have hd0' := not_le.1 hd0
      have hd1' := not_le.1 hd1
      refine ⟨dot (sub p a) (sub b a) / normSq (sub b a), (div_pos hd0' hN).le,
        (div_le_one hN).2 hd1'.le, key _ ?_⟩
      rw [shortestSq_mul_normSq p a b hab, distSqAt_mul_normSq, div_mul_cancel₀ _ hN.ne']
      unfold rmax
      split_ifs <;> nlinarith

theorem shortestSq_degenerate (p a : P2) : shortestSq p a a = normSq (sub p a) := by
  simp [shortestSq]

theorem shortestSq_endpoints (a b : P2) : shortestSq a a b = 0 ∧ shortestSq b a b = 0 := by
  by_cases hab : a = b
  · subst hab
    obtain ⟨ax, ay⟩ := a
    simp [shortestSq, normSq, dot, sub]
  · have e0 : distSqAt a a b 0 = 0 := by
      simp [distSqAt, normSq, dot, sub]
    have e1 : distSqAt b a b 1 = 0 := by
      simp [distSqAt, normSq, dot, sub]
    constructor
    · exact le_antisymm (e0 ▸ shortestSq_le a a b hab 0 (le_refl _) zero_le_one)
        (shortestSq_nonneg a a b)
    · exact le_antisymm (e1 ▸ shortestSq_le b a b hab 1 zero_le_one (le_refl _))
        (shortestSq_nonneg b a b)

/-- the segment is part of the line: the line distance never exceeds the segment distance -/
theorem perpSq_le_shortestSq (p a b : P2) (hab : a ≠ b) : perpSq p a b ≤ shortestSq p a b := by
  obtain ⟨lam, _, _, h⟩ := shortestSq_attained p a b hab
  exact h ▸ perpSq_le p a b hab lam

/-! ## C. intersection over union -/

theorem iou_symm (amin amax bmin bmax : Rat × Rat) :
    rectOverlap amin amax bmin bmax = rectOverlap bmin bmax amin amax := by
  simp only [rectOverlap]
  rw [ovl_comm amin.1, ovl_comm amin.2,
    add_comm (rabs (amax.1 - amin.1) * rabs (amax.2 - amin.2))]

theorem iou_nonneg (amin amax bmin bmax : Rat × Rat) : 0 ≤ rectOverlap amin amax bmin bmax := by
  obtain ⟨hA, hB⟩ := rectOverlap_ov_le amin amax bmin bmax
  simp only [rectOverlap]
  split_ifs with h
  · exact div_nonneg h.le (by linarith)
  · exact le_refl _

theorem iou_le_one (amin amax bmin bmax : Rat × Rat) : rectOverlap amin amax bmin bmax ≤ 1 := by
  obtain ⟨hA, hB⟩ := rectOverlap_ov_le amin amax bmin bmax
  simp only [rectOverlap]
  split_ifs with h
  · rw [div_le_one (by linarith)]
    linarith
  · exact zero_le_one

theorem iou_self (amin amax : Rat × Rat) (h1 : amin.1 < amax.1) (h2 : amin.2 < amax.2) :
    rectOverlap amin amax amin amax = 1 := by
  have ha1 : rabs (amax.1 - amin.1) = amax.1 - amin.1 := by
    unfold rabs; split_ifs <;> linarith
  have ha2 : rabs (amax.2 - amin.2) = amax.2 - amin.2 := by
    unfold rabs; split_ifs <;> linarith
  have hpos : 0 < (amax.1 - amin.1) * (amax.2 - amin.2) :=
    mul_pos (by linarith) (by linarith)
  simp only [rectOverlap]
  rw [ovl_self _ _ h1.le, ovl_self _ _ h2.le, ha1, ha2, if_pos hpos]
  rw [div_eq_one_iff_eq (by linarith)]
  ring

theorem iou_disjoint (amin amax bmin bmax : Rat × Rat)
    (h : amax.1 ≤ bmin.1 ∨ bmax.1 ≤ amin.1 ∨ amax.2 ≤ bmin.2 ∨ bmax.2 ≤ amin.2) :
    rectOverlap amin amax bmin bmax = 0 := by
  simp only [rectOverlap]
  have : rmax 0 (rmin amax.1 bmax.1 - rmax amin.1 bmin.1)
      * rmax 0 (rmin amax.2 bmax.2 - rmax amin.2 bmin.2) = 0 := by
    rcases h with h | h | h | h
    · rw [ovl_disjoint _ _ _ _ (Or.inl h), zero_mul]
    · rw [ovl_disjoint _ _ _ _ (Or.inr h), zero_mul]
    · rw [ovl_disjoint amin.2 _ _ _ (Or.inl h), mul_zero]
    · rw [ovl_disjoint amin.2 _ _ _ (Or.inr h), mul_zero]
  rw [this]
  simp

theorem rect_ordered (p q : Rat × Rat) :
    (rect p q).1.1 ≤ (rect p q).2.1 ∧ (rect p q).1.2 ≤ (rect p q).2.2 := by
  simp only [rect]
  unfold rmin rmax
  constructor <;> split_ifs <;> linarith

/-! ## D. Menger curvature -/

theorem mengerSq_symm_swap12 (f g h : P2) : mengerSq f g h = mengerSq g f h := by
  obtain ⟨fx, fy⟩ := f
  obtain ⟨gx, gy⟩ := g
  obtain ⟨hx, hy⟩ := h
  simp only [mengerSq, normSq, dot, cross, sub]
  congr 1 <;> ring

theorem mengerSq_symm_swap23 (f g h : P2) : mengerSq f g h = mengerSq f h g := by
  obtain ⟨fx, fy⟩ := f
  obtain ⟨gx, gy⟩ := g
  obtain ⟨hx, hy⟩ := h
  simp only [mengerSq, normSq, dot, cross, sub]
  congr 1 <;> ring

theorem mengerSq_nonneg (f g h : P2) : 0 ≤ mengerSq f g h := by
  simp only [mengerSq]
  apply div_nonneg
  · rw [mul_assoc]; exact mul_nonneg (by norm_num) (mul_self_nonneg _)
  · exact mul_nonneg (mul_nonneg (normSq_nonneg _) (normSq_nonneg _)) (normSq_nonneg _)

theorem mengerSq_collinear (f g h : P2) (hc : cross (sub g f) (sub h g) = 0) :
    mengerSq f g h = 0 := by
  simp [mengerSq, hc]

theorem mengerSq_zero_iff (f g h : P2) (hfg : f ≠ g) (hgh : g ≠ h) (hhf : h ≠ f) :
    mengerSq f g h = 0 ↔ cross (sub g f) (sub h g) = 0 := by
  have h1 := normSq_sub_pos hfg
  have h2 := normSq_sub_pos hgh
  have h3 := normSq_sub_pos hhf
  refine ⟨fun h0 => ?_, mengerSq_collinear f g h⟩
  simp only [mengerSq] at h0
  rcases div_eq_zero_iff.1 h0 with h0 | h0
  · have : cross (sub g f) (sub h g) * cross (sub g f) (sub h g) = 0 := by linarith
    exact mul_self_eq_zero.1 this
  · exact absurd h0 (mul_pos (mul_pos h1 h2) h3).ne'

/-- Reciprocal circumradius: for non-collinear `f g h` the (rational) circumcentre `c` is
equidistant from the three points and `mengerSq f g h = 1 / |c - f|²`. -/
theorem mengerSq_eq_inv_circumradiusSq (f g h : P2) (hc : cross (sub g f) (sub h g) ≠ 0) :
    ∃ c : P2, normSq (sub c f) = normSq (sub c g) ∧ normSq (sub c g) = normSq (sub c h)
      ∧ mengerSq f g h * normSq (sub c f) = 1 := by
  have hfg : f ≠ g := by
    rintro rfl; apply hc; simp only [cross, sub]; ring
  have hgh : g ≠ h := by
    rintro rfl; apply hc; simp only [cross, sub]; ring
  have hhf : h ≠ f := by
    rintro rfl; apply hc; simp only [cross, sub]; ring
  have h1 := (normSq_sub_pos hfg).ne'
  have h2 := (normSq_sub_pos hgh).ne'
  have h3 := (normSq_sub_pos hhf).ne'
  have hden := mul_ne_zero (mul_ne_zero h1 h2) h3
  obtain ⟨fx, fy⟩ := f
  obtain ⟨gx, gy⟩ := g
  obtain ⟨hx, hy⟩ := h
  simp only [normSq, dot, cross, sub] at hc hden
  have hK : (gx - fx) * (hy - fy) - (gy - fy) * (hx - fx) ≠ 0 := by
    intro h0; apply hc; linear_combination h0
  have hD : 2 * ((gx - fx) * (hy - fy) - (gy - fy) * (hx - fx)) ≠ 0 :=
    mul_ne_zero two_ne_zero hK
  obtain ⟨ox, hox⟩ : ∃ ox, ox * (2 * ((gx - fx) * (hy - fy) - (gy - fy) * (hx - fx)))
      = (hy - fy) * ((gx - fx) * (gx - fx) + (gy - fy) * (gy - fy))
        - (gy - fy) * ((hx - fx) * (hx - fx) + (hy - fy) * (hy - fy)) :=
    ⟨_, div_mul_cancel₀ _ hD⟩
  obtain ⟨oy, hoy⟩ : ∃ oy, oy * (2 * ((gx - fx) * (hy - fy) - (gy - fy) * (hx - fx)))
      = (gx - fx) * ((hx - fx) * (hx - fx) + (hy - fy) * (hy - fy))
        - (hx - fx) * ((gx - fx) * (gx - fx) + (gy - fy) * (gy - fy)) :=
    ⟨_, div_mul_cancel₀ _ hD⟩
  obtain ⟨e1, e2, e3⟩ := circum_aux (gx - fx) (gy - fy) (hx - fx) (hy - fy) ox oy hK hox hoy
  refine ⟨(fx + ox, fy + oy), ?_, ?_, ?_⟩
  · simp only [normSq, dot, sub]
    linear_combination e1
  · simp only [normSq, dot, sub]
    linear_combination e2 - e1
  · simp only [mengerSq, normSq, dot, cross, sub]
    rw [div_mul_eq_mul_div, div_eq_one_iff_eq hden]
    linear_combination e3

/-! ## F. signed triangle area -/

theorem triArea_def (p0 p1 p2 : P2) : triArea p0 p1 p2 = cross (sub p1 p0) (sub p2 p0) / 2 := by
  simp only [triArea, cross, sub]
  ring

/-! ## E. `rankOf` is the stable-sort rank permutation -/

theorem rankOf_length (v : List Rat) : (rankOf v).length = v.length := by
  simp [rankOf]

theorem rankOf_lt (v : List Rat) : ∀ r ∈ rankOf v, r < v.length := by
  intro r hr
  rw [rankOf_eq, List.mem_map] at hr
  obtain ⟨i, hi, rfl⟩ := hr
  exact rk_lt_length v (List.mem_range.1 hi)

theorem rankOf_orders (v : List Rat) (i j : Nat) (hi : i < v.length) (hj : j < v.length) :
    (rankOf v)[i]?.getD 0 < (rankOf v)[j]?.getD 0 → v[i]?.getD 0 ≤ v[j]?.getD 0 := by
  rw [rankOf_getD v hi, rankOf_getD v hj]
  intro h
  by_contra hlt
  have : rkLt v j i = true := (rkLt_iff v j i).2 (Or.inl (not_le.1 hlt))
  exact absurd (rk_lt_of_rkLt v hj this) (Nat.lt_asymm h)

/-- ties are ranked by position (stable sort) -/
theorem rankOf_stable (v : List Rat) (i j : Nat) (hj : j < v.length) (hij : i < j)
    (he : v[i]?.getD 0 = v[j]?.getD 0) : (rankOf v)[i]?.getD 0 < (rankOf v)[j]?.getD 0 := by
  have hi : i < v.length := Nat.lt_trans hij hj
  rw [rankOf_getD v hi, rankOf_getD v hj]
  exact rk_lt_of_rkLt v hi ((rkLt_iff v i j).2 (Or.inr ⟨he, hij⟩))

theorem rankOf_injective (v : List Rat) (i j : Nat) (hi : i < v.length) (hj : j < v.length)
    (h : (rankOf v)[i]?.getD 0 = (rankOf v)[j]?.getD 0) : i = j := by
  rw [rankOf_getD v hi, rankOf_getD v hj] at h
  exact rk_injective v hi hj h

theorem rankOf_nodup (v : List Rat) : (rankOf v).Nodup := by
  rw [rankOf_eq, List.Nodup, List.pairwise_map]
  refine List.Pairwise.imp_of_mem ?_ (List.pairwise_lt_range (n := v.length))
  intro i j hi hj hij heq
  exact absurd (rk_injective v (List.mem_range.1 hi) (List.mem_range.1 hj) heq) (Nat.ne_of_lt hij)

/-- hence the ranks are a permutation of `0 .. n-1` -/
theorem rankOf_perm (v : List Rat) : (rankOf v).Perm (List.range v.length) := by
  apply List.Subperm.perm_of_length_le
  · exact List.subperm_of_subset (rankOf_nodup v)
      (fun r hr => List.mem_range.2 (rankOf_lt v r hr))
  · simp [rankOf_length]

/-! ## Non-vacuity: the models compute the expected values on concrete inputs. -/

example : shortestSq (0, 1) (0, 0) (2, 0) = 1 := by decide +kernel
example : shortestSq (3, 4) (0, 0) (0, 0) = 25 := by decide +kernel
example : perpSq (3, 1) (0, 0) (2, 0) = 1 := by decide +kernel
/-- beyond the end of the segment the two distances differ -/
example : shortestSq (3, 1) (0, 0) (2, 0) = 2 := by decide +kernel
example : distSqAt (3, 1) (0, 0) (2, 0) 1 = 2 := by decide +kernel
/-- two 2×2 squares sharing a unit square: 1 / (4 + 4 - 1) -/
example : rectOverlap (0, 0) (2, 2) (1, 1) (3, 3) = 1 / 7 := by decide +kernel
example : rectOverlap (0, 0) (1, 1) (1 / 4, 1 / 2) (5 / 4, 3 / 2) = 3 / 13 := by decide +kernel
example : rectOverlap (0, 0) (1, 1) (1, 0) (2, 1) = 0 := by decide +kernel
example : rect (3, 0) (1, 2) = ((1, 0), (3, 2)) := by decide +kernel
example : cornerIoU (0, 0) (1, 2) (3, 3) = 1 / 9 := by decide +kernel
/-- right triangle with legs 1: circumradius² = 1/2, curvature² = 2 -/
example : mengerSq (0, 0) (1, 0) (0, 1) = 2 := by decide +kernel
example : cross (sub ((1, 0) : P2) (0, 0)) (sub (0, 1) (1, 0)) ≠ 0 := by decide +kernel
example : mengerSq (0, 0) (1, 1) (2, 2) = 0 := by decide +kernel
example : rankOf [3, 1, 2] = [2, 0, 1] := by decide +kernel
/-- ties are broken by position -/
example : rankOf [2, 1, 2, 1] = [2, 0, 3, 1] := by decide +kernel
example : triArea (0, 0) (1, 0) (0, 1) = 1 / 2 := by decide +kernel

end Knee

import Knee.Model.Hull
import Knee.Model.Metrics
namespace Knee
theorem stub_C17 : True := trivial
end Knee

import Knee.Props.C08F
/-!
# C08G — the end-to-end theorem for each of the five bundled detectors

`Props/C08F.lean` proves the whole pipeline correct for "every detector" under the hypothesis
`DetOKLarge t2 det` (the detector's range contract on ranges with more than `t2` points).
`Props/C02D.lean` proves that contract for the models of the five detectors shipped with the
package — `knee.curvature`, `knee.menger`, `knee.dfdt`, `knee.lmethod`, `knee.kneedle` — fed with
arbitrary criterion oracles.  Here the two are composed: for each bundled detector
`pipelineCfg_end_to_end` holds with NO hypothesis on the detector left, only

* the shape of its criterion oracle (what numpy guarantees: one criterion value per point, one
  Menger curvature per interior point, `len - c` gradient differences after a cut of `c`,
  `len - 4` L-method split errors), and
* the documented minimum size gate: `t2 ≥ 2` for curvature / Menger / DFDT, `t2 ≥ 4` and
  `limit ≥ 4` for the L-method, nothing for Kneedle.

For the four strictly interior detectors (all but Menger) the conclusion is strengthened by
`1 ≤ k` for every knee `k` returned by `multi_knee` (the first point of the reduced curve is never
reported), from `multiKnee_interior_large`.

Oracles: every floating-point quantity, including the detectors' criterion arrays.
-/
namespace Knee

/-- The conclusion of `pipelineCfg_end_to_end`, verbatim, as a predicate of the configuration:
the pipeline completes with stages `S`; `S.reduced` is a strictly increasing index list from `0` to
`n - 1` with `S.removed = compute_removed_points(S.reduced)`; `multi_knee` returned `S.knees`,
strictly increasing, never the last reduced point; each filter returns a subsequence of its input;
heights are non-increasing from the worst-knee filter on; and the final stage is correct
(`rdp.mapping`: the retained points at the surviving positions; `add_points_even` with
`0 < npts i`: strictly increasing valid indices with non-increasing original heights). -/
def EndToEndSpec (s : Simplifier) (o : SimpOracles) (n : Nat)
    (det : Nat → Nat → Option Nat) (gate : Nat → Nat → Bool) (t2 : Nat)
    (h : Nat → Rat) (iou : Nat → Rat) (tc : Rat) (labelsOf : List Nat → List Nat)
    (cm : ClusterMode) (fin : Final) : Prop :=
  ∃ S, pipelineCfg s o n det gate t2 h iou tc labelsOf cm fin = some S ∧
    (S.reduced.Pairwise (· < ·) ∧ S.reduced[0]? = some 0 ∧ S.reduced.getLast? = some (n - 1) ∧
      S.removed = computeRemoved S.reduced) ∧
    (multiKnee det gate t2 S.reduced.length = some S.knees ∧ S.knees.Pairwise (· < ·) ∧
      ∀ k ∈ S.knees, k + 2 ≤ S.reduced.length) ∧
    (S.worst.Sublist S.knees ∧ S.corner.Sublist S.worst ∧ S.cluster.Sublist S.corner) ∧
    (S.worst.Pairwise (fun a b => h b ≤ h a) ∧ S.corner.Pairwise (fun a b => h b ≤ h a) ∧
      S.cluster.Pairwise (fun a b => h b ≤ h a)) ∧
    match fin with
    | .map =>
      S.out = S.cluster.map (fun k => S.reduced[k]?.getD 0) ∧ S.out.Pairwise (· < ·) ∧
      (∀ x ∈ S.out, x ∈ S.reduced) ∧ (∀ x ∈ S.out, x < n) ∧ S.out.length = S.cluster.length
    | .addEven hOrig _ npts _ =>
      (∀ i, 0 < npts i) →
        S.out.Pairwise (· < ·) ∧ (∀ x ∈ S.out, x < n) ∧
        S.out.Pairwise (fun a b => hOrig b ≤ hOrig a)

/-- `EndToEndSpec` plus: no knee returned by `multi_knee` is the first point of the reduced curve
(all of the later stages return subsequences, so this is inherited by every stage). -/
def EndToEndSpecInterior (s : Simplifier) (o : SimpOracles) (n : Nat)
    (det : Nat → Nat → Option Nat) (gate : Nat → Nat → Bool) (t2 : Nat)
    (h : Nat → Rat) (iou : Nat → Rat) (tc : Rat) (labelsOf : List Nat → List Nat)
    (cm : ClusterMode) (fin : Final) : Prop :=
  EndToEndSpec s o n det gate t2 h iou tc labelsOf cm fin ∧
    ∀ S, pipelineCfg s o n det gate t2 h iou tc labelsOf cm fin = some S →
      (∀ k ∈ S.knees, 1 ≤ k) ∧ (∀ k ∈ S.cluster, 1 ≤ k)

section
variable (s : Simplifier) (o : SimpOracles) (n : Nat) (gate : Nat → Nat → Bool) (t2 : Nat)
  (h : Nat → Rat) (iou : Nat → Rat) (tc : Rat) (labelsOf : List Nat → List Nat)
  (cm : ClusterMode) (fin : Final)

/-- **C08G (C08F, restated).** `pipelineCfg_end_to_end` with its conclusion folded into
`EndToEndSpec` (definitionally the same statement). -/
theorem pipelineCfg_spec (det : Nat → Nat → Option Nat)
    (hn : 2 ≤ n) (hs : SimpDomain s) (hd : ∀ l r, (o.dst l r).length = r - l)
    (hdet : DetOKLarge t2 det) (hl : ∀ ks, (labelsOf ks).length = ks.length) :
    EndToEndSpec s o n det gate t2 h iou tc labelsOf cm fin :=
  pipelineCfg_end_to_end s o n det gate t2 h iou tc labelsOf cm fin hn hs hd hdet hl

/-- **C08G (interior detectors).** With a detector that is strictly interior on ranges longer than
`t2`, the end-to-end statement holds and moreover neither `multi_knee` nor (hence) the cluster stage
ever reports position `0` of the reduced curve. -/
theorem pipelineCfg_spec_interior (det : Nat → Nat → Option Nat)
    (hn : 2 ≤ n) (hs : SimpDomain s) (hd : ∀ l r, (o.dst l r).length = r - l)
    (hdet : DetInteriorLarge t2 det) (hl : ∀ ks, (labelsOf ks).length = ks.length) :
    EndToEndSpecInterior s o n det gate t2 h iou tc labelsOf cm fin := by
  have hspec := pipelineCfg_spec s o n gate t2 h iou tc labelsOf cm fin det hn hs hd
    hdet.detOKLarge hl
  refine ⟨hspec, fun S' hS' => ?_⟩
  obtain ⟨S, hS, hred, ⟨hmk, _, _⟩, ⟨hw, hc, hcl⟩, _⟩ := hspec
  rw [hS'] at hS
  cases hS
  have hlen : 1 ≤ S'.reduced.length := by
    cases hr : S'.reduced with
    | nil => rw [hr] at hred; simp at hred
    | cons _ _ => simp
  obtain ⟨ks, hks, _, hint⟩ := multiKnee_interior_large (gate := gate) hdet hlen
  rw [hmk] at hks
  cases hks
  have hk1 : ∀ k ∈ S'.knees, 1 ≤ k := fun k hk => (hint k hk).1
  exact ⟨hk1, fun k hk => hk1 k (((hcl.trans hc).trans hw).subset hk)⟩

/-- **C08G (curvature).** The whole pipeline with `knee.curvature` as the detector inside
`multi_knee`: whatever the criterion arrays contain (one value per point), with `t2 ≥ 2`, every
simplifier / gate / filter / final-stage configuration completes and satisfies the end-to-end
specification; position `0` of the reduced curve is never a knee. -/
theorem pipelineCfg_curvature (crit : Nat → Nat → List Rat)
    (hn : 2 ≤ n) (hs : SimpDomain s) (hd : ∀ l r, (o.dst l r).length = r - l)
    (hcrit : ∀ l r, (crit l r).length = r - l) (ht : 2 ≤ t2)
    (hl : ∀ ks, (labelsOf ks).length = ks.length) :
    EndToEndSpecInterior s o n (detCurv crit) gate t2 h iou tc labelsOf cm fin :=
  pipelineCfg_spec_interior s o n gate t2 h iou tc labelsOf cm fin _ hn hs hd
    (detCurv_large hcrit ht) hl

/-- **C08G (Menger).** The whole pipeline with `knee.menger` as the detector: whatever the Menger
curvatures are (one per consecutive triple of the range), with `t2 ≥ 2`, every configuration
completes and satisfies the end-to-end specification.  (Menger is not strictly interior: on a flat
range its answer is `0`.) -/
theorem pipelineCfg_menger (mc : Nat → Nat → List Rat)
    (hn : 2 ≤ n) (hs : SimpDomain s) (hd : ∀ l r, (o.dst l r).length = r - l)
    (hmc : ∀ l r, (mc l r).length = r - l - 2) (ht : 2 ≤ t2)
    (hl : ∀ ks, (labelsOf ks).length = ks.length) :
    EndToEndSpec s o n (detMenger mc) gate t2 h iou tc labelsOf cm fin :=
  pipelineCfg_spec s o n gate t2 h iou tc labelsOf cm fin _ hn hs hd (detMenger_large hmc ht) hl

/-- **C08G (DFDT).** The whole pipeline with `knee.dfdt` as the detector: whatever the
gradient-minus-threshold differences are (`len - c` values after a cut of `c` points), with
`t2 ≥ 2`, every configuration completes and satisfies the end-to-end specification; position `0`
of the reduced curve is never a knee. -/
theorem pipelineCfg_dfdt (diffs : Nat → Nat → Nat → List Rat)
    (hn : 2 ≤ n) (hs : SimpDomain s) (hd : ∀ l r, (o.dst l r).length = r - l)
    (hdiffs : ∀ l r c, (diffs l r c).length = (r - l) - c) (ht : 2 ≤ t2)
    (hl : ∀ ks, (labelsOf ks).length = ks.length) :
    EndToEndSpecInterior s o n (detDfdt diffs) gate t2 h iou tc labelsOf cm fin :=
  pipelineCfg_spec_interior s o n gate t2 h iou tc labelsOf cm fin _ hn hs hd
    (detDfdt_large hdiffs ht) hl

/-- **C08G (L-method).** The whole pipeline with `knee.lmethod` as the detector, for each of its
three refinement options: whatever the split-fitting errors are (`len - 4` values for the first
`len` points), with `t2 ≥ 4` and the L-method's own `limit ≥ 4`, every configuration completes
(in particular the L-method's refinement loop terminates on every range it is called on) and
satisfies the end-to-end specification; position `0` of the reduced curve is never a knee. -/
theorem pipelineCfg_lmethod (errs : Nat → Nat → Nat → List Rat) (mode : Refinement) (limit : Nat)
    (hn : 2 ≤ n) (hs : SimpDomain s) (hd : ∀ l r, (o.dst l r).length = r - l)
    (herrs : ∀ l r len, (errs l r len).length = len - 4) (ht : 4 ≤ t2) (hlim : 4 ≤ limit)
    (hl : ∀ ks, (labelsOf ks).length = ks.length) :
    EndToEndSpecInterior s o n (detLmethod errs mode limit) gate t2 h iou tc labelsOf cm fin :=
  pipelineCfg_spec_interior s o n gate t2 h iou tc labelsOf cm fin _ hn hs hd
    (detLmethod_large herrs ht hlim mode) hl

/-- **C08G (Kneedle).** The whole pipeline with `knee.kneedle` as the detector: whatever the
difference curve is (one value per point), for EVERY `t2` (a strict peak is interior on any range),
every configuration completes and satisfies the end-to-end specification; position `0` of the
reduced curve is never a knee. -/
theorem pipelineCfg_kneedle (dd : Nat → Nat → List Rat)
    (hn : 2 ≤ n) (hs : SimpDomain s) (hd : ∀ l r, (o.dst l r).length = r - l)
    (hdd : ∀ l r, (dd l r).length = r - l)
    (hl : ∀ ks, (labelsOf ks).length = ks.length) :
    EndToEndSpecInterior s o n (detKneedle dd) gate t2 h iou tc labelsOf cm fin :=
  pipelineCfg_spec_interior s o n gate t2 h iou tc labelsOf cm fin _ hn hs hd
    ((detKneedle_interior hdd).detInteriorLarge t2) hl

end

/-- **C08G (unfolding, for readers).** `EndToEndSpec` is literally the conclusion of
`pipelineCfg_end_to_end`; e.g. for the mapping final stage it yields the reported knees. -/
theorem EndToEndSpec.map_out {s : Simplifier} {o : SimpOracles} {n : Nat}
    {det : Nat → Nat → Option Nat} {gate : Nat → Nat → Bool} {t2 : Nat}
    {h : Nat → Rat} {iou : Nat → Rat} {tc : Rat} {labelsOf : List Nat → List Nat}
    {cm : ClusterMode} (hspec : EndToEndSpec s o n det gate t2 h iou tc labelsOf cm .map) :
    ∃ S, pipelineCfg s o n det gate t2 h iou tc labelsOf cm .map = some S ∧
      S.out = S.cluster.map (fun k => S.reduced[k]?.getD 0) ∧ S.out.Pairwise (· < ·) ∧
      (∀ x ∈ S.out, x ∈ S.reduced) ∧ (∀ x ∈ S.out, x < n) ∧ S.out.length = S.cluster.length := by
  obtain ⟨S, hS, _, _, _, _, hfin⟩ := hspec
  exact ⟨S, hS, hfin⟩

/-- **C08G (unfolding, `add_points_even`).** -/
theorem EndToEndSpec.addEven_out {s : Simplifier} {o : SimpOracles} {n : Nat}
    {det : Nat → Nat → Option Nat} {gate : Nat → Nat → Bool} {t2 : Nat}
    {h : Nat → Rat} {iou : Nat → Rat} {tc : Rat} {labelsOf : List Nat → List Nat}
    {cm : ClusterMode} {hOrig : Nat → Rat} {wide : Nat → Bool} {npts : Nat → Nat} {ext : Bool}
    (hspec : EndToEndSpec s o n det gate t2 h iou tc labelsOf cm (.addEven hOrig wide npts ext))
    (hnp : ∀ i, 0 < npts i) :
    ∃ S, pipelineCfg s o n det gate t2 h iou tc labelsOf cm (.addEven hOrig wide npts ext) = some S ∧
      S.out.Pairwise (· < ·) ∧ (∀ x ∈ S.out, x < n) ∧
      S.out.Pairwise (fun a b => hOrig b ≤ hOrig a) := by
  obtain ⟨S, hS, _, _, _, _, hfin⟩ := hspec
  exact ⟨S, hS, hfin hnp⟩

/-! ## Non-vacuity

The pipeline evaluated with each bundled detector on concrete oracle families (24 points, the
simplifier oracles of C08F; the criterion oracles are slices of one fixed array, resp. the C02D
example families), and the shape hypotheses of the five corollaries checked on these families.
Shown: `(reduced, knees, out)`.  In every run `multi_knee` calls the detector on several levels of
the recursion and several knees survive to the output. -/
private def cstG : Nat → Nat → Rat := fun l r => if r - l > 3 then 1 else 0
private def dstG : Nat → Nat → List Rat := fun l r =>
  (List.range (r - l)).map fun i => ((min i (r - l - 1 - i) : Nat) : Rat)
private def keyG : Nat → Nat → Nat → Rat × Rat := fun l r i =>
  (((i : Nat) : Rat), ((r - l - i : Nat) : Rat))
private def gcsG : List Nat → Rat := fun red => 1 / ((red.length : Nat) : Rat)
private def oG : SimpOracles := ⟨cstG, dstG, keyG, gcsG⟩
private def hG : Nat → Rat := fun k => 20 - ((k : Int) : Rat)
private def iouG : Nat → Rat := fun _ => 0
private def labG : List Nat → List Nat := fun ks =>
  ks.map fun k => if k < 4 then 0 else if k < 10 then 1 else 2
private def scoreG : List Nat → List Rat := fun c => c.map fun k => ((k : Int) : Rat)
private def arrG : List Rat := [0, 1, 6, 2, 9, 3, 3, 7, 1, 4, 0, 0, 5, 2, 8, 1]
private def critG : Nat → Nat → List Rat := fun l r =>
  (List.range (r - l)).map fun i => arrG[l + i]?.getD 0
private def mcG : Nat → Nat → List Rat := fun l r =>
  (List.range (r - l - 2)).map fun i => arrG[l + i + 1]?.getD 0
private def diffsG : Nat → Nat → Nat → List Rat := fun l r c =>
  (List.range (r - l - c)).map fun (i : Nat) => ((((i : Int) - c - 1) ^ 2 : Int) : Rat)
private def errsG : Nat → Nat → Nat → List Rat := fun l _ len =>
  (List.range (len - 4)).map fun (i : Nat) =>
    ((((i : Int) + l - ((len - 4) / 2 : Nat)) ^ 2 : Int) : Rat)
private def viewG (S : StagesCfg) : List Nat × List Nat × List Nat := (S.reduced, S.knees, S.out)

example : SimpDomain (.rdp false (1/2)) := by simp only [SimpDomain]; decide +kernel
example : ∀ l r, (oG.dst l r).length = r - l := by intro l r; simp [oG, dstG]
example : ∀ ks, (labG ks).length = ks.length := by intro ks; simp [labG]
example : ∀ l r, (critG l r).length = r - l := by intro l r; simp [critG]
example : ∀ l r, (mcG l r).length = r - l - 2 := by intro l r; simp [mcG]
example : ∀ l r c, (diffsG l r c).length = (r - l) - c := by intro l r c; simp [diffsG]
example : ∀ l r len, (errsG l r len).length = len - 4 := by intro l r len; simp [errsG]

/-- curvature inside threshold RDP × rank × mapping: 9 knees on 16 retained points, none at `0` -/
example : Option.map viewG
    (pipelineCfg (.rdp false (1/2)) oG 24 (detCurv critG) (fun _ _ => true) 2 hG iouG (2/5) labG
      (.rank scoreG) .map)
    = some ([0, 2, 3, 5, 6, 8, 9, 11, 12, 14, 15, 17, 18, 20, 21, 23],
        [1, 2, 4, 6, 7, 9, 11, 12, 14], [3, 14, 21]) := by decide +kernel
/-- Menger inside fixed-size RDP -/
example : Option.map viewG
    (pipelineCfg (.fixed 12) oG 24 (detMenger mcG) (fun _ _ => true) 2 hG iouG (2/5) labG
      (.rank scoreG) .map)
    = some ([0, 2, 3, 5, 8, 11, 14, 15, 17, 20, 21, 23], [1, 2, 4, 6, 7, 9], [3, 20]) := by
  decide +kernel
/-- DFDT inside global RDP -/
example : Option.map viewG
    (pipelineCfg (.grdp false (1/15)) oG 24 (detDfdt diffsG) (fun _ _ => true) 2 hG iouG (2/5)
      labG (.rank scoreG) .map)
    = some ([0, 2, 3, 5, 8, 9, 10, 11, 14, 15, 16, 17, 20, 21, 22, 23],
        [1, 2, 3, 4, 5, 6, 7, 8, 9, 10, 11, 12, 13, 14], [5, 15, 22]) := by decide +kernel
/-- L-method (original refinement, `limit = 4`, `t2 = 4`) on the unreduced 24-point curve -/
example : Option.map viewG
    (pipelineCfg (.grdp true (9/10)) oG 24 (detLmethod errsG .original 4) (fun _ _ => true) 4 hG
      iouG (2/5) labG (.rank scoreG) .map)
    = some (List.range 24, [3, 6, 9, 12, 15, 18, 21], [3, 9, 21]) := by decide +kernel
/-- Kneedle with `t2 = 0` (no minimum needed) -/
example : Option.map viewG
    (pipelineCfg (.rdp false (1/2)) oG 24 (detKneedle critG) (fun _ _ => true) 0 hG iouG (2/5)
      labG (.rank scoreG) .map)
    = some ([0, 2, 3, 5, 6, 8, 9, 11, 12, 14, 15, 17, 18, 20, 21, 23],
        [2, 4, 7, 9, 12, 14], [3, 14, 21]) := by decide +kernel
/-- the minimum `t2 ≥ 2` is needed: with `t2 = 1` the curvature detector is called on two-point
ranges, answers `1`, and violates the contract (`DetOKLarge 1` fails) -/
example : ¬ DetOKLarge 1 (detCurv critG) := by
  intro h
  have := h 0 2 1 (by decide) (by decide +kernel)
  omega

end Knee

import Knee.Lemmas.Mapping
/-!
# C07 — reduced-space indices map back to exactly the original indices

Model: `Knee.computeRemoved` (rdp.compute_removed_points), `Knee.mapping` (rdp.mapping).
Integers only; no oracle, no tolerance.  The clause "compute_removed_points reproduces the
removed table returned by each simplifier" is `simplifier_removed_is_computeRemoved` in `Props/C07S.lean` (all five simplifiers)
(the simplifier models return `computeRemoved reduced` by theorem).
-/
namespace Knee

/-- **C07 (sorted table).** For every strictly increasing `reduced` starting at 0 and every
ascending (not necessarily strict) list `I` of positions in the reduced curve,
`mapping(I, reduced, compute_removed_points(reduced)) = reduced[I]`. -/
theorem mapping_computeRemoved (reduced I : List Nat)
    (hinc : reduced.Pairwise (· < ·)) (h0 : reduced[0]? = some 0)
    (hI : I.Pairwise (· ≤ ·)) (hb : ∀ i ∈ I, i < reduced.length) :
    mapping I reduced (computeRemoved reduced) true = I.map (fun i => reduced[i]?.getD 0) := by
  have hlen : 0 < reduced.length := by
    cases reduced with
    | nil => simp at h0
    | cons _ _ => simp
  have h := mappingAux_computeRemoved reduced hinc I 0 hlen hI (fun i hi => ⟨Nat.zero_le _, hb i hi⟩)
  simp only [h0, Option.getD_some, List.drop_zero, Nat.sub_zero] at h
  simpa [mapping] using h

/-- **C07 (unsorted table).** With `sorted=False` the same holds for *any row order* of the
removed table. -/
theorem mapping_unsorted (reduced I : List Nat) (rows : List (Nat × Nat))
    (hinc : reduced.Pairwise (· < ·)) (h0 : reduced[0]? = some 0)
    (hI : I.Pairwise (· ≤ ·)) (hb : ∀ i ∈ I, i < reduced.length)
    (hperm : rows.Perm (computeRemoved reduced)) :
    mapping I reduced rows false = I.map (fun i => reduced[i]?.getD 0) := by
  have := mapping_computeRemoved reduced I hinc h0 hI hb
  simp only [mapping, Bool.false_eq_true, if_false, if_true] at this ⊢
  rw [sortRows_of_perm reduced hinc rows hperm]
  exact this

/-- retained + dropped = n: the table accounts for every original index between the ends. -/
theorem removed_accounts_for_all (s : List Nat) (hs : s.Pairwise (· < ·)) (hne : s ≠ []) :
    s.length + ((computeRemoved s).map (·.2)).sum = s.getLast?.getD 0 - s[0]?.getD 0 + 1 :=
  computeRemoved_total s hs hne

/-- one row per retained segment -/
theorem removed_one_row_per_segment (s : List Nat) : (computeRemoved s).length = s.length - 1 :=
  computeRemoved_length s

/-! Non-vacuity: a concrete non-trivial reduction satisfies every hypothesis, and the model
computes what the theorem says. -/
example : ([0, 3, 4, 9] : List Nat).Pairwise (· < ·) ∧ ([0, 3, 4, 9] : List Nat)[0]? = some 0
    ∧ ([1, 1, 3] : List Nat).Pairwise (· ≤ ·) ∧ (∀ i ∈ [1, 1, 3], i < [0, 3, 4, 9].length) := by
  decide
example : mapping [1, 1, 3] [0, 3, 4, 9] (computeRemoved [0, 3, 4, 9]) true = [3, 3, 9] := by decide
example : mapping [1, 2] [0, 3, 4, 9] [(4, 4), (0, 2), (3, 0)] false = [3, 4] := by decide

end Knee

import Knee.Lemmas.Cm
/-!
# C19 — confusion-matrix and score invariants

Model: `Knee.cm` (evaluation.cm), `Knee.accuracyQ`, `Knee.f1Q`, `Knee.mccNum`/`Knee.mccDenSq`
(evaluation.accuracy / f1score / mcc; MCC is handled through its numerator and *squared*
denominator so that no square root is needed).  Every `cm_*` theorem holds for *every* distance
oracle `d : Nat → Nat → Rat` (`d e j` = normalised x-distance from expected point `e` to knee `j`)
and every tolerance `t`.  `nk` = number of knees, `ne` = number of expected points, `n` = number
of points; a result is `(tp, fp, fn, tn)`.
-/
namespace Knee

/-- **C19 (TP + FN = |E|).** Every expected point is counted exactly once, either as a true
positive or as a false negative. -/
theorem cm_tp_fn (d : Nat → Nat → Rat) (t : Rat) (n nk ne : Nat) :
    (cm d t n nk ne).1 + (cm d t n nk ne).2.2.1 = ne := by
  simpa [cm] using cmGo_count d t nk (List.range ne) 0 0 []

/-- **C19 (TP ≤ |K|).** With at least one knee, a knee is matched at most once, so TP never
exceeds the number of knees (the `max(…, 0)` clip in `fp` is never active). -/
theorem cm_tp_le_knees (d : Nat → Nat → Rat) (t : Rat) (n nk ne : Nat) (hk : 0 < nk) :
    (cm d t n nk ne).1 ≤ nk := by
  simpa [cm] using cmGo_tp_le d t hk (List.range ne)

/-- **C19 (TP + FP = |K|).** -/
theorem cm_tp_fp (d : Nat → Nat → Rat) (t : Rat) (n nk ne : Nat) (hk : 0 < nk) :
    (cm d t n nk ne).1 + (cm d t n nk ne).2.1 = nk := by
  have h := cm_tp_le_knees d t n nk ne hk
  simp only [cm] at h ⊢
  omega

/-- **C19 (entries sum to n).** `tn` is *defined* as the remainder, so this needs no hypothesis
(not even `0 < nk`); the content is in `cm_tn_nonneg`. -/
theorem cm_sum (d : Nat → Nat → Rat) (t : Rat) (n nk ne : Nat) :
    let r := cm d t n nk ne
    (r.1 : Int) + r.2.1 + r.2.2.1 + r.2.2.2 = n := by
  simp only [cm]
  omega

/-- **C19 (TN ≥ 0).** If knees and expected points together do not outnumber the points, the
unclipped `tn = n - (tp + fp + fn)` is non-negative. -/
theorem cm_tn_nonneg (d : Nat → Nat → Rat) (t : Rat) (n nk ne : Nat) (hk : 0 < nk)
    (h : nk + ne ≤ n) : 0 ≤ (cm d t n nk ne).2.2.2 := by
  have h1 := cm_tp_fp d t n nk ne hk
  have h2 := cm_tp_fn d t n nk ne
  simp only [cm] at h1 h2 ⊢
  omega

/-- **C19 (greedy step).** After a prefix of the expected points has produced the state
`(tp, fn, used)`, the next expected point `e` is a true positive iff its nearest knee
`idx = argmin_j d e j` is within tolerance *and* has not been used before; otherwise it is a
false negative.  Nothing else is ever consulted (in particular not the second-nearest knee). -/
theorem cm_greedy_step (d : Nat → Nat → Rat) (t : Rat) (nk e : Nat) (es : List Nat)
    (tp fn : Nat) (used : List Nat) :
    cmGo d t nk (e :: es) (tp, fn, used) =
      if ((List.range nk).map (d e))[argminIdx ((List.range nk).map (d e))]?.getD 0 ≤ t
          ∧ argminIdx ((List.range nk).map (d e)) ∉ used
      then cmGo d t nk es (tp + 1, fn, argminIdx ((List.range nk).map (d e)) :: used)
      else cmGo d t nk es (tp, fn + 1, used) :=
  cmGo_cons d t nk e es tp fn used

/-! ## Scores -/

/-- **C19 (accuracy ∈ [0,1]).** No `0 < tp + fp + fn + tn` hypothesis is needed: in the
degenerate all-zero case (where the code divides by zero) Lean's `0 / 0 = 0` is still in `[0,1]`,
so the statement is simply stronger. -/
theorem accuracy_unit (tp fp fn : Nat) (tn : Int) (h0 : 0 ≤ tn) :
    0 ≤ accuracyQ tp fp fn tn ∧ accuracyQ tp fp fn tn ≤ 1 :=
  ⟨accuracyQ_nonneg tp fp fn h0, accuracyQ_le_one tp fp fn h0⟩

/-- **C19 (F1 ∈ [0,1]).** Likewise without the `0 < 2*tp + fp + fn` hypothesis. -/
theorem f1_unit (tp fp fn : Nat) :
    0 ≤ f1Q tp fp fn ∧ f1Q tp fp fn ≤ 1 :=
  ⟨f1Q_nonneg tp fp fn, f1Q_le_one tp fp fn⟩

/-- **C19 (MCC ∈ [-1,1]).** `num² ≤ den²`, i.e. `|MCC| ≤ 1` wherever the denominator is
non-zero. -/
theorem mcc_sq_le_one (tp fp fn : Nat) (tn : Int) (h : 0 ≤ tn) :
    (mccNum tp fp fn tn) ^ 2 ≤ mccDenSq tp fp fn tn := by
  unfold mccNum mccDenSq
  exact mcc_core tp fp fn tn (Int.natCast_nonneg _) (Int.natCast_nonneg _) (Int.natCast_nonneg _) h

/-! ## Perfect detection (`fp = 0`, `fn = 0`) -/

theorem accuracy_perfect (tp : Nat) (tn : Int) (h : 0 < (tp : Int) + tn) :
    accuracyQ tp 0 0 tn = 1 := by
  have : ((tp : Rat) + (tn : Rat)) ≠ 0 := by
    have : (0 : Rat) < ((tp : Int) + tn : Int) := by exact_mod_cast h
    push_cast at this
    exact ne_of_gt this
  simp [accuracyQ, this]

theorem f1_perfect (tp : Nat) (h : 0 < tp) : f1Q tp 0 0 = 1 := by
  have : (tp : Rat) ≠ 0 := by exact_mod_cast (Nat.pos_iff_ne_zero.mp h)
  simp [f1Q, this]

/-- with `fp = fn = 0`, `num² = den²`: MCC is exactly `±1` (and `+1` since `num = tp·tn ≥ 0`
when `tn ≥ 0`) wherever it is defined -/
theorem mcc_perfect (tp : Nat) (tn : Int) : (mccNum tp 0 0 tn) ^ 2 = mccDenSq tp 0 0 tn := by
  simp only [mccNum, mccDenSq]
  push_cast
  ring

/-! Non-vacuity.  Oracle `d e j = j + 1`: every expected point is nearest to knee 0 (distance 1).
With `t = 1`, two knees and two expected points, the first expected point takes knee 0 and the
second *competes for the same knee* and becomes a false negative — knee 1 is never tried. -/
example : cm (fun _ j => (j : Rat) + 1) 1 10 2 2 = (1, 1, 1, 7) := by decide +kernel
/-- one-to-one oracle (`d e j = |e - j|`): perfect detection, and the scores are 1 -/
example : cm (fun e j => rabs ((e : Rat) - j)) 0 10 3 3 = (3, 0, 0, 7)
    ∧ accuracyQ 3 0 0 7 = 1 ∧ f1Q 3 0 0 = 1 ∧ (mccNum 3 0 0 7) ^ 2 = mccDenSq 3 0 0 7 := by
  decide +kernel
/-- `0 < nk` is needed for TP ≤ |K|: with no knees the model's `argmin` of an empty row is 0 and
`[][0]?.getD 0 = 0 ≤ t` (the Python raises instead) -/
example : (cm (fun _ _ => 0) 0 10 0 1).1 = 1 := by decide +kernel
/-- the hypotheses of `cm_tn_nonneg` are needed: too many knees + expected points gives `tn < 0` -/
example : (cm (fun _ j => (j : Rat) + 1) 1 2 2 2).2.2.2 = -1 := by decide +kernel

end Knee

import Knee.Lemmas.Refine
import Knee.Props.C01
/-!
# C06 — global RDP stops at the first refinement whose global cost meets the threshold

`S k := rdpFixed dst key n k` is the fixed-size refinement sequence (C05).  `accept red` says the
global reconstruction cost of the breakpoint set `red` is on the accepting side of `t`
(`acceptOf isR2 t gcs`); the theorems hold for EVERY such predicate, hence for every metric and
threshold and whatever the cost primitive returns.
-/
namespace Knee

/-- **C06, global RDP.** `grdp` returns `S_k` for the least `k ≥ 2` whose global cost is accepted, and
all `n` points if none is. -/
theorem grdp_eq_first (accept : List Nat → Bool) (dst : Nat → Nat → List Rat) (key : Nat → Nat → Nat → Rat × Rat)
    (n : Nat) (hn : 2 ≤ n) (hd : ∀ l r, (dst l r).length = r - l) :
    ∃ k, 2 ≤ k ∧ k ≤ n ∧ grdp accept dst key n = rdpFixed dst key n k ∧
      (accept (rdpFixed dst key n k) = true ∨ (k = n ∧ (rdpFixed dst key n k).length = n)) ∧
      ∀ k', 2 ≤ k' → k' < k → accept (rdpFixed dst key n k') = false := by
  obtain ⟨j, _, heq, hfin, hbefore⟩ := grdpLoop_eq_fixed accept dst key hd hn (rinit_inv n hn) n (by simp [rinit])
  have hlen := fixedLoop_length (key := key) hd hn (rinit_inv n hn)
  have hinvj := fixedLoop_inv (key := key) hd hn (rinit_inv n hn) j
  have hj2 : j + 2 ≤ n := by
    cases j with
    | zero => omega
    | succ j' =>
      have hb := (hbefore j' (by omega)).2
      have hinv' := fixedLoop_inv (key := key) hd hn (rinit_inv n hn) j'
      have hne : (fixedLoop dst key j' (rinit n)).reduced.length ≠ n := fun e => hb ((hinv'.stack_nil_iff hn).mpr e)
      have hl : (fixedLoop dst key j' (rinit n)).reduced.length = min (2 + j') n := by
        simpa [rinit] using hlen j'
      have hle := hinv'.length_le hn
      rw [Nat.min_def] at hl
      split at hl <;> omega
  refine ⟨j + 2, by omega, hj2, by simp [grdp, heq, rdpFixed], ?_, ?_⟩
  · simp only [rdpFixed, Nat.add_sub_cancel]
    rcases hfin with h | h
    · exact Or.inl h
    · right
      have hl := (hinvj.stack_nil_iff hn).mp h
      refine ⟨?_, hl⟩
      have hl2 : (fixedLoop dst key j (rinit n)).reduced.length = min (2 + j) n := by
        simpa [rinit] using hlen j
      rw [Nat.min_def] at hl2
      split at hl2 <;> omega
  · intro k' hk2 hk
    have := (hbefore (k' - 2) (by omega)).1
    simpa [rdpFixed] using this

/-- **C06, min-points variant.** `mp_grdp` returns `S_max(k*, min(m, n))` where `S_k*` is the global-RDP result. -/
theorem mp_eq (accept : List Nat → Bool) (dst : Nat → Nat → List Rat) (key : Nat → Nat → Nat → Rat × Rat)
    (n m : Nat) (hn : 2 ≤ n) (hd : ∀ l r, (dst l r).length = r - l) :
    ∃ k, 2 ≤ k ∧ k ≤ n ∧ grdp accept dst key n = rdpFixed dst key n k ∧ (rdpFixed dst key n k).length = k ∧
      mpGrdp accept dst key n m = rdpFixed dst key n (max k (min m n)) := by
  obtain ⟨j, _, heq, _, hbefore⟩ := grdpLoop_eq_fixed accept dst key hd hn (rinit_inv n hn) n (by simp [rinit])
  have hlen := fixedLoop_length (key := key) hd hn (rinit_inv n hn)
  have hinvj := fixedLoop_inv (key := key) hd hn (rinit_inv n hn) j
  have hj2 : j + 2 ≤ n := by
    cases j with
    | zero => omega
    | succ j' =>
      have hb := (hbefore j' (by omega)).2
      have hinv' := fixedLoop_inv (key := key) hd hn (rinit_inv n hn) j'
      have hne : (fixedLoop dst key j' (rinit n)).reduced.length ≠ n := fun e => hb ((hinv'.stack_nil_iff hn).mpr e)
      have hl : (fixedLoop dst key j' (rinit n)).reduced.length = min (2 + j') n := by
        simpa [rinit] using hlen j'
      have hle := hinv'.length_le hn
      rw [Nat.min_def] at hl
      split at hl <;> omega
  have hl2 : (fixedLoop dst key j (rinit n)).reduced.length = j + 2 := by
    have : (fixedLoop dst key j (rinit n)).reduced.length = min (2 + j) n := by simpa [rinit] using hlen j
    omega
  refine ⟨j + 2, by omega, hj2, by simp [grdp, heq, rdpFixed], by simpa [rdpFixed] using hl2, ?_⟩
  -- fixedLoop composes additively
  have hadd : ∀ a b s, fixedLoop dst key a (fixedLoop dst key b s) = fixedLoop dst key (b + a) s := by
    intro a
    induction a with
    | zero => intro b s; rfl
    | succ a ih =>
      intro b s
      rw [fixedLoop_succ, ih, show b + (a + 1) = (b + a) + 1 by omega, fixedLoop_succ]
  unfold mpGrdp
  simp only [heq, hl2]
  split
  · rename_i h
    have : max (j + 2) (min m n) = j + 2 := by omega
    simp [rdpFixed, this]
  · rename_i h
    rw [hadd]
    by_cases hmn : m ≤ n
    · have : max (j + 2) (min m n) = m := by omega
      simp only [rdpFixed, this]
      congr 2
      omega
    · -- m > n: both sides are the full refinement (all n points); compare through the length-saturation
      have hmax : max (j + 2) (min m n) = n := by omega
      simp only [rdpFixed, hmax]
      -- after n-2 steps the stack is empty, further steps do nothing
      have hfull : ∀ c, fixedLoop dst key ((n - 2) + c) (rinit n) = fixedLoop dst key (n - 2) (rinit n) := by
        intro c
        induction c with
        | zero => rfl
        | succ c ih =>
          rw [show n - 2 + (c + 1) = (n - 2 + c) + 1 by omega, fixedLoop_succ, ih]
          have hinvn := fixedLoop_inv (key := key) hd hn (rinit_inv n hn) (n - 2)
          have hln : (fixedLoop dst key (n - 2) (rinit n)).reduced.length = n := by
            have : (fixedLoop dst key (n - 2) (rinit n)).reduced.length = min (2 + (n - 2)) n := by
              simpa [rinit] using hlen (n - 2)
            omega
          have hnil := (hinvn.stack_nil_iff hn).mpr hln
          simp [stepOrStop, hnil]
      have e1 : j + (m - (j + 2)) = (n - 2) + (m - n) := by omega
      rw [e1, hfull]

/-- **C06, multi-threshold variant.** `min_point_rdp` returns the global-RDP result for the first
threshold (in the given, descending, order) whose result has at least `m` points, and the
fixed-size result for `m` if there is none. -/
theorem minpoint_eq (acceptAt : Rat → List Nat → Bool) (dst : Nat → Nat → List Rat) (key : Nat → Nat → Nat → Rat × Rat)
    (n m : Nat) (ts : List Rat) :
    (∃ pre t post, ts = pre ++ t :: post ∧ (∀ t' ∈ pre, (grdp (acceptAt t') dst key n).length < m) ∧
        m ≤ (grdp (acceptAt t) dst key n).length ∧ minPointRdp acceptAt dst key n m ts = grdp (acceptAt t) dst key n) ∨
    ((∀ t' ∈ ts, (grdp (acceptAt t') dst key n).length < m) ∧ minPointRdp acceptAt dst key n m ts = rdpFixed dst key n m) := by
  induction ts with
  | nil => right; exact ⟨by simp, rfl⟩
  | cons t ts ih =>
    by_cases h : m ≤ (grdp (acceptAt t) dst key n).length
    · left
      exact ⟨[], t, ts, rfl, by simp, h, by simp [minPointRdp, h]⟩
    · have hlt : (grdp (acceptAt t) dst key n).length < m := by omega
      have hstep : minPointRdp acceptAt dst key n m (t :: ts) = minPointRdp acceptAt dst key n m ts := by
        simp [minPointRdp, h]
      rcases ih with ⟨pre, t0, post, he, hpre, hm, hres⟩ | ⟨hall, hres⟩
      · left
        refine ⟨t :: pre, t0, post, by simp [he], ?_, hm, by rw [hstep, hres]⟩
        intro t' ht'
        rcases List.mem_cons.mp ht' with rfl | h'
        · exact hlt
        · exact hpre t' h'
      · right
        refine ⟨?_, by rw [hstep, hres]⟩
        intro t' ht'
        rcases List.mem_cons.mp ht' with rfl | h'
        · exact hlt
        · exact hall t' h'

/-- the accepting side is monotone in the threshold, so with thresholds sorted in descending order
"first accepted in order" is "largest listed threshold that is accepted" -/
theorem acceptOf_mono (isR2 : Bool) (t t' : Rat) (gcs : List Nat → Rat) (red : List Nat)
    (h : if isR2 then t' ≤ t else t ≤ t') (ha : acceptOf isR2 t gcs red = true) : acceptOf isR2 t' gcs red = true := by
  cases isR2 <;> simp [acceptOf, curved] at * <;> grind

end Knee

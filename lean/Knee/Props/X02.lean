import Knee.Lemmas.Knees2
import Knee.Props.C13
/-!
# X02 — `zmethod.knees2`: candidate refinement to a fixed point; `zmethod.map_index`

Model: `Knee/Model/Knees2.lean`.  `near : Nat → Nat → Bool` (box test of two candidates) and
`score : List Nat → List Rat` (`pp.rank_corners` of a neighbourhood list) are ARBITRARY oracles in every
theorem of the round / loop / `knees2` sections: nothing is assumed about floating point, about symmetry
or reflexivity of `near`, or about the length of the score list.  `v` (thresholded array), `z`
(`outlier_z`), `h` (heights), `iou`, `t`, `n` are arbitrary too; candidate lists may contain duplicates
unless a theorem says otherwise.
-/
namespace Knee

variable (near : Nat → Nat → Bool) (score : List Nat → List Rat)

/-! ### 1. one round -/

/-- One round only drops candidates and keeps their order. -/
theorem knees2_round_sublist (c : List Nat) : (refineRound near score c).Sublist c :=
  refineRound_sublist near score c

/-- No duplicates in, no duplicates out. -/
theorem knees2_round_nodup (c : List Nat) (hc : c.Nodup) : (refineRound near score c).Nodup :=
  hc.sublist (refineRound_sublist near score c)

/-- Strictly increasing in, strictly increasing out. -/
theorem knees2_round_increasing (c : List Nat) (hc : c.Pairwise (· < ·)) :
    (refineRound near score c).Pairwise (· < ·) :=
  hc.sublist (refineRound_sublist near score c)

/-- A candidate survives a round iff it is a candidate and the `if` cascade appends it. -/
theorem knees2_round_mem (c : List Nat) (i : Nat) :
    i ∈ refineRound near score c ↔ i ∈ c ∧ survives near score c i = true := by
  simp [refineRound, List.mem_filter]

/-- The `if` cascade: `i` is appended iff its neighbourhood is exactly `[i]` (alone in its box), or
the neighbourhood has at least two members and the first maximiser of their `rank_corners` scores
is `i`.  (An empty neighbourhood, or a one-member neighbourhood `[a]` with `a ≠ i`, is the "Ups"
branch: nothing appended.) -/
theorem knees2_survives_iff (c : List Nat) (i : Nat) :
    survives near score c i = true ↔
      neighbourhood near c i = [i] ∨
      (2 ≤ (neighbourhood near c i).length ∧
        (neighbourhood near c i)[argmaxIdx (score (neighbourhood near c i))]? = some i) :=
  survives_iff near score c i

/-- The neighbourhood is the candidates in the box of `i`, in candidate order. -/
theorem knees2_neighbourhood_mem (c : List Nat) (i j : Nat) :
    j ∈ neighbourhood near c i ↔ j ∈ c ∧ near j i = true := by
  simp [neighbourhood, List.mem_filter]

/-- The survivor of the arg-max branch is the FIRST maximum (`np.argmax`): its score is at least
every score of the neighbourhood and strictly above every earlier one. -/
theorem knees2_survivor_first_max (c : List Nat) (i : Nat)
    (h2 : 2 ≤ (neighbourhood near c i).length)
    (hlen : (score (neighbourhood near c i)).length = (neighbourhood near c i).length)
    (hs : survives near score c i = true) :
    ∃ p, p < (neighbourhood near c i).length ∧ (neighbourhood near c i)[p]? = some i ∧
      (∀ q, q < (neighbourhood near c i).length →
        (score (neighbourhood near c i))[q]?.getD 0 ≤ (score (neighbourhood near c i))[p]?.getD 0) ∧
      (∀ q, q < p →
        (score (neighbourhood near c i))[q]?.getD 0 < (score (neighbourhood near c i))[p]?.getD 0) := by
  rcases (survives_iff near score c i).1 hs with h1 | ⟨_, h⟩
  · rw [h1] at h2; simp at h2
  · have hne : score (neighbourhood near c i) ≠ [] := by
      intro e; rw [e] at hlen; simp at hlen; omega
    have hp := argmaxIdx_lt_length hne
    have hsp := argmaxIdx_spec _ hne
    refine ⟨argmaxIdx (score (neighbourhood near c i)), by omega, h, ?_, hsp.2⟩
    intro q hq
    exact hsp.1 q (by omega)

/-- Two candidates with the same neighbourhood list of two or more members cannot both survive. -/
theorem knees2_one_survivor_per_neighbourhood (c : List Nat) (i j : Nat)
    (hn : neighbourhood near c i = neighbourhood near c j)
    (h2 : 2 ≤ (neighbourhood near c i).length)
    (hi : survives near score c i = true) (hj : survives near score c j = true) : i = j := by
  rcases (survives_iff near score c i).1 hi with h1 | ⟨_, h⟩
  · rw [h1] at h2; simp at h2
  · rcases (survives_iff near score c j).1 hj with h1' | ⟨_, h'⟩
    · rw [hn, h1'] at h2; simp at h2
    · rw [hn, h'] at h; exact (Option.some.inj h).symm

/-- Quirk: when every candidate is in its own box (`near i i`; true for finite coordinates and
non-negative steps) the "Ups" branch is dead code: the neighbourhood of a candidate contains the
candidate, and a one-member neighbourhood is `[i]` itself. -/
theorem knees2_ups_unreachable (c : List Nat) (i : Nat) (hi : i ∈ c) (hrefl : near i i = true) :
    neighbourhood near c i ≠ [] ∧
    ((neighbourhood near c i).length = 1 → neighbourhood near c i = [i]) := by
  have hm : i ∈ neighbourhood near c i := (knees2_neighbourhood_mem near c i i).2 ⟨hi, hrefl⟩
  refine ⟨List.ne_nil_of_mem hm, ?_⟩
  intro h1
  match hn : neighbourhood near c i with
  | [] => rw [hn] at h1; simp at h1
  | [a] => rw [hn] at hm; simp at hm; rw [hm]
  | _ :: _ :: _ => rw [hn] at h1; simp at h1

/-- Quirk (the converse): a candidate outside its own box (negative step, i.e. `dx < 0` or `dy < 0`,
or a NaN coordinate) that is alone there is dropped. -/
theorem knees2_ups_drops (c : List Nat) (i : Nat) (h : neighbourhood near c i = []) :
    i ∉ refineRound near score c := by
  intro hm
  have := ((knees2_round_mem near score c i).1 hm).2
  rcases (survives_iff near score c i).1 this with h1 | ⟨h2, _⟩
  · rw [h] at h1; simp at h1
  · rw [h] at h2; simp at h2

/-! ### 2. termination -/

/-- A round changes nothing or strictly shortens the candidate list. -/
theorem knees2_round_eq_or_shorter (c : List Nat) :
    refineRound near score c = c ∨ (refineRound near score c).length < c.length :=
  refineRound_eq_or_lt near score c

/-- The loop terminates: `len(candidates) + 1` units of fuel (or more) are never exhausted. -/
theorem knees2_loop_terminates (fuel k0 : Nat) (c : List Nat) (hf : c.length < fuel) :
    (refineLoop near score fuel k0 c).isSome = true :=
  refineLoop_isSome near score fuel k0 c hf

/-- The answer does not depend on the fuel once it suffices. -/
theorem knees2_loop_fuel_irrelevant (fuel fuel' k0 : Nat) (c : List Nat)
    (hf : c.length < fuel) (hf' : c.length < fuel') :
    refineLoop near score fuel k0 c = refineLoop near score fuel' k0 c := by
  have h1 := refineLoop_isSome near score (c.length + 1) k0 c (by omega)
  obtain ⟨res, hres⟩ := Option.isSome_iff_exists.1 h1
  rw [refineLoop_fuel_mono near score _ k0 c res hres fuel (by omega),
    refineLoop_fuel_mono near score _ k0 c res hres fuel' (by omega)]

/-- Bound on the number of rounds: at least one, at most one per dropped candidate plus the final
confirming round; in particular at most `len(candidates) + 1`. -/
theorem knees2_loop_rounds_bound (fuel : Nat) (c r : List Nat) (k : Nat) (tr : List (List Nat))
    (h : refineLoop near score fuel 0 c = some (r, k, tr)) :
    1 ≤ k ∧ k + r.length ≤ c.length + 1 ∧ k ≤ c.length + 1 := by
  have := refineLoop_some near score fuel 0 c r k tr h
  omega

/-! ### 3. the result is a fixed point -/

/-- `l` is a fixed point of the round function iff every member is alone in its box or is the
first arg-max of its neighbourhood (taken among the members of `l`). -/
theorem knees2_fixed_point_iff (l : List Nat) :
    refineRound near score l = l ↔
      ∀ i ∈ l, neighbourhood near l i = [i] ∨
        (2 ≤ (neighbourhood near l i).length ∧
          (neighbourhood near l i)[argmaxIdx (score (neighbourhood near l i))]? = some i) := by
  unfold refineRound
  rw [List.filter_eq_self]
  constructor
  · intro h i hi; exact (survives_iff near score l i).1 (h i hi)
  · intro h i hi; exact (survives_iff near score l i).2 (h i hi)

/-- The value returned by the loop is a fixed point of the round function. -/
theorem knees2_loop_fixed_point (fuel k0 : Nat) (c r : List Nat) (k : Nat) (tr : List (List Nat))
    (h : refineLoop near score fuel k0 c = some (r, k, tr)) : refineRound near score r = r :=
  (refineLoop_some near score fuel k0 c r k tr h).2.1

/-- The value returned by the loop is a sublist of the candidates it started from. -/
theorem knees2_loop_sublist (fuel k0 : Nat) (c r : List Nat) (k : Nat) (tr : List (List Nat))
    (h : refineLoop near score fuel k0 c = some (r, k, tr)) : r.Sublist c :=
  (refineLoop_some near score fuel k0 c r k tr h).1

/-- The loop returns the FIRST repetition of the iteration `c, round c, round (round c), …`:
the result is the iterate number `rounds - 1`, every earlier round strictly shortened the list, and
the trace lists exactly the iterates. -/
theorem knees2_loop_is_first_fixed_point (fuel : Nat) (c r : List Nat) (k : Nat)
    (tr : List (List Nat)) (h : refineLoop near score fuel 0 c = some (r, k, tr)) :
    r = iterRound near score (k - 1) c ∧
    tr = (List.range k).map (fun j => iterRound near score j c) ∧
    (∀ j, j + 1 < k → (iterRound near score (j + 1) c).length < (iterRound near score j c).length) := by
  have := refineLoop_some near score fuel 0 c r k tr h
  simp only [Nat.sub_zero] at this
  exact ⟨this.2.2.2.2.2.1, this.2.2.2.2.1, this.2.2.2.2.2.2⟩

/-- One round suffices iff the candidates are already a fixed point. -/
theorem knees2_loop_one_round_iff (fuel : Nat) (c : List Nat) :
    refineLoop near score (fuel + 1) 0 c = some (c, 1, [c]) ↔ refineRound near score c = c := by
  simp only [refineLoop]
  constructor
  · intro h
    by_cases he : arrayEqual (refineRound near score c) c = true
    · exact (arrayEqual_iff _ _).1 he
    · rw [if_neg he] at h
      cases hrec : refineLoop near score fuel (0 + 1) (refineRound near score c) with
      | none => rw [hrec] at h; simp at h
      | some res =>
        obtain ⟨r', k', tr'⟩ := res
        rw [hrec] at h
        have hk := (refineLoop_some near score fuel 1 _ r' k' tr' hrec).2.2.1
        simp only [Option.some.injEq, Prod.mk.injEq] at h
        omega
  · intro h
    rw [if_pos ((arrayEqual_iff _ _).2 h)]

/-! ### 3'. `knees2` as a whole -/

variable (v : List Rat) (z : Rat) (n : Nat) (h iou : Nat → Rat) (t : Rat)

/-- `knees2` returns (the fuel supplied by the wrapper is never exhausted). -/
theorem knees2_terminates : (knees2 v z n h iou t near score).isSome = true := by
  unfold knees2
  have := refineLoop_isSome near score
    ((cornerFilter n iou t (worstFilter h (outlierCandidates v z))).length + 1) 0
    (cornerFilter n iou t (worstFilter h (outlierCandidates v z))) (by omega)
  obtain ⟨res, hres⟩ := Option.isSome_iff_exists.1 this
  obtain ⟨r, k, tr⟩ := res
  simp only [hres]
  rfl

/-- The stages of a run. -/
theorem knees2_stages (o : Knees2Out) (ho : knees2 v z n h iou t near score = some o) :
    o.outliers = outlierCandidates v z ∧ o.worst = worstFilter h o.outliers ∧
    o.corner = cornerFilter n iou t o.worst ∧
    refineLoop near score (o.corner.length + 1) 0 o.corner = some (o.result, o.rounds, o.trace) := by
  unfold knees2 at ho
  cases hrec : refineLoop near score
    ((cornerFilter n iou t (worstFilter h (outlierCandidates v z))).length + 1) 0
    (cornerFilter n iou t (worstFilter h (outlierCandidates v z))) with
  | none => simp only [hrec] at ho; simp at ho
  | some res =>
    obtain ⟨r, k, tr⟩ := res
    simp only [hrec, Option.some.injEq] at ho
    subst ho
    exact ⟨rfl, rfl, rfl, hrec⟩

/-- A candidate is an index whose value reaches the threshold (`>=`). -/
theorem knees2_outlier_rule (i : Nat) :
    i ∈ outlierCandidates v z ↔ i < v.length ∧ z ≤ v[i]?.getD 0 :=
  mem_outlierCandidates v z i

/-- result ⊆ after-corner-filter ⊆ after-worst-filter ⊆ outlier candidates ⊆ `range(len(v))`,
each as an order-preserving sublist. -/
theorem knees2_chain (o : Knees2Out) (ho : knees2 v z n h iou t near score = some o) :
    o.result.Sublist o.corner ∧ o.corner.Sublist o.worst ∧ o.worst.Sublist o.outliers ∧
    o.outliers.Sublist (List.range v.length) := by
  obtain ⟨h0, h1, h2, h3⟩ := knees2_stages near score v z n h iou t o ho
  refine ⟨knees2_loop_sublist near score _ _ _ _ _ _ h3, ?_, ?_, ?_⟩
  · rw [h2]; exact corner_filter_sublist n iou t o.worst
  · rw [h1]; exact worst_sublist h o.outliers
  · rw [h0]; exact outlierCandidates_sublist v z

/-- The returned indices are strictly increasing (hence distinct) and in range. -/
theorem knees2_strictly_increasing (o : Knees2Out) (ho : knees2 v z n h iou t near score = some o) :
    o.result.Pairwise (· < ·) ∧ ∀ i ∈ o.result, i < v.length ∧ z ≤ v[i]?.getD 0 := by
  obtain ⟨c1, c2, c3, c4⟩ := knees2_chain near score v z n h iou t o ho
  have hs : o.result.Sublist (List.range v.length) := ((c1.trans c2).trans c3).trans c4
  refine ⟨List.pairwise_lt_range.sublist hs, ?_⟩
  intro i hi
  have : i ∈ o.outliers := ((c1.trans c2).trans c3).subset hi
  rw [(knees2_stages near score v z n h iou t o ho).1] at this
  exact (mem_outlierCandidates v z i).1 this

/-- Heights are non-increasing along the result (inherited from the worst-knee filter through the
sublist chain). -/
theorem knees2_heights_nonincreasing (o : Knees2Out)
    (ho : knees2 v z n h iou t near score = some o) :
    o.result.Pairwise (fun a b => h b ≤ h a) := by
  obtain ⟨c1, c2, _, _⟩ := knees2_chain near score v z n h iou t o ho
  have hw : o.worst.Pairwise (fun a b => h b ≤ h a) := by
    rw [(knees2_stages near score v z n h iou t o ho).2.1]
    exact worst_heights_nonincreasing h o.outliers
  exact hw.sublist (c1.trans c2)

/-- Every returned knee passed the corner filter: it is an end point or its IoU is below `t`. -/
theorem knees2_result_passed_corner (o : Knees2Out)
    (ho : knees2 v z n h iou t near score = some o) :
    ∀ k ∈ o.result, hasNeighbours n k = true → iou k < t := by
  obtain ⟨c1, _, _, _⟩ := knees2_chain near score v z n h iou t o ho
  intro k hk
  have : k ∈ o.corner := c1.subset hk
  rw [(knees2_stages near score v z n h iou t o ho).2.2.1] at this
  exact ((corner_filter_rule n iou t o.worst k).1 this).2

/-- The result is a fixed point: every returned knee is alone in its box among the returned knees, or
is the first arg-max of `rank_corners` over its neighbourhood among the returned knees. -/
theorem knees2_fixed_point (o : Knees2Out) (ho : knees2 v z n h iou t near score = some o) :
    refineRound near score o.result = o.result ∧
    ∀ i ∈ o.result, neighbourhood near o.result i = [i] ∨
      (2 ≤ (neighbourhood near o.result i).length ∧
        (neighbourhood near o.result i)[argmaxIdx (score (neighbourhood near o.result i))]? = some i) := by
  have hfix := knees2_loop_fixed_point near score _ _ _ _ _ _
    (knees2_stages near score v z n h iou t o ho).2.2.2
  exact ⟨hfix, (knees2_fixed_point_iff near score o.result).1 hfix⟩

/-- Rounds: at least 1, at most `len(filtered candidates) - len(result) + 1`. -/
theorem knees2_rounds_bound (o : Knees2Out) (ho : knees2 v z n h iou t near score = some o) :
    1 ≤ o.rounds ∧ o.rounds + o.result.length ≤ o.corner.length + 1 ∧
    o.rounds ≤ v.length + 1 := by
  have h3 := (knees2_stages near score v z n h iou t o ho).2.2.2
  have hb := knees2_loop_rounds_bound near score _ _ _ _ _ h3
  obtain ⟨_, c2, c3, c4⟩ := knees2_chain near score v z n h iou t o ho
  have := ((c2.trans c3).trans c4).length_le
  simp only [List.length_range] at this
  omega

/-- No candidates in, none out, in one round (`np.array_equal([], array([]))` is `True`). -/
theorem knees2_empty : refineLoop near score 1 0 [] = some ([], 1, [[]]) := by
  simp [refineLoop, refineRound, arrayEqual, allEq]

/-! ### the instances `nearOf`, `rankCorners` -/

/-- The box test is reflexive as soon as `x - x = 0`, `y - y = 0` and both steps are `≥ 0`. -/
theorem knees2_near_refl (dxf dyf : Nat → Nat → Rat) (xstep ystep : Rat) (i : Nat)
    (hx : dxf i i = 0) (hy : dyf i i = 0) (h1 : 0 ≤ xstep) (h2 : 0 ≤ ystep) :
    nearOf dxf dyf xstep ystep i i = true := by
  simp [nearOf, hx, hy, rabs, h1, h2]

/-- With a negative step nobody is in anybody's box: the first round drops every candidate. -/
theorem knees2_negative_step_drops_all (dxf dyf : Nat → Nat → Rat) (xstep ystep : Rat)
    (hneg : xstep < 0 ∨ ystep < 0) (c : List Nat) :
    refineRound (nearOf dxf dyf xstep ystep) score c = [] := by
  have hnear : ∀ j i, nearOf dxf dyf xstep ystep j i = false := by
    intro j i
    have a1 : ∀ q : Rat, 0 ≤ rabs q := by intro q; unfold rabs; split <;> grind
    have := a1 (dxf j i)
    have := a1 (dyf j i)
    unfold nearOf
    rcases hneg with hn | hn
    · have : ¬ rabs (dxf j i) ≤ xstep := by grind
      simp [this]
    · have : ¬ rabs (dyf j i) ≤ ystep := by grind
      simp [this]
  unfold refineRound
  rw [List.filter_eq_nil_iff]
  intro i _
  have : neighbourhood (nearOf dxf dyf xstep ystep) c i = [] := by
    unfold neighbourhood
    rw [List.filter_eq_nil_iff]
    intro j _
    simp [hnear j i]
  simp [survives, this]

/-- `rank_corners` returns one score per knee: the first is `x[k₀] - x[0]`, the others are the gaps
to the previous knee of the list. -/
theorem knees2_rank_corners_spec (dxf : Nat → Nat → Rat) (ks : List Nat) :
    (rankCorners dxf ks).length = ks.length ∧
    ∀ q, q < ks.length → (rankCorners dxf ks)[q]?.getD 0 =
      dxf (ks[q]?.getD 0) (if q = 0 then 0 else ks[q - 1]?.getD 0) :=
  ⟨rankCorners_length dxf ks, fun q hq => rankCornersGo_getElem dxf 0 ks q hq⟩

/-! ### 4. `np.array_equal` -/

/-- `np.array_equal` on two integer lists is list equality: same length and equal element by
element (lists of different length are unequal, two empty lists are equal). -/
theorem knees2_array_equal_iff (a b : List Nat) : arrayEqual a b = true ↔ a = b :=
  arrayEqual_iff a b

/-- Since a round returns a sublist, the loop's stop test is just a length test. -/
theorem knees2_stop_test_is_length_test (c : List Nat) :
    arrayEqual (refineRound near score c) c = true ↔ (refineRound near score c).length = c.length := by
  rw [arrayEqual_iff]
  constructor
  · intro e; rw [e]
  · intro e; exact (refineRound_sublist near score c).eq_of_length e

/-! ### 5. `map_index` -/

/-- `sigma` is "a permutation that sorts `a`" (what `np.argsort(a)` returns) -/
def SortsBy (a : List Rat) (sigma : List Nat) : Prop :=
  sigma.Perm (List.range a.length) ∧
  ∀ p q, p ≤ q → q < sigma.length →
    a[sigma[p]?.getD 0]?.getD 0 ≤ a[sigma[q]?.getD 0]?.getD 0

/-- `searchsorted(side='left')` on a sorted view returns the lower bound: every earlier key is
`< v`, every key from there on is `≥ v`. -/
theorem map_index_search_spec (a : List Rat) (sigma : List Nat) (v : Rat) (hs : SortsBy a sigma) :
    searchLeft a sigma v ≤ sigma.length ∧
    (∀ j, j < searchLeft a sigma v → a[sigma[j]?.getD 0]?.getD 0 < v) ∧
    (∀ j, searchLeft a sigma v ≤ j → j < sigma.length → v ≤ a[sigma[j]?.getD 0]?.getD 0) := by
  have := bisectLeft_spec (fun p => a[sigma[p]?.getD 0]?.getD 0) v sigma.length hs.2
    (sigma.length + 1) 0 sigma.length (by omega) (by omega) (by omega)
    (by intro j hj; omega) (by intro j h1 h2; omega)
  exact ⟨this.2.1, this.2.2.1, this.2.2.2⟩

/-- The output has one entry per value of `b`, namely `sort_idx[searchsorted(b[k])]`. -/
theorem map_index_entries (a : List Rat) (sigma : List Nat) :
    ∀ (b : List Rat) (out : List Nat), mapIndex a sigma b = some out →
      out.length = b.length ∧
      ∀ k, k < b.length → out[k]? = sigma[searchLeft a sigma (b[k]?.getD 0)]? ∧ (out[k]?).isSome = true := by
  intro b
  induction b with
  | nil => intro out h; simp [mapIndex] at h; subst h; simp
  | cons w ws ih =>
    intro out h
    simp only [mapIndex] at h
    cases h1 : sigma[searchLeft a sigma w]? with
    | none => simp [h1] at h
    | some i =>
      cases h2 : mapIndex a sigma ws with
      | none => simp [h1, h2] at h
      | some r =>
        simp only [h1, h2, Option.some.injEq] at h
        subst h
        obtain ⟨l, g⟩ := ih r h2
        refine ⟨by simp [l], ?_⟩
        intro k hk
        cases k with
        | zero => simp [h1]
        | succ k => simpa using g k (by simpa using hk)

/-- A value of `a` is found: the position indexes `sort_idx` in range and the entry there is an
index of `a` that holds the value. -/
theorem map_index_finds (a : List Rat) (sigma : List Nat) (v : Rat) (hs : SortsBy a sigma)
    (hv : v ∈ a) : ∃ i, sigma[searchLeft a sigma v]? = some i ∧ a[i]? = some v := by
  obtain ⟨hperm, hmono⟩ := hs
  obtain ⟨hp1, hp2, hp3⟩ := map_index_search_spec a sigma v ⟨hperm, hmono⟩
  obtain ⟨i0, hi0, hai0⟩ := List.getElem_of_mem hv
  have hmem : i0 ∈ sigma := hperm.mem_iff.2 (List.mem_range.2 hi0)
  obtain ⟨q, hq, hsq⟩ := List.getElem_of_mem hmem
  have hkq : a[sigma[q]?.getD 0]?.getD 0 = v := by simp [hq, hsq, hi0, hai0]
  have hpq : searchLeft a sigma v ≤ q := by
    rcases Nat.lt_or_ge q (searchLeft a sigma v) with hc | hc
    · have := hp2 q hc
      rw [hkq] at this
      grind
    · exact hc
  have hplt : searchLeft a sigma v < sigma.length := by omega
  have hle1 := hp3 _ (Nat.le_refl _) hplt
  have hle2 := hmono _ q hpq hq
  rw [hkq] at hle2
  have hinr : sigma[searchLeft a sigma v] ∈ List.range a.length :=
    hperm.mem_iff.1 (List.getElem_mem hplt)
  have hinr' : sigma[searchLeft a sigma v] < a.length := List.mem_range.1 hinr
  refine ⟨sigma[searchLeft a sigma v], by simp [hplt], ?_⟩
  simp only [hplt, List.getElem?_eq_getElem, Option.getD_some, hinr'] at hle1 hle2
  simp only [hinr', List.getElem?_eq_getElem, Option.some.injEq]
  grind

/-- Statement 5: for `a` with distinct values and `b ⊆ values of a`, `map_index(a, b)` returns
(no IndexError) and `out[k]` is THE index in `a` of `b[k]`. -/
theorem map_index_correct (a : List Rat) (sigma : List Nat) (b : List Rat) (hs : SortsBy a sigma)
    (hd : a.Nodup) (hb : ∀ w ∈ b, w ∈ a) :
    ∃ out, mapIndex a sigma b = some out ∧ out.length = b.length ∧
      ∀ k (hk : k < b.length), ∃ i, out[k]? = some i ∧ a[i]? = some b[k] ∧
        ∀ j, a[j]? = some b[k] → j = i := by
  induction b with
  | nil => exact ⟨[], rfl, rfl, by intro k hk; simp at hk⟩
  | cons w ws ih =>
    obtain ⟨out, ho, hl, hg⟩ := ih (fun w' hw' => hb w' (List.mem_cons_of_mem _ hw'))
    obtain ⟨i, hi1, hi2⟩ := map_index_finds a sigma w hs (hb w List.mem_cons_self)
    refine ⟨i :: out, by simp [mapIndex, hi1, ho], by simp [hl], ?_⟩
    intro k hk
    cases k with
    | zero =>
      refine ⟨i, by simp, by simpa using hi2, ?_⟩
      intro j hj
      simp only [List.getElem_cons_zero] at hj
      obtain ⟨hj1, hj2⟩ := List.getElem?_eq_some_iff.1 hj
      obtain ⟨hi1', hi2'⟩ := List.getElem?_eq_some_iff.1 hi2
      exact (List.getElem_inj hd).mp (hj2.trans hi2'.symm)
    | succ k =>
      have hk' : k < ws.length := by simpa using hk
      obtain ⟨i', h1, h2, h3⟩ := hg k hk'
      exact ⟨i', by simpa using h1, by simpa using h2, by simpa using h3⟩

/-- Values of `b` that are not in `a`: the entry is an index of the smallest value of `a` that is
`≥ v` ("next larger value") whenever there is one … -/
theorem map_index_not_found_next_larger (a : List Rat) (sigma : List Nat) (v : Rat)
    (hs : SortsBy a sigma) (w : Rat) (hw : w ∈ a) (hvw : v ≤ w) :
    ∃ i u, sigma[searchLeft a sigma v]? = some i ∧ a[i]? = some u ∧ v ≤ u ∧
      ∀ w' ∈ a, v ≤ w' → u ≤ w' := by
  obtain ⟨hperm, hmono⟩ := hs
  obtain ⟨hp1, hp2, hp3⟩ := map_index_search_spec a sigma v ⟨hperm, hmono⟩
  have locate : ∀ w' ∈ a, ∃ q, q < sigma.length ∧ a[sigma[q]?.getD 0]?.getD 0 = w' := by
    intro w' hw'
    obtain ⟨i0, hi0, hai0⟩ := List.getElem_of_mem hw'
    have hmem : i0 ∈ sigma := hperm.mem_iff.2 (List.mem_range.2 hi0)
    obtain ⟨q, hq, hsq⟩ := List.getElem_of_mem hmem
    exact ⟨q, hq, by simp [hq, hsq, hi0, hai0]⟩
  have above : ∀ w' ∈ a, v ≤ w' → ∃ q, searchLeft a sigma v ≤ q ∧ q < sigma.length ∧
      a[sigma[q]?.getD 0]?.getD 0 = w' := by
    intro w' hw' hv'
    obtain ⟨q, hq, hkq⟩ := locate w' hw'
    refine ⟨q, ?_, hq, hkq⟩
    rcases Nat.lt_or_ge q (searchLeft a sigma v) with hc | hc
    · have := hp2 q hc
      rw [hkq] at this
      grind
    · exact hc
  obtain ⟨q, hpq, hq, _⟩ := above w hw hvw
  have hplt : searchLeft a sigma v < sigma.length := by omega
  have hinr : sigma[searchLeft a sigma v] < a.length :=
    List.mem_range.1 (hperm.mem_iff.1 (List.getElem_mem hplt))
  have hkey : a[sigma[searchLeft a sigma v]?.getD 0]?.getD 0 = a[sigma[searchLeft a sigma v]] := by
    simp [hplt, hinr]
  refine ⟨sigma[searchLeft a sigma v], a[sigma[searchLeft a sigma v]], by simp [hplt], by simp [hinr], ?_, ?_⟩
  · rw [← hkey]; exact hp3 _ (Nat.le_refl _) hplt
  · intro w' hw' hv'
    obtain ⟨q', hpq', hq', hkq'⟩ := above w' hw' hv'
    rw [← hkey, ← hkq']
    exact hmono _ q' hpq' hq'

/-- … and an IndexError (`none`) when `v` is larger than every value of `a` (the position is
`len(a)`, one past the end of `sort_idx`); in particular for every `v` when `a` is empty. -/
theorem map_index_not_found_index_error (a : List Rat) (sigma : List Nat) (b : List Rat) (v : Rat)
    (hs : SortsBy a sigma) (hv : v ∈ b) (hbig : ∀ w ∈ a, w < v) : mapIndex a sigma b = none := by
  obtain ⟨hperm, hmono⟩ := hs
  obtain ⟨hp1, hp2, hp3⟩ := map_index_search_spec a sigma v ⟨hperm, hmono⟩
  have hpos : sigma[searchLeft a sigma v]? = none := by
    rw [List.getElem?_eq_none_iff]
    rcases Nat.lt_or_ge (searchLeft a sigma v) sigma.length with hplt | hc
    case inr => exact hc
    have hinr : sigma[searchLeft a sigma v] < a.length :=
      List.mem_range.1 (hperm.mem_iff.1 (List.getElem_mem hplt))
    have h1 := hp3 _ (Nat.le_refl _) hplt
    have h2 := hbig a[sigma[searchLeft a sigma v]] (List.getElem_mem hinr)
    simp only [hplt, List.getElem?_eq_getElem, Option.getD_some, hinr] at h1
    grind
  induction b with
  | nil => simp at hv
  | cons w ws ih =>
    simp only [mapIndex]
    rcases List.mem_cons.1 hv with e | hmem
    · subst e; simp [hpos]
    · cases h1 : sigma[searchLeft a sigma w]? with
      | none => rfl
      | some i => simp [ih hmem]

/-! ### non-vacuity -/

section Examples

/-- boxes: `near j i` iff `|j - i| ≤ 1` (indices as coordinates) -/
private def nearEx (j i : Nat) : Bool := decide (j ≤ i + 1) && decide (i ≤ j + 1)
/-- `rank_corners` over `x = index` -/
private def scoreEx : List Nat → List Rat := rankCorners (fun a b => (a : Int) - (b : Int))

/- one round on `[2,3,4,8]`: 2,3,4 share boxes; neighbourhood of 2 is `[2,3]` with ranks `[2,1]` → 2 survives,
of 3 is `[2,3,4]` ranks `[2,1,1]` → 2 ≠ 3 dropped, of 4 is `[3,4]` ranks `[3,1]` → dropped, 8 is alone. -/
example : refineRound nearEx scoreEx [2, 3, 4, 8] = [2, 8] := by decide +kernel
/- the loop on the same list: two rounds (one that drops, one that confirms) -/
example : refineLoop nearEx scoreEx 5 0 [2, 3, 4, 8] = some ([2, 8], 2, [[2, 3, 4, 8], [2, 8]]) := by
  decide +kernel
/- a run with THREE rounds over coordinates `x = 0,7,12,15,17`, `y = 1,5,2,2,7`, `x_step = 10`, `y_step = 3`
(exact differences): `[1,2,3,4] → [1,4] → [4]`; the bound `rounds + len(result) ≤ len(candidates) + 1` is attained
by neither this (3 + 1 ≤ 5) nor any run that drops two candidates in one round. -/
private def xsEx : List Rat := [0, 7, 12, 15, 17]
private def ysEx : List Rat := [1, 5, 2, 2, 7]
private def nearEx2 : Nat → Nat → Bool :=
  nearOf (fun a b => xsEx[a]?.getD 0 - xsEx[b]?.getD 0) (fun a b => ysEx[a]?.getD 0 - ysEx[b]?.getD 0) 10 3
private def scoreEx2 : List Nat → List Rat := rankCorners (fun a b => xsEx[a]?.getD 0 - xsEx[b]?.getD 0)
example : refineLoop nearEx2 scoreEx2 5 0 [1, 2, 3, 4] = some ([4], 3, [[1, 2, 3, 4], [1, 4], [4]]) := by
  decide +kernel
/- the bound is attained: one candidate dropped per round -/
example : refineLoop nearEx2 scoreEx2 3 0 [1, 4] = some ([4], 2, [[1, 4], [4]]) := by decide +kernel
/- the whole function: thresholded values `v`, `z = 1`, heights decreasing except index 5 -/
example : knees2 [0, 2, 3, 0, 1, 5, 1, 0, 4] 1 9
    (fun k => ([9, 8, 7, 6, 5, 6, 4, 3, 2] : List Rat)[k]?.getD 0)
    (fun k => if k = 6 then 1/2 else 1/10) (3/10) nearEx scoreEx =
    some ⟨[1, 2, 4, 5, 6, 8], [1, 2, 4, 6, 8], [1, 2, 4, 8], [1, 4, 8], 2, [[1, 2, 4, 8], [1, 4, 8]]⟩ := by
  decide +kernel
/- "Ups" with a non-reflexive box test: everybody is dropped -/
example : refineLoop (fun _ _ => false) scoreEx 3 0 [1, 2] = some ([], 2, [[1, 2], []]) := by decide +kernel
/- `np.array_equal` -/
example : arrayEqual [1, 2] [1, 2, 3] = false ∧ arrayEqual [] [] = true ∧ arrayEqual [1, 3] [1, 2] = false := by
  decide
/- `map_index`: `a = [5, 1, 3]`, `argsort = [1, 2, 0]`; 3 ↦ 2, 5 ↦ 0, 1 ↦ 1; 4 ∉ a ↦ index of 5; 6 > max ↦ IndexError -/
example : SortsBy [5, 1, 3] [1, 2, 0] := by
  refine ⟨by decide, ?_⟩
  intro p q hpq hq
  have hq3 : q < 3 := hq
  have hp' : p = 0 ∨ p = 1 ∨ p = 2 := by omega
  have hq' : q = 0 ∨ q = 1 ∨ q = 2 := by omega
  rcases hp' with rfl | rfl | rfl <;> rcases hq' with rfl | rfl | rfl <;>
    first | omega | decide +kernel
example : mapIndex [5, 1, 3] [1, 2, 0] [3, 5, 1, 4] = some [2, 0, 1, 0] := by decide +kernel
example : mapIndex [5, 1, 3] [1, 2, 0] [3, 6] = none := by decide +kernel

end Examples

end Knee

import Knee.Props.C16
import Knee.Model.LMethodQ
/-!
# C16S — best-fit R² equals the squared Pearson correlation

`Props/C16.lean` bounds `corrSqQ` (`0 ≤ r² ≤ 1`) but never ties it to a fit.  Here the
least-squares line `olsQ` is defined (what `np.polyfit(x, y, 1)` returns, in the `(b, m)` order
of `fitQ` so that `lineQ x (olsQ x y)` is `linear_transform(x, *coef)`), and the classic R² of
that line is proved equal to `corrSqQ x y`; the line is also proved to minimise the residual sum
of squares among all lines, and its RSS is the `olsRss` of `Model/LMethodQ.lean`.
-/
namespace Knee

/-! ## 1. Definitions -/

/-- `Σ (x_i − x̄)²` (the same expression as `tssQ`) -/
def sxxQ (x : List Rat) : Rat := (x.map fun a => (a - meanQ x) * (a - meanQ x)).sum

/-- `Σ (x_i − x̄)(y_i − ȳ)` -/
def sxyQ (x y : List Rat) : Rat :=
  (List.zipWith (fun a b => (a - meanQ x) * (b - meanQ y)) x y).sum

/-- the least-squares line as `(intercept, slope)` = `(ȳ − m·x̄, m)` with `m = Sxy / Sxx`
(same component order as `fitQ`, the order `lineQ` expects) -/
def olsQ (x y : List Rat) : Rat × Rat :=
  let m := sxyQ x y / sxxQ x
  (meanQ y - m * meanQ x, m)

/-! ## 2. Algebra of sums -/

/-- `metrics.r2`'s total sum of squares of `y` is `Syy` (same expression) -/
theorem tssQ_eq_sxxQ (y : List Rat) : tssQ y = sxxQ y := rfl

/-- `corrSqQ` in terms of the three moments -/
theorem corrSqQ_eq (x y : List Rat) :
    corrSqQ x y = sxyQ x y * sxyQ x y / (sxxQ x * sxxQ y) := rfl

/-- `Sxx ≥ 0` (a sum of squares) -/
theorem sxxQ_nonneg (x : List Rat) : 0 ≤ sxxQ x :=
  map_sum_nonneg _ (fun _ => mul_self_nonneg _) x

/-- Cauchy–Schwarz: `Sxy² ≤ Sxx · Syy` (no length hypothesis: `zipWith` truncates) -/
theorem sxy_sq_le (x y : List Rat) : sxyQ x y * sxyQ x y ≤ sxxQ x * sxxQ y := by
  have hcs := cauchy_schwarz_list (x.map fun a => a - meanQ x) (y.map fun b => b - meanQ y)
  simp only [List.zipWith_map, List.map_map, Function.comp_def] at hcs
  exact hcs

/-- constant `x` (`Sxx = 0`) has zero covariance with anything — so `np.polyfit`'s slope `0/0` is harmless in the model -/
theorem sxy_zero_of_sxx_zero (x y : List Rat) (h : sxxQ x = 0) : sxyQ x y = 0 := by
  have h1 := sxy_sq_le x y
  rw [h, zero_mul] at h1
  have h2 := mul_self_nonneg (sxyQ x y)
  exact mul_self_eq_zero.mp (le_antisymm h1 h2)

/-- helper: `np.sum(v - c) = np.sum(v) - len(v) * c` -/
theorem sum_map_sub_const (c : Rat) : ∀ l : List Rat,
    (l.map fun a => a - c).sum = l.sum - (l.length : Rat) * c
  | [] => by simp
  | a :: l => by
    simp only [List.map_cons, List.sum_cons, sum_map_sub_const c l, List.length_cons]
    push_cast; ring

/-- deviations from the mean sum to zero -/
theorem sum_centered (l : List Rat) : (l.map fun a => a - meanQ l).sum = 0 := by
  rw [sum_map_sub_const]
  unfold meanQ
  cases l with
  | nil => simp
  | cons a t =>
    have : ((List.length (a :: t) : Nat) : Rat) ≠ 0 := by
      simp only [List.length_cons]; exact_mod_cast Nat.succ_ne_zero t.length
    field_simp
    ring

/-- the RSS of an arbitrary line `v ↦ v·m + c`, expanded around arbitrary centres `mx`, `my`
(`d = my − m·mx − c` is the line's miss of the centre) -/
theorem rss_line_expand (mx my m c : Rat) : ∀ x y : List Rat, x.length = y.length →
    (List.zipWith (fun a b => (a - (b * m + c)) * (a - (b * m + c))) y x).sum
      = (y.map fun b => (b - my) * (b - my)).sum
        - 2 * m * (List.zipWith (fun a b => (a - mx) * (b - my)) x y).sum
        + m * m * (x.map fun a => (a - mx) * (a - mx)).sum
        + 2 * (my - m * mx - c) * ((y.map fun b => b - my).sum - m * (x.map fun a => a - mx).sum)
        + (x.length : Rat) * ((my - m * mx - c) * (my - m * mx - c))
  | [], [], _ => by simp
  | [], _ :: _, h => by simp at h
  | _ :: _, [], h => by simp at h
  | a :: x, b :: y, h => by
    have hl : x.length = y.length := by simpa using h
    simp only [List.zipWith_cons_cons, List.map_cons, List.sum_cons, List.length_cons,
      rss_line_expand mx my m c x y hl]
    push_cast; ring

/-- the RSS of any line against `y`, through the centred moments of the data -/
theorem rss_line_eq (x y : List Rat) (hlen : x.length = y.length) (b m : Rat) :
    rssQ y (lineQ x (b, m))
      = sxxQ y - 2 * m * sxyQ x y + m * m * sxxQ x
        + (x.length : Rat) * ((meanQ y - m * meanQ x - b) * (meanQ y - m * meanQ x - b)) := by
  unfold rssQ lineQ
  rw [List.zipWith_map_right]
  simp only
  rw [rss_line_expand (meanQ x) (meanQ y) m b x y hlen, sum_centered, sum_centered]
  unfold sxxQ sxyQ
  ring

/-- the RSS of the least-squares line -/
theorem rss_ols_eq (x y : List Rat) (hlen : x.length = y.length) :
    rssQ y (lineQ x (olsQ x y))
      = sxxQ y - 2 * (sxyQ x y / sxxQ x) * sxyQ x y
        + (sxyQ x y / sxxQ x) * (sxyQ x y / sxxQ x) * sxxQ x := by
  unfold olsQ
  simp only
  rw [rss_line_eq x y hlen]
  ring

/-! ## 3. Main results -/

/-- **C16S — residual of the best fit.** With `Sxx ≠ 0` the least-squares line leaves
`RSS = Syy − Sxy² / Sxx` (the value `np.polyfit(..., full=True)` reports as residual). -/
theorem rss_ols_formula (x y : List Rat) (hlen : x.length = y.length) (hxx : sxxQ x ≠ 0) :
    rssQ y (lineQ x (olsQ x y)) = sxxQ y - sxyQ x y * sxyQ x y / sxxQ x := by
  rw [rss_ols_eq x y hlen]
  field_simp
  ring

/-- **C16S — best-fit R² = r².** For equal-length samples with non-constant `y` (`Syy ≠ 0`),
`metrics.r2(y, m·x + b)` for the least-squares line `(b, m)` is exactly the squared Pearson
correlation `corrSqQ x y` — which is what the code's best-fit R² shortcut returns.
This is stronger than asked: `n ≥ 2` follows from `Syy ≠ 0`, and `Sxx ≠ 0` is NOT needed
(for constant `x` both sides are `0`: slope `0/0 = 0`, RSS = Syy, and `Sxy²/(0·Syy) = 0`). -/
theorem r2_ols_eq_corrSq (x y : List Rat) (hlen : x.length = y.length) (hyy : sxxQ y ≠ 0) :
    r2Q y (lineQ x (olsQ x y)) = corrSqQ x y := by
  unfold r2Q
  rw [tssQ_eq_sxxQ, if_neg hyy, corrSqQ_eq, rss_ols_eq x y hlen]
  by_cases hxx : sxxQ x = 0
  · rw [sxy_zero_of_sxx_zero x y hxx, hxx]
    simp [hyy]
  · field_simp
    ring

/-- the statement exactly as posed (`n ≥ 2`, `Sxx ≠ 0`, `Syy ≠ 0`) -/
theorem r2_ols_eq_corrSq' (x y : List Rat) (n : Nat) (_hn : 2 ≤ n) (hx : x.length = n)
    (hy : y.length = n) (_hxx : sxxQ x ≠ 0) (hyy : sxxQ y ≠ 0) :
    r2Q y (lineQ x (olsQ x y)) = corrSqQ x y :=
  r2_ols_eq_corrSq x y (hx.trans hy.symm) hyy

/-- **C16S — least squares.** The line `olsQ x y` minimises the residual sum of squares among
ALL lines `(b, m)`, for any equal-length samples (constant `x` included: then every slope is
equally good and `olsQ` picks slope 0 through the mean). -/
theorem ols_minimises_rss (x y : List Rat) (hlen : x.length = y.length) (b m : Rat) :
    rssQ y (lineQ x (olsQ x y)) ≤ rssQ y (lineQ x (b, m)) := by
  rw [rss_ols_eq x y hlen, rss_line_eq x y hlen b m]
  have hn : (0 : Rat) ≤ (x.length : Rat) * ((meanQ y - m * meanQ x - b) * (meanQ y - m * meanQ x - b)) :=
    mul_nonneg (Nat.cast_nonneg _) (mul_self_nonneg _)
  by_cases hxx : sxxQ x = 0
  · rw [sxy_zero_of_sxx_zero x y hxx, hxx]
    simp only [zero_div, mul_zero, sub_zero, add_zero]
    linarith
  · have hpos : 0 ≤ sxxQ x := sxxQ_nonneg x
    have hsq : 0 ≤ sxxQ x * ((m - sxyQ x y / sxxQ x) * (m - sxyQ x y / sxxQ x)) :=
      mul_nonneg hpos (mul_self_nonneg _)
    have hm : sxyQ x y / sxxQ x * sxxQ x = sxyQ x y := div_mul_cancel₀ _ hxx
    have key : sxxQ x * ((m - sxyQ x y / sxxQ x) * (m - sxyQ x y / sxxQ x))
        = (- 2 * m * sxyQ x y + m * m * sxxQ x)
          - (- 2 * (sxyQ x y / sxxQ x) * sxyQ x y
              + sxyQ x y / sxxQ x * (sxyQ x y / sxxQ x) * sxxQ x) := by
      have e : sxyQ x y = sxyQ x y / sxxQ x * sxxQ x := hm.symm
      generalize sxyQ x y / sxxQ x = q at e ⊢
      rw [e]; ring
    linarith

/-- the RSS of `olsQ` is the `olsRss` of `Model/LMethodQ.lean` (the L-method's best-fit residual):
the two models of `np.polyfit` agree (no length hypothesis needed) -/
theorem rss_ols_eq_olsRss (x y : List Rat) : rssQ y (lineQ x (olsQ x y)) = olsRss x y := by
  unfold rssQ lineQ olsRss olsQ sxyQ sxxQ
  simp only
  rw [List.zipWith_map_right, List.zipWith_comm]
  congr 2
  funext a v
  ring

/-- hence the best-fit R² of the L-method's fit is also `r²` -/
theorem r2_olsRss_eq_corrSq (x y : List Rat) (hlen : x.length = y.length) (hyy : sxxQ y ≠ 0) :
    1 - olsRss x y / tssQ y = corrSqQ x y := by
  rw [← rss_ols_eq_olsRss, ← r2_ols_eq_corrSq x y hlen hyy]
  unfold r2Q
  rw [if_neg (by rw [tssQ_eq_sxxQ]; exact hyy)]

/-! ## Non-vacuity -/

/- hypotheses hold on a non-trivial (non-collinear, non-uniform) sample -/
example : ([0, 1, 3, 4] : List Rat).length = ([1, 5, 7, 6] : List Rat).length
    ∧ sxxQ [0, 1, 3, 4] = 10 ∧ sxxQ [1, 5, 7, 6] = 83 / 4 ∧ sxyQ [0, 1, 3, 4] [1, 5, 7, 6] = 12 := by
  decide +kernel
/- the least-squares line `(b, m) = (47/20, 6/5)` and both sides of `r2_ols_eq_corrSq` -/
example : olsQ [0, 1, 3, 4] [1, 5, 7, 6] = (47 / 20, 6 / 5)
    ∧ r2Q [1, 5, 7, 6] (lineQ [0, 1, 3, 4] (olsQ [0, 1, 3, 4] [1, 5, 7, 6])) = 288 / 415
    ∧ corrSqQ [0, 1, 3, 4] [1, 5, 7, 6] = 288 / 415 := by decide +kernel
/- the end-point line of `fitQ` is a different, worse line: larger RSS, smaller R² -/
example : fitQ [0, 1, 3, 4] [1, 5, 7, 6] = (1, 5 / 4)
    ∧ rssQ [1, 5, 7, 6] (lineQ [0, 1, 3, 4] (olsQ [0, 1, 3, 4] [1, 5, 7, 6])) = 127 / 20
    ∧ rssQ [1, 5, 7, 6] (lineQ [0, 1, 3, 4] (fitQ [0, 1, 3, 4] [1, 5, 7, 6])) = 101 / 8
    ∧ olsRss [0, 1, 3, 4] [1, 5, 7, 6] = 127 / 20 := by decide +kernel
/- `Syy ≠ 0` is not idle: for constant `y` the fit is perfect (`R² = 1`) but `corrSqQ` is `0/0 = 0` -/
example : r2Q [3, 3, 3] (lineQ [0, 1, 2] (olsQ [0, 1, 2] [3, 3, 3])) = 1
    ∧ corrSqQ [0, 1, 2] [3, 3, 3] = 0 := by decide +kernel
/- `Sxx ≠ 0` IS idle: constant `x`, both sides are 0 -/
example : r2Q [1, 5, 3] (lineQ [2, 2, 2] (olsQ [2, 2, 2] [1, 5, 3])) = 0
    ∧ corrSqQ [2, 2, 2] [1, 5, 3] = 0 := by decide +kernel
/- equal lengths are not idle: with a longer `x` the means are taken over different index sets -/
example : r2Q [1, 5, 7] (lineQ [0, 1, 3, 10] (olsQ [0, 1, 3, 10] [1, 5, 7]))
    ≠ corrSqQ [0, 1, 3, 10] [1, 5, 7] := by decide +kernel

end Knee

import Knee.Lemmas.ZMethod
/-!
# C10 — Z-method knee selector: validity, order, separation, termination

Model: `Knee.zLoop`, `Knee.zPoints` (zmethod.getPoints), `Knee.zKnees` (zmethod.knees) in
`Model/ZMethod.lean`.  Exact ℚ; the threshold sequence `zthr` is an oracle.  Helper lemmas
(`removeBand_clear`, `removeBand_removes_self`, `splitGaps_gap`, `splitGaps_flatten`,
`argminY_mem`, `tryOutliers_sep`, `zRound_sep`, `zRound_outl_from_pts`, …) and the definitions
of the invariants `Sep` / `Clear` are in `Lemmas/ZMethod.lean`.
-/
namespace Knee

/-! ## 1. final sweep -/

/-- the final sweep only deletes points -/
theorem sweep_sublist (m : Rat) (l : List (Rat × Rat)) : (sweep m l).Sublist l := by
  induction l generalizing m with
  | nil => simp [sweep]
  | cons p ps ih =>
    simp only [sweep]
    split
    · exact (ih m).cons _
    · exact (ih p.2).cons_cons _

/-- every point kept by the sweep is not higher than the starting minimum -/
theorem sweep_le (m : Rat) (l : List (Rat × Rat)) : ∀ p ∈ sweep m l, p.2 ≤ m := by
  induction l generalizing m with
  | nil => simp [sweep]
  | cons p ps ih =>
    simp only [sweep]
    split
    · exact ih m
    · intro q hq
      rcases List.mem_cons.1 hq with rfl | hq
      · grind
      · have := ih p.2 q hq; grind

/-- **C10 (sweep).** After the sweep the heights are non-increasing from left to right. -/
theorem sweep_heights (m : Rat) (l : List (Rat × Rat)) :
    (sweep m l).Pairwise (fun a b => b.2 ≤ a.2) := by
  induction l generalizing m with
  | nil => simp [sweep]
  | cons p ps ih =>
    simp only [sweep]
    split
    · exact ih m
    · exact List.pairwise_cons.2 ⟨fun q hq => sweep_le p.2 ps q hq, ih p.2⟩

/-! ## 2. the x-keyed dictionary -/

/-- `sortByX` returns strictly increasing x (distinct keys, ascending) -/
theorem sortByX_sorted (l : List (Rat × Rat)) :
    (sortByX l).Pairwise (fun a b => a.1 < b.1) :=
  foldl_insertByX_sorted l [] List.Pairwise.nil

/-- the keys of the dictionary are exactly the x values that were inserted -/
theorem mem_sortByX_fst (l : List (Rat × Rat)) (x : Rat) :
    x ∈ (sortByX l).map (·.1) ↔ x ∈ l.map (·.1) := by
  simpa [sortByX] using foldl_insertByX_fst l [] x

/-- every `(x, y)` entry of the dictionary is one of the inserted points -/
theorem sortByX_subset (l : List (Rat × Rat)) : ∀ p ∈ sortByX l, p ∈ l := by
  intro p hp
  rcases foldl_insertByX_mem l [] p hp with h | h
  · cases h
  · exact h

/-! ## 3. selected points are input points -/

/-- **C10 (provenance).** Every outlier returned by the loop is the `(x, y)` of an input point. -/
theorem zLoop_outl_from_pts (w h : Rat) (zthr : Nat → Rat) (minz : Rat) (fuel k : Nat)
    (pts : List P3) (outl : List (Rat × Rat))
    (hres : zLoop w h zthr minz fuel k pts [] = some outl) :
    ∀ o ∈ outl, ∃ p ∈ pts, o = (p.1, p.2.1) :=
  zLoop_outl_from_pts_aux w h zthr minz pts fuel k pts [] outl (List.Sublist.refl _)
    (by simp) hres

/-! ## 4. validity and order of the result -/

/-- **C10 (order).** `getPoints` returns strictly increasing x values. -/
theorem zPoints_sorted {xs ys zs : List Rat} {w h ymin : Rat} {zthr : Nat → Rat} {fuel : Nat}
    {sel : List Rat} (hsel : zPoints xs ys zs w h ymin zthr fuel = some sel) :
    sel.Pairwise (· < ·) := by
  rcases zPoints_cases hsel with rfl | ⟨outl, -, rfl⟩
  · exact List.Pairwise.nil
  · rw [List.pairwise_map]
    exact (sortByX_sorted outl).sublist (sweep_sublist 1 _)

/-- **C10 (validity).** Every x returned by `getPoints` is an x of the input curve.
(No length hypothesis is needed: `zip` truncates.) -/
theorem zPoints_subset {xs ys zs : List Rat} {w h ymin : Rat} {zthr : Nat → Rat} {fuel : Nat}
    {sel : List Rat} (hsel : zPoints xs ys zs w h ymin zthr fuel = some sel) :
    ∀ x ∈ sel, x ∈ xs := by
  rcases zPoints_cases hsel with rfl | ⟨outl, hl, rfl⟩
  · simp
  · intro x hx
    obtain ⟨p, hp, rfl⟩ := List.mem_map.1 hx
    have hp := sortByX_subset outl p ((sweep_sublist 1 _).subset hp)
    obtain ⟨q, hq, rfl⟩ := zLoop_outl_from_pts _ _ _ _ _ _ _ _ hl p hp
    exact (List.of_mem_zip (a := q.1) (b := q.2) hq).1

/-- **C10 (validity).** Every knee index is a valid index of the curve. -/
theorem zKnees_valid {xs ys zs : List Rat} {w h ymin : Rat} {zthr : Nat → Rat} {fuel : Nat}
    {ks : List Nat} (hks : zKnees xs ys zs w h ymin zthr fuel = some ks) :
    ∀ k ∈ ks, k < xs.length := by
  simp only [zKnees, Option.map_eq_some_iff] at hks
  obtain ⟨sel, hsel, rfl⟩ := hks
  intro k hk
  obtain ⟨x, hx, rfl⟩ := List.mem_map.1 hk
  exact List.idxOf_lt_length_of_mem (zPoints_subset hsel x hx)

/-- **C10 (order).** For a strictly increasing `xs` the knee indices are strictly increasing
(in particular distinct), and `xs[k]` is the selected x. -/
theorem zKnees_strict {xs ys zs : List Rat} {w h ymin : Rat} {zthr : Nat → Rat} {fuel : Nat}
    {ks : List Nat} (hx : xs.Pairwise (· < ·))
    (hks : zKnees xs ys zs w h ymin zthr fuel = some ks) : ks.Pairwise (· < ·) := by
  simp only [zKnees, Option.map_eq_some_iff] at hks
  obtain ⟨sel, hsel, rfl⟩ := hks
  rw [List.pairwise_map]
  refine (zPoints_sorted hsel).imp_of_mem ?_
  intro a b ha hb hab
  exact idxOf_lt_of_lt hx (zPoints_subset hsel a ha) (zPoints_subset hsel b hb) hab

/-- the knee indices point at the selected x values -/
theorem zKnees_getElem {xs ys zs : List Rat} {w h ymin : Rat} {zthr : Nat → Rat} {fuel : Nat}
    {sel : List Rat} (hsel : zPoints xs ys zs w h ymin zthr fuel = some sel) :
    ∀ x ∈ sel, xs[xs.idxOf x]? = some x := by
  intro x hx
  have hlt := List.idxOf_lt_length_of_mem (zPoints_subset hsel x hx)
  rw [List.getElem?_eq_getElem hlt, List.getElem_idxOf hlt]

/-! ## 5. separation -/

/-- single-group step: trying the one candidate `b` of the working set preserves `Sep` and
`Clear` (x-separation of `b` from the old outliers comes from `Clear`, y-separation from `yOk`) -/
theorem tryOutliers_single_sep {w h : Rat} (b : P3) (pts : List P3) (outl : List (Rat × Rat))
    (hsep : Sep w h outl) (hclear : Clear w h outl pts) (hb : b ∈ pts) :
    Sep w h (tryOutliers w h [b] pts outl 0).2.1 ∧
      Clear w h (tryOutliers w h [b] pts outl 0).2.1 (tryOutliers w h [b] pts outl 0).1 := by
  refine tryOutliers_sep [b] pts outl 0 hsep hclear ?_ (by simp)
  intro c hc o ho
  simp only [List.mem_singleton] at hc
  subst hc
  exact le_rabs_of_clear (hclear o ho c hb).1

/-- **C10 (separation invariant).** For a working set with strictly increasing x, the outliers
returned by the loop are pairwise at least `w` apart in x and at least `h` apart in y.
(Single- and multi-group rounds; no sign condition on `w`, `h` is needed.) -/
theorem zLoop_sep {w h : Rat} (zthr : Nat → Rat) (minz : Rat) (fuel k : Nat) (pts : List P3)
    (outl : List (Rat × Rat)) (hres : zLoop w h zthr minz fuel k pts [] = some outl)
    (hpts : pts.Pairwise (fun a b => a.1 < b.1)) : Sep w h outl :=
  zLoop_sep_aux zthr minz fuel k pts [] outl hpts List.Pairwise.nil
    (fun _ ho => by cases ho) hres

/-- **C10 (separation, final list).** In the swept, x-sorted list of selected points, from left
to right x increases by at least `w` and the height drops by at least `h` at every step
(hence between any two entries). -/
theorem zLoop_final_separated {w h : Rat} (zthr : Nat → Rat) (minz : Rat) (fuel k : Nat)
    (pts : List P3) (outl : List (Rat × Rat))
    (hres : zLoop w h zthr minz fuel k pts [] = some outl)
    (hpts : pts.Pairwise (fun a b => a.1 < b.1)) :
    (sweep 1 (sortByX outl)).Pairwise (fun a b => w ≤ b.1 - a.1 ∧ h ≤ a.2 - b.2) := by
  have hsep := zLoop_sep zthr minz fuel k pts outl hres hpts
  have h1 : (sweep 1 (sortByX outl)).Pairwise (fun a b => a.1 < b.1) :=
    (sortByX_sorted outl).sublist (sweep_sublist 1 _)
  have h2 := sweep_heights 1 (sortByX outl)
  refine (h1.and h2).imp_of_mem ?_
  intro a b ha hb hab
  have ha' := sortByX_subset outl a ((sweep_sublist 1 _).subset ha)
  have hb' := sortByX_subset outl b ((sweep_sublist 1 _).subset hb)
  have hne : a ≠ b := by rintro rfl; grind
  have := hsep.symm_of_mem ha' hb' hne
  unfold rabs at this
  constructor
  · have := this.1; split at this <;> grind
  · have := this.2; split at this <;> grind

/-- y-part on the swept pair list: any two distinct reported points differ by at least `w` in x
and by at least `h` in height. -/
theorem zLoop_final_separated_abs {w h : Rat} (zthr : Nat → Rat) (minz : Rat) (fuel k : Nat)
    (pts : List P3) (outl : List (Rat × Rat))
    (hres : zLoop w h zthr minz fuel k pts [] = some outl)
    (hpts : pts.Pairwise (fun a b => a.1 < b.1)) :
    ∀ p ∈ sweep 1 (sortByX outl), ∀ q ∈ sweep 1 (sortByX outl), p ≠ q →
      w ≤ rabs (p.1 - q.1) ∧ h ≤ rabs (p.2 - q.2) := by
  intro p hp q hq hne
  exact (zLoop_sep zthr minz fuel k pts outl hres hpts).symm_of_mem
    (sortByX_subset outl p ((sweep_sublist 1 _).subset hp))
    (sortByX_subset outl q ((sweep_sublist 1 _).subset hq)) hne

/-- **C10 (separation of the result).** For a strictly increasing `xs`, consecutive (hence any
two) x values returned by `getPoints` are at least `w` apart. -/
theorem zPoints_gap {xs ys zs : List Rat} {w h ymin : Rat} {zthr : Nat → Rat} {fuel : Nat}
    {sel : List Rat} (hx : xs.Pairwise (· < ·))
    (hsel : zPoints xs ys zs w h ymin zthr fuel = some sel) :
    sel.Pairwise (fun a b => w ≤ b - a) := by
  rcases zPoints_cases hsel with rfl | ⟨outl, hl, rfl⟩
  · exact List.Pairwise.nil
  · rw [List.pairwise_map]
    exact (zLoop_final_separated zthr _ fuel 0 _ outl hl (zip_pairwise_fst xs _ hx)).imp
      (fun h => h.1)

/-- x-part in absolute-value form -/
theorem zPoints_separated {xs ys zs : List Rat} {w h ymin : Rat} {zthr : Nat → Rat} {fuel : Nat}
    {sel : List Rat} (hx : xs.Pairwise (· < ·))
    (hsel : zPoints xs ys zs w h ymin zthr fuel = some sel) :
    ∀ a ∈ sel, ∀ b ∈ sel, a ≠ b → w ≤ rabs (a - b) := by
  rcases zPoints_cases hsel with rfl | ⟨outl, hl, rfl⟩
  · simp
  · intro a ha b hb hne
    obtain ⟨p, hp, rfl⟩ := List.mem_map.1 ha
    obtain ⟨q, hq, rfl⟩ := List.mem_map.1 hb
    have hpq : p ≠ q := by rintro rfl; exact hne rfl
    exact (zLoop_final_separated_abs zthr _ fuel 0 _ outl hl (zip_pairwise_fst xs _ hx)
      p hp q hq hpq).1

/-! ## 6. termination -/

/-- **C10 (termination).** If the threshold sequence is at or below the minimal z from round `K`
on and `w > 0`, the loop returns within `K + |pts| + 2` rounds: after round `K` every round
either stops or selects an outlier and thereby removes at least that outlier's own point. -/
theorem zLoop_total {w h : Rat} (hw : 0 < w) (zthr : Nat → Rat) (minz : Rat) (K : Nat)
    (hK : ∀ k, K ≤ k → zthr k ≤ minz) (pts : List P3) (fuel : Nat)
    (hfuel : K + pts.length + 2 ≤ fuel) :
    ∃ outl, zLoop w h zthr minz fuel 0 pts [] = some outl :=
  zLoop_total_aux hw zthr minz K hK fuel 0 pts [] (by omega)

/-- `knees` returns a result for every fuel `≥ K + |xs| + 2` -/
theorem zKnees_total {xs ys zs : List Rat} {w h ymin : Rat} (hw : 0 < w) (zthr : Nat → Rat)
    (K : Nat) (hK : ∀ k, K ≤ k → zthr k ≤ minZ (xs.zip (ys.zip zs))) (fuel : Nat)
    (hfuel : K + xs.length + 2 ≤ fuel) :
    ∃ ks, zKnees xs ys zs w h ymin zthr fuel = some ks := by
  have hlen : (xs.zip (ys.zip zs)).length ≤ xs.length := by
    rw [List.length_zip]; omega
  obtain ⟨outl, ho⟩ := zLoop_total (h := h) hw zthr _ K hK (xs.zip (ys.zip zs)) fuel (by omega)
  unfold zKnees zPoints
  split
  · exact ⟨_, rfl⟩
  · split
    · exact ⟨_, rfl⟩
    · simp only [ho]; exact ⟨_, rfl⟩

/-! Non-vacuity: a concrete step curve (8 points, two z-outliers `≥ 3` at x = 2 and x = 5, which
fall into two gap-groups in round 0, i.e. the multi-group branch) satisfies every hypothesis, and
the model computes knees on it. -/
private def exs : List Rat := [0, 1, 2, 3, 4, 5, 6, 7]
private def eys : List Rat := [1, 7/8, 3/4, 1/4, 1/4, 1/8, 0, 0]
private def ezs : List Rat := [0, 1, 7/2, 0, 1/2, 3, -1, 0]
private def ethr (k : Nat) : Rat := 3 - (k : Rat) / 2

example : zKnees exs eys ezs 1 (1/8) 0 ethr 18 = some [0, 1, 2, 4, 5, 7] := by decide +kernel
example : zKnees exs eys ezs 2 (1/4) 0 ethr 18 = some [0, 2, 5] := by decide +kernel
example : zKnees exs eys ezs 1 (1/8) 0 ethr 6 = none := by decide +kernel
example : exs.Pairwise (· < ·) ∧ exs.length = eys.length ∧ eys.length = ezs.length
    ∧ (0 : Rat) < 1 ∧ (0 : Rat) ≤ 1/8 := by decide +kernel
/-- round 0 is a multi-group round that selects both z-outliers -/
example : (splitGaps 1 ((exs.zip (eys.zip ezs)).filter fun p => decide (ethr 0 ≤ p.2.2))).length = 2
    ∧ (zRound 1 (1/8) (ethr 0) (exs.zip (eys.zip ezs)) []).2 = ([(2, 3/4), (5, 1/8)], 2) := by
  decide +kernel
example : zLoop 2 (1/4) ethr (-1) 18 0 (exs.zip (eys.zip ezs)) []
    = some [(2, 3/4), (5, 1/8), (0, 1)] := by decide +kernel
/-- the termination hypothesis holds with `K = 8`, and `18 = 8 + 8 + 2` -/
example : ∃ ks, zKnees exs eys ezs 1 (1/8) 0 ethr 18 = some ks := by
  refine zKnees_total (by decide +kernel) ethr 8 ?_ 18 (by decide)
  intro k hk
  have h8 : (8 : Rat) ≤ (k : Rat) := by exact_mod_cast hk
  have hm : minZ (exs.zip (eys.zip ezs)) = -1 := by decide +kernel
  rw [hm]; unfold ethr; grind

end Knee

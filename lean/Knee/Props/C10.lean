import Knee.Model.ZMethod
namespace Knee
theorem stub_C10 : True := trivial
end Knee

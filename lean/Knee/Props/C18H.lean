import Knee.Lemmas.GrahamDeg
import Knee.Props.C18
/-!
# C18H — `graham_scan` on arbitrary sets of at least three distinct points

Model: `Knee.grahamScan` (convex_hull.graham_scan): pivot = lexicographically smallest point, the
other points sorted by `_compare_points` (clockwise first; collinear with the pivot: nearer first),
the first three of `p0 :: sorted` pushed unconditionally, then
`while len(stack) > 1 and ccw(stack[-2], stack[-1], p) >= 0: pop`.  Orientation signs are exact in ℚ.

Hypotheses: only `pts.Nodup` and `3 ≤ pts.length` — collinear triples, several points on one ray
from the pivot and even all points on one line are allowed (C18G needs general position).
With `H := grahamScan pts`, `C := H ++ [H[0]]` and `P k := pts[k]?.getD (0, 0)`:
* `grahamScanD_supports_cyclic`: every input point lies on or to the right of every directed edge
  of the closed output polygon `C` (so the polygon contains all input points);
* `grahamScanD_head`, `grahamScanD_length`: the output starts at the pivot; it has at least two
  vertices, and at least three unless all input points are on one line;
* `grahamScanD_boundary_only`: every output vertex has a supporting line of the input through it,
  i.e. is a boundary point of the convex hull (never an interior point);
* `grahamScanD_extreme_included`: every extreme vertex (strict unique maximiser of a linear
  functional over the input) is output.
Together: "for every set of at least 3 distinct planar points, graham_scan returns indices that
include every extreme vertex and only boundary points of the convex hull".  Boundary points that
are not vertices CAN be output (the second of exactly two points on the first ray, see the
examples), so the output is in general not the exact vertex set; it is in general position (C18G).

Proof: `grahamScan pts` is the counter-clockwise chain scan started from the stack `[2, 1, 0]`
(`hullD`) on the x-axis reflection of `p0 :: sorted` (`GrahamSeqD.eq`); that sequence is weakly
sorted by angle about the pivot, ties being points on one ray in order of distance
(`GrahamSeqD.hw`, `GrahamSeqD.hray`); the support invariant of C18G survives with the degenerate
configurations handled separately (`pop_step_d`, `new_edge_before_d`, `above_of_top_d`), and a
popped vertex is a convex combination of the pivot, the vertex below it and the new point
(`pop_notExt`).
-/
namespace Knee

section ScanD
variable (pts : List P2) (hnd : pts.Nodup) (h3 : 3 ≤ pts.length)
include hnd h3

/-- **C18H (pivot first).** For every list of ≥ 3 distinct points `graham_scan` returns a list
starting with the index of the lexicographically smallest input point. -/
theorem grahamScanD_head :
    ∃ i0, (grahamScan pts).head? = some i0 ∧ i0 < pts.length ∧
      ∀ k, k < pts.length → LexLe (pts[i0]?.getD (0, 0)) (pts[k]?.getD (0, 0)) := by
  obtain ⟨L, hs⟩ := grahamScan_struct_d pts hnd h3
  have hL := hs.length_eq
  have h0 := hs.gAt_spec (k := 0) (by omega)
  refine ⟨(gAt L 0).2, ?_, h0.1, ?_⟩
  · rw [hs.eq, List.head?_map, (hullD_indices hs.hw hs.hray (by omega)).2.1]
    rfl
  · intro k hk
    rw [h0.2]
    exact hs.lexmin (pts[k]?.getD (0, 0), k) (mem_ip.2 ⟨hk, rfl⟩)

/-- **C18H (support).** Every input point lies on or to the right of every directed output edge. -/
theorem grahamScanD_supports :
    let H := grahamScan pts
    let P := fun k => pts[k]?.getD (0, 0)
    ∀ k, k < pts.length → ∀ i, i + 1 < H.length →
      ccw (P (H[i]?.getD 0)) (P (H[i + 1]?.getD 0)) (P k) ≤ 0 := by
  intro H P k hk i hi
  simp only [H, P] at hi ⊢
  obtain ⟨L, hs⟩ := grahamScan_struct_d pts hnd h3
  have h3' : 3 ≤ L.length := by rw [hs.length_eq]; omega
  have hi' : i + 1 < (hullD (gPt L) L.length).length := by rw [← hs.length_scan]; exact hi
  obtain ⟨k', hk', e⟩ := hs.exists_pos hk
  have := hullD_supports hs.hw hs.hray h3' k' hk' i hi'
  rw [ccw_gPt, e] at this
  rw [hs.point h3' (by omega : i < (grahamScan pts).length), hs.point h3' hi]
  simp only at this
  linarith

/-- **C18H (support, closing edge).** Every input point lies on or to the right of the edge from
the last output point back to the pivot. -/
theorem grahamScanD_supports_closing :
    let H := grahamScan pts
    let P := fun k => pts[k]?.getD (0, 0)
    ∀ k, k < pts.length →
      ccw (P (H[H.length - 1]?.getD 0)) (P (H[0]?.getD 0)) (P k) ≤ 0 := by
  intro H P k hk
  simp only [H, P]
  obtain ⟨L, hs⟩ := grahamScan_struct_d pts hnd h3
  have h3' : 3 ≤ L.length := by rw [hs.length_eq]; omega
  have hidx := hullD_indices hs.hw hs.hray h3'
  have hlen : 2 ≤ (grahamScan pts).length := by rw [hs.length_scan]; exact hidx.2.2.2.2
  obtain ⟨k', hk', e⟩ := hs.exists_pos hk
  have := hullD_closing hs.hw k' hk'
  rw [ccw_gPt, e] at this
  have hfirst : (hullD (gPt L) L.length)[0]?.getD 0 = 0 := by
    have := hidx.2.1
    rw [List.head?_eq_getElem?] at this
    rw [this]; rfl
  have hlast : (hullD (gPt L) L.length)[(grahamScan pts).length - 1]?.getD 0 = L.length - 1 := by
    have := hidx.2.2.1
    rw [List.getLast?_eq_getElem?, ← hs.length_scan] at this
    rw [this]; rfl
  rw [hs.point h3' (by omega : (grahamScan pts).length - 1 < (grahamScan pts).length),
    hs.point h3' (by omega : 0 < (grahamScan pts).length), hfirst, hlast]
  simp only at this
  linarith

/-- **C18H (support, closed polygon).** For every list of ≥ 3 distinct points — collinear triples
allowed — every input point lies on or to the right of every directed edge of the closed polygon
`H ++ [H[0]]` through the points returned by `graham_scan`: the output polygon contains the input. -/
theorem grahamScanD_supports_cyclic :
    let H := grahamScan pts
    let C := H ++ [H[0]?.getD 0]
    let P := fun k => pts[k]?.getD (0, 0)
    ∀ k, k < pts.length → ∀ i, i + 1 < C.length →
      ccw (P (C[i]?.getD 0)) (P (C[i + 1]?.getD 0)) (P k) ≤ 0 := by
  intro H C P k hk i hi
  simp only [H, C, P] at hi ⊢
  obtain ⟨e1, ⟨h, e2⟩ | ⟨h, e2⟩⟩ := cycle_getD (grahamScan pts) i hi
  · rw [e1, e2]
    exact grahamScanD_supports pts hnd h3 k hk i h
  · rw [e1, e2]
    have := grahamScanD_supports_closing pts hnd h3 k hk
    simp only [← h, Nat.add_sub_cancel] at this
    exact this

/-- **C18H (size).** The output always has at least two vertices, and at least three when the
input points are not all on one line. -/
theorem grahamScanD_length :
    let P := fun k => pts[k]?.getD (0, 0)
    2 ≤ (grahamScan pts).length ∧
      ((∃ i j k, i < pts.length ∧ j < pts.length ∧ k < pts.length ∧ ccw (P i) (P j) (P k) ≠ 0) →
        3 ≤ (grahamScan pts).length) := by
  intro P
  have h2 : 2 ≤ (grahamScan pts).length := by
    obtain ⟨L, hs⟩ := grahamScan_struct_d pts hnd h3
    rw [hs.length_scan]
    exact (hullD_indices hs.hw hs.hray (by rw [hs.length_eq]; omega)).2.2.2.2
  refine ⟨h2, ?_⟩
  rintro ⟨i, j, k, hi, hj, hk, hne⟩
  by_contra hlen
  have hl : (grahamScan pts).length = 2 := by omega
  have hsound := grahamScan_nodup_bounded pts
  have hC : ∀ i, i < (grahamScan pts).length →
      i + 1 < ((grahamScan pts) ++ [(grahamScan pts)[0]?.getD 0]).length := by
    intro i hi; simpa using hi
  -- both directed edges between the two output points support every input point
  have key : ∀ q, q < pts.length →
      ccw (P ((grahamScan pts)[0]?.getD 0)) (P ((grahamScan pts)[1]?.getD 0)) (P q) = 0 := by
    intro q hq
    have s0 := grahamScanD_supports pts hnd h3 q hq 0 (by omega)
    have s1 := grahamScanD_supports_closing pts hnd h3 q hq
    simp only [hl] at s0 s1
    rw [ccw_flip] at s1
    simp only [P]
    linarith
  have hne01 : P ((grahamScan pts)[0]?.getD 0) ≠ P ((grahamScan pts)[1]?.getD 0) :=
    nodup_getD_ne hnd (hsound.2 _ (getD_mem_nat (by omega))) (hsound.2 _ (getD_mem_nat (by omega)))
      (nodup_getD_ne_nat hsound.1 (by omega) (by omega) (by omega))
  exact hne (collinear3 hne01 (key i hi) (key j hj) (key k hk))

/-- **C18H (boundary points only).** Every index returned by `graham_scan` is a boundary point of
the convex hull of the input: some line through it (normal `d ≠ 0`) has all input points on one
side.  In particular no interior point is ever returned. -/
theorem grahamScanD_boundary_only :
    let P := fun k => pts[k]?.getD (0, 0)
    ∀ k ∈ grahamScan pts, ∃ d : P2, d ≠ (0, 0) ∧
      ∀ j, j < pts.length → d.1 * (P j).1 + d.2 * (P j).2 ≤ d.1 * (P k).1 + d.2 * (P k).2 := by
  intro P k hmem
  obtain ⟨i, hi, e⟩ := List.getElem_of_mem hmem
  have hsound := grahamScan_nodup_bounded pts
  have h2 := (grahamScanD_length pts hnd h3).1
  have hi' : i + 1 < ((grahamScan pts) ++ [(grahamScan pts)[0]?.getD 0]).length := by simpa using hi
  have hk : (grahamScan pts)[i]?.getD 0 = k := by
    rw [List.getElem?_eq_getElem hi, Option.getD_some, e]
  have hsup := grahamScanD_supports_cyclic pts hnd h3
  obtain ⟨e1, hnext⟩ := cycle_getD (grahamScan pts) i hi'
  -- the next vertex of the closed polygon, a different input point
  obtain ⟨m, hm, hmk, hedge⟩ : ∃ m, m < pts.length ∧ m ≠ k ∧
      ∀ j, j < pts.length → ccw (P k) (P m) (P j) ≤ 0 := by
    rcases hnext with ⟨h, e2⟩ | ⟨h, e2⟩
    · refine ⟨(grahamScan pts)[i + 1]?.getD 0, hsound.2 _ (getD_mem_nat h), ?_, ?_⟩
      · rw [← hk]
        exact nodup_getD_ne_nat hsound.1 h hi (by omega)
      · intro j hj
        have := hsup j hj i hi'
        simp only [e1, e2, hk] at this
        exact this
    · have h0 : 0 < (grahamScan pts).length := by omega
      refine ⟨(grahamScan pts)[0]?.getD 0, hsound.2 _ (getD_mem_nat h0), ?_, ?_⟩
      · rw [← hk]
        exact nodup_getD_ne_nat hsound.1 h0 hi (by omega)
      · intro j hj
        have := hsup j hj i hi'
        simp only [e1, e2, hk] at this
        exact this
  have hkl : k < pts.length := hsound.2 k hmem
  have hPne : P m ≠ P k := nodup_getD_ne hnd hm hkl hmk
  refine ⟨(-((P m).2 - (P k).2), (P m).1 - (P k).1), ?_, ?_⟩
  · intro h
    have h1 := congrArg Prod.fst h
    have h2 := congrArg Prod.snd h
    simp only at h1 h2
    exact hPne (Prod.ext (by linarith) (by linarith))
  · intro j hj
    have := hedge j hj
    unfold ccw at this
    simp only
    linarith

/-- **C18H (extreme vertices included).** Every extreme vertex of the input — a point that is the
strict unique maximiser of some linear functional `d` over the input — is returned by
`graham_scan`: it is neither skipped nor popped. -/
theorem grahamScanD_extreme_included :
    let P := fun k => pts[k]?.getD (0, 0)
    ∀ k, k < pts.length →
      (∃ d : P2, ∀ j, j < pts.length → j ≠ k →
        d.1 * (P j).1 + d.2 * (P j).2 < d.1 * (P k).1 + d.2 * (P k).2) →
      k ∈ grahamScan pts := by
  intro P k hk
  rintro ⟨d, hd⟩
  obtain ⟨L, hs⟩ := grahamScan_struct_d pts hnd h3
  have h3' : 3 ≤ L.length := by rw [hs.length_eq]; omega
  obtain ⟨k', hk', e⟩ := hs.exists_pos hk
  rcases hullD_keep hs.hw hs.hray h3' k' hk' with hmem | hne
  · rw [hs.eq]
    refine List.mem_map.2 ⟨k', hmem, ?_⟩
    rw [e]
  · exfalso
    refine hne (d.1, -d.2) ?_
    intro j' hj' hjk
    have hj := hs.gAt_spec hj'
    have hLnd : L.Nodup := hs.perm.nodup_iff.2 (ip_nodup pts)
    have hjne : (gAt L j').2 ≠ k := by
      intro h
      have hmj : gAt L j' ∈ pts.zip (List.range pts.length) := mem_ip.2 hj
      have hmk : gAt L k' ∈ pts.zip (List.range pts.length) := by
        rw [e]; exact mem_ip.2 ⟨hk, rfl⟩
      have heq : gAt L j' = gAt L k' := ip_inj hmj hmk (by rw [h, e])
      simp only [gAt, List.getElem?_eq_getElem hj', List.getElem?_eq_getElem hk',
        Option.getD_some] at heq
      exact hjk ((List.Nodup.getElem_inj_iff hLnd).1 heq)
    have := hd (gAt L j').2 hj.1 hjne
    simp only [P] at this
    rw [hj.2] at this
    simp only [lin, gPt, reflY, e]
    linarith

end ScanD

/-! Non-vacuity on degenerate inputs (none of them is in general position): the hypotheses hold and
the model computes the shown outputs. -/

/-- 3 × 3 integer grid, row by row: the four corners plus the boundary point `(0, 1)` (index 1, the
nearer of exactly two points on the first ray); the centre and the other edge midpoints are dropped -/
private def grid : List P2 := [(0, 0), (0, 1), (0, 2), (1, 0), (1, 1), (1, 2), (2, 0), (2, 1), (2, 2)]

example : grahamScan grid = [0, 1, 2, 8, 6] := by decide +kernel
example : grid.Nodup ∧ 3 ≤ grid.length := by decide +kernel
/-- the same grid in a shuffled order -/
example : grahamScan [(1, 1), (2, 2), (0, 0), (1, 0), (2, 1), (0, 2), (1, 2), (2, 0), (0, 1)] =
    [2, 8, 5, 1, 7] := by decide +kernel
/-- the grid is not in general position -/
example : ¬ GenPos grid := by
  intro h
  exact h 0 1 2 (by decide) (by decide) (by decide) (by decide) (by decide) (by decide)
    (by decide +kernel)

/-- three points beyond the pivot on the first ray (the vertical through the pivot) and three on the
last ray (the diagonal down-right): only the farthest point of each ray survives -/
private def rays : List P2 := [(0, 0), (0, 1), (0, 2), (0, 3), (2, 2), (1, -1), (2, -2), (3, -3), (3, 1)]

example : grahamScan rays = [0, 3, 4, 8, 7] := by decide +kernel
example : rays.Nodup ∧ 3 ≤ rays.length := by decide +kernel
/-- first ray not vertical: three points beyond the pivot on it, three on the last ray -/
example : grahamScan [(0, 0), (1, 3), (2, 6), (3, 9), (4, 4), (1, -1), (2, -2), (3, -3), (5, 1)] =
    [0, 3, 8, 7] := by decide +kernel

/-- five points on one line, shuffled: the output is the two end points (pivot first) -/
private def line5 : List P2 := [(2, 2), (0, 0), (4, 4), (1, 1), (3, 3)]

example : grahamScan line5 = [1, 2] := by decide +kernel
example : line5.Nodup ∧ 3 ≤ line5.length := by decide +kernel
/-- exactly three collinear points: all three are returned (the first three are pushed
unconditionally); the middle one is a boundary point, not a vertex -/
example : grahamScan [(0, 0), (1, 1), (2, 2)] = [0, 1, 2] := by decide +kernel
/-- exactly two points beyond the pivot on the first ray: the nearer one (index 1) is kept although
it is not a vertex — "only boundary points", not "only vertices" -/
example : grahamScan [(0, 0), (0, 1), (0, 2), (1, 0)] = [0, 1, 2, 3] := by decide +kernel

/-- the theorems instantiated on the grid: the centre (index 4) is right of all five edges of the
closed output polygon, strictly -/
example : ∀ i, i < 5 →
    ccw (grid[([0, 1, 2, 8, 6, 0] : List Nat)[i]?.getD 0]?.getD (0, 0))
      (grid[([0, 1, 2, 8, 6, 0] : List Nat)[i + 1]?.getD 0]?.getD (0, 0)) (grid[4]?.getD (0, 0)) < 0 := by
  decide +kernel

end Knee

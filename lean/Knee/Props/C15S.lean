import Knee.Props.C15
/-!
# C15S — the global cost IS the metric against the piecewise-linear interpolant

`Props/C15.lean` treats `gcostQ` / `grmseSq` as definitions (sums of per-segment end-point-line
errors).  Here an INDEPENDENT specification is given: `interpQ xs ys red i` is
`np.interp(x[i], x[red], y[red])`, written without `fitQ` / `lineQ` / `drop` / `take`, and the
model's sums over segments are proved equal to one sum over all points against `interpQ`.
-/
namespace Knee

/-! ## 1. The specification -/

/-- `L[i]` (0 outside the list) -/
def atQ (L : List Rat) (i : Nat) : Rat := L[i]?.getD 0

/-- the chord through the points number `a` and `b`, evaluated at `x_i` -/
def chordQ (xs ys : List Rat) (a b i : Nat) : Rat :=
  atQ ys a + (atQ ys b - atQ ys a) * (atQ xs i - atQ xs a) / (atQ xs b - atQ xs a)

/-- `np.interp(x[i], x[red], y[red])`: the piecewise-linear interpolant through the breakpoints,
at `x_i`.  Left of (or at) the first remaining breakpoint: its ordinate; inside `[a, b)`: the
chord; right of the last breakpoint: its ordinate (numpy's half-open intervals and clamping). -/
def interpQ (xs ys : List Rat) : List Nat → Nat → Rat
  | [], _ => 0
  | [a], _ => atQ ys a
  | a :: b :: t, i =>
    if i ≤ a then atQ ys a else if i < b then chordQ xs ys a b i else interpQ xs ys (b :: t) i

/-- the interpolant sampled at every abscissa of the curve -/
def interpL (xs ys : List Rat) (red : List Nat) : List Rat :=
  (List.range ys.length).map (interpQ xs ys red)

/-- per-point term of each metric (helper: `partialQ` is the sum of these) -/
def termQ : MKind → Rat → Rat → Rat
  | .r2, a, b => (a - b) * (a - b)
  | .rmspe, a, b => ((a - b) / (a + epsM)) * ((a - b) / (a + epsM))
  | .rpd, a, b => rabs ((a - b) / ((if a ≤ b then b else a) + epsM))
  | .smape, a, b => 2 * rabs (b - a) / (rabs a + rabs b + epsM)
  | .rmsle, _, _ => 0

/-- interior breakpoints `red[1:-1]` -/
def innerOf (red : List Nat) : List Nat := (red.drop 1).dropLast

/-! ## 2. Helper lemmas -/

/-- helper: a sum of zeros is zero (the `rmsle` kind has no Layer-N term; `partialQ .rmsle = 0`) -/
theorem zipWith_zero_sum : ∀ y yh : List Rat, (List.zipWith (fun _ _ => (0 : Rat)) y yh).sum = 0
  | [], _ => by simp
  | _ :: _, [] => by simp
  | _ :: y, _ :: yh => by
    simp only [List.zipWith_cons_cons, List.sum_cons, zipWith_zero_sum y yh, add_zero]

/-- the model's partial cost is the sum of the per-point terms -/
theorem partialQ_eq_term (kind : MKind) (y yh : List Rat) :
    partialQ kind y yh = (List.zipWith (termQ kind) y yh).sum := by
  cases kind
  · rfl
  · rfl
  · show (0 : Rat) = _
    exact (zipWith_zero_sum y yh).symm
  · rfl
  · rfl

/-- every metric term vanishes on a perfect prediction -/
theorem termQ_self (kind : MKind) (a : Rat) : termQ kind a a = 0 := by
  cases kind <;> simp [termQ, rabs_zero]

/-- `x[l : r+1]` listed by index -/
theorem slice_eq_map (L : List Rat) (l r : Nat) (hlr : l ≤ r) (hr : r < L.length) :
    (L.drop l).take (r - l + 1) = (List.range' l (r - l + 1)).map (atQ L) := by
  apply List.ext_getElem?
  intro j
  rw [List.getElem?_take, List.getElem?_drop, List.getElem?_map]
  by_cases hj : j < r - l + 1
  · rw [if_pos hj, List.getElem?_range' hj]
    have : l + j < L.length := by omega
    simp [atQ, List.getElem?_eq_getElem this]
  · rw [if_neg hj]
    have : (List.range' l (r - l + 1))[j]? = none := by
      rw [List.getElem?_eq_none_iff]; simp; omega
    rw [this]; rfl

/-- helper: an array is the list of its entries `L[0], …, L[len-1]` (index view of `points[:, 1]`) -/
theorem list_eq_map_atQ (L : List Rat) : L = (List.range L.length).map (atQ L) := by
  apply List.ext_getElem?
  intro j
  rw [List.getElem?_map]
  by_cases hj : j < L.length
  · rw [List.getElem?_range hj]
    simp [atQ, List.getElem?_eq_getElem hj]
  · have h1 : L[j]? = none := by rw [List.getElem?_eq_none_iff]; omega
    have h2 : (List.range L.length)[j]? = none := by
      rw [List.getElem?_eq_none_iff]; simp; omega
    rw [h1, h2]; rfl

/-- the chord starts at the left breakpoint's own ordinate: `np.interp` is exact at `x[a]` (no hypothesis) -/
theorem chordQ_left (xs ys : List Rat) (a b : Nat) : chordQ xs ys a b a = atQ ys a := by
  simp [chordQ]

/-- the chord ends at the right breakpoint's own ordinate as soon as the two abscissae differ -/
theorem chordQ_right (xs ys : List Rat) (a b : Nat) (h : atQ xs a ≠ atQ xs b) :
    chordQ xs ys a b b = atQ ys b := by
  have hd : atQ xs b - atQ xs a ≠ 0 := sub_ne_zero.mpr (Ne.symm h)
  unfold chordQ
  field_simp
  ring

/-- strictly increasing abscissae are distinct -/
theorem atQ_lt_of_pairwise (xs : List Rat) (hx : xs.Pairwise (· < ·)) (a b : Nat) (hab : a < b)
    (hb : b < xs.length) : atQ xs a < atQ xs b := by
  have ha : a < xs.length := by omega
  have := (List.pairwise_iff_getElem.1 hx) a b ha hb hab
  simpa [atQ, List.getElem?_eq_getElem ha, List.getElem?_eq_getElem hb] using this

/-! ### `pairsOf` -/

/-- helper: both ends of every segment `(reduced[i-1], reduced[i])` are breakpoints -/
theorem pairsOf_mem : ∀ (L : List Nat) (p : Nat × Nat), p ∈ pairsOf L → p.1 ∈ L ∧ p.2 ∈ L
  | [], p, h => by simp [pairsOf] at h
  | [_], p, h => by simp [pairsOf] at h
  | a :: b :: t, p, h => by
    simp only [pairsOf, List.mem_cons] at h
    rcases h with rfl | h
    · simp
    · have := pairsOf_mem (b :: t) p h
      exact ⟨List.mem_cons_of_mem _ this.1, List.mem_cons_of_mem _ this.2⟩

/-- helper: for strictly increasing `reduced` every segment has `left < right` -/
theorem pairsOf_lt : ∀ (L : List Nat), L.Pairwise (· < ·) → ∀ p ∈ pairsOf L, p.1 < p.2
  | [], _, p, h => by simp [pairsOf] at h
  | [_], _, p, h => by simp [pairsOf] at h
  | a :: b :: t, hp, p, h => by
    simp only [pairsOf, List.mem_cons] at h
    rcases h with rfl | h
    · exact List.rel_of_pairwise_cons hp (by simp)
    · exact pairsOf_lt (b :: t) (List.Pairwise.of_cons hp) p h

/-- helper: the first breakpoint of a strictly increasing list is the smallest -/
theorem head_le_of_pairwise {a : Nat} {t : List Nat} (hp : (a :: t).Pairwise (· < ·)) :
    ∀ c ∈ a :: t, a ≤ c := by
  intro c hc
  rcases List.mem_cons.1 hc with rfl | hc
  · exact le_refl _
  · exact le_of_lt (List.rel_of_pairwise_cons hp hc)

/-- helper: the last breakpoint of a strictly increasing list is the largest (so every index is `≤ n-1`) -/
theorem le_last_of_pairwise : ∀ (L : List Nat) (m : Nat), L.Pairwise (· < ·) →
    L.getLast? = some m → ∀ c ∈ L, c ≤ m
  | [], _, _, h, _, _ => by simp at h
  | [a], m, _, h, c, hc => by
    simp at h hc; omega
  | a :: b :: t, m, hp, h, c, hc => by
    rw [List.getLast?_cons_cons] at h
    have ih := le_last_of_pairwise (b :: t) m (List.Pairwise.of_cons hp) h
    rcases List.mem_cons.1 hc with rfl | hc
    · have h1 : c < b := List.rel_of_pairwise_cons hp (by simp)
      have h2 := ih b (by simp)
      omega
    · exact ih c hc

/-! ## 3. The interpolant on the breakpoints and inside a segment -/

/-- **C15S (breakpoints).** At every breakpoint the interpolant returns the curve's own
ordinate: breakpoints contribute zero residual, whatever the metric.  (No hypothesis on `xs`.) -/
theorem interp_breakpoint (xs ys : List Rat) : ∀ (red : List Nat), red.Pairwise (· < ·) →
    ∀ b ∈ red, interpQ xs ys red b = atQ ys b
  | [], _, b, hb => by simp at hb
  | [a], _, b, hb => by
    simp at hb; subst hb; rfl
  | a :: b' :: t, hp, b, hb => by
    rcases List.mem_cons.1 hb with rfl | hb
    · simp [interpQ]
    · have h1 : a < b := List.rel_of_pairwise_cons hp hb
      have h2 : b' ≤ b := head_le_of_pairwise (List.Pairwise.of_cons hp) b hb
      have ih := interp_breakpoint xs ys (b' :: t) (List.Pairwise.of_cons hp) b hb
      simp only [interpQ]
      rw [if_neg (by omega), if_neg (by omega), ih]

/-- strictly inside a segment the interpolant is that segment's chord -/
theorem interp_inside (xs ys : List Rat) : ∀ (red : List Nat), red.Pairwise (· < ·) →
    ∀ p ∈ pairsOf red, ∀ i, p.1 < i → i < p.2 → interpQ xs ys red i = chordQ xs ys p.1 p.2 i
  | [], _, p, h, _, _, _ => by simp [pairsOf] at h
  | [_], _, p, h, _, _, _ => by simp [pairsOf] at h
  | a :: b :: t, hp, p, h, i, h1, h2 => by
    simp only [pairsOf, List.mem_cons] at h
    rcases h with rfl | h
    · simp only [interpQ]
      rw [if_neg (by omega), if_pos h2]
    · have hb : b ≤ p.1 :=
        head_le_of_pairwise (List.Pairwise.of_cons hp) p.1 (pairsOf_mem _ p h).1
      have hab : a < b := List.rel_of_pairwise_cons hp (by simp)
      have ih := interp_inside xs ys (b :: t) (List.Pairwise.of_cons hp) p h i h1 h2
      simp only [interpQ]
      rw [if_neg (by omega), if_neg (by omega), ih]

/-- on the whole closed segment `[p.1, p.2]` the interpolant is the chord of that segment
(the right end needs `x[p.1] ≠ x[p.2]`) -/
theorem interp_on_segment (xs ys : List Rat) (red : List Nat) (hp : red.Pairwise (· < ·))
    (p : Nat × Nat) (h : p ∈ pairsOf red) (hx : atQ xs p.1 ≠ atQ xs p.2)
    (i : Nat) (h1 : p.1 ≤ i) (h2 : i ≤ p.2) :
    interpQ xs ys red i = chordQ xs ys p.1 p.2 i := by
  rcases Nat.eq_or_lt_of_le h1 with e | h1'
  · rw [← e, interp_breakpoint xs ys red hp _ (pairsOf_mem _ p h).1, chordQ_left]
  · rcases Nat.eq_or_lt_of_le h2 with e | h2'
    · rw [e, interp_breakpoint xs ys red hp _ (pairsOf_mem _ p h).2, chordQ_right _ _ _ _ hx]
    · exact interp_inside xs ys red hp p h i h1' h2'

/-! ## 4. The model's end-point line is the chord -/

/-- the end-point line `lineQ x (fitQ x y)` of the slice `l … r`, listed by index -/
theorem segLine_eq_chord (xs ys : List Rat) (l r : Nat) (hlr : l ≤ r) (hrx : r < xs.length)
    (hry : r < ys.length) (hne : atQ xs l ≠ atQ xs r) :
    lineQ ((xs.drop l).take (r - l + 1))
        (fitQ ((xs.drop l).take (r - l + 1)) ((ys.drop l).take (r - l + 1)))
      = (List.range' l (r - l + 1)).map (chordQ xs ys l r) := by
  rw [slice_eq_map xs l r hlr hrx, slice_eq_map ys l r hlr hry]
  have hd : atQ xs l - atQ xs r ≠ 0 := sub_ne_zero.mpr hne
  have hd' : atQ xs r - atQ xs l ≠ 0 := sub_ne_zero.mpr (Ne.symm hne)
  have hlast : l + (r - l + 1) - 1 = r := by omega
  have hfit : fitQ ((List.range' l (r - l + 1)).map (atQ xs)) ((List.range' l (r - l + 1)).map (atQ ys))
      = (atQ ys l - (atQ ys l - atQ ys r) / (atQ xs l - atQ xs r) * atQ xs l,
         (atQ ys l - atQ ys r) / (atQ xs l - atQ xs r)) := by
    simp only [fitQ, List.head?_map, List.getLast?_map, List.head?_range', List.getLast?_range',
      Nat.add_one_ne_zero, if_false, Option.map_some, Option.getD_some, hlast, ne_eq, hd,
      not_false_eq_true, if_true]
  rw [hfit]
  simp only [lineQ, List.map_map]
  apply List.map_congr_left
  intro i _
  simp only [Function.comp_apply, chordQ]
  field_simp
  ring

/-- **C15S (a).** For strictly increasing abscissae, the model's end-point line of the segment
`(l, r)` of the breakpoint list, evaluated at the point number `i` of the curve (`l ≤ i ≤ r`,
position `i - l` of the slice), is the value of the interpolant at `x_i`: what
`linear_fit` + `linear_transform` compute on `points[l:r+1]` is `np.interp` restricted to it. -/
theorem segLine_eq_interp (xs ys : List Rat) (red : List Nat) (n : Nat)
    (hxl : xs.length = n) (hyl : ys.length = n) (hx : xs.Pairwise (· < ·))
    (hp : red.Pairwise (· < ·)) (p : Nat × Nat) (h : p ∈ pairsOf red) (hr : p.2 < n)
    (i : Nat) (h1 : p.1 ≤ i) (h2 : i ≤ p.2) :
    (lineQ ((xs.drop p.1).take (p.2 - p.1 + 1))
        (fitQ ((xs.drop p.1).take (p.2 - p.1 + 1)) ((ys.drop p.1).take (p.2 - p.1 + 1))))[i - p.1]?
      = some (interpQ xs ys red i) := by
  have hlt := pairsOf_lt red hp p h
  have hne : atQ xs p.1 ≠ atQ xs p.2 :=
    ne_of_lt (atQ_lt_of_pairwise xs hx _ _ hlt (by omega))
  rw [segLine_eq_chord xs ys p.1 p.2 (le_of_lt hlt) (by omega) (by omega) hne,
    List.getElem?_map, List.getElem?_range' (by omega),
    interp_on_segment xs ys red hp p h hne i h1 h2]
  have : p.1 + 1 * (i - p.1) = i := by omega
  rw [this]; rfl

/-- the model's segment error as a sum over the indices `l … r` against the chord -/
theorem segErrQ_eq_chord_sum (kind : MKind) (xs ys : List Rat) (l r : Nat) (hlr : l ≤ r)
    (hrx : r < xs.length) (hry : r < ys.length) (hne : atQ xs l ≠ atQ xs r) :
    segErrQ kind xs ys l r
      = ((List.range' l (r - l + 1)).map
          fun i => termQ kind (atQ ys i) (chordQ xs ys l r i)).sum := by
  unfold segErrQ
  simp only
  rw [segLine_eq_chord xs ys l r hlr hrx hry hne, partialQ_eq_term, slice_eq_map ys l r hlr hry,
    List.zipWith_map, List.zipWith_self]

/-! ## 5. Double counting: a sum over segments versus a sum over points -/

/-- sum of `g` over the closed index range `l … r` -/
def closedSum (g : Nat → Rat) (l r : Nat) : Rat := ((List.range' l (r - l + 1)).map g).sum
/-- sum of `g` over the half-open index range `l+1 … r` -/
def openSum (g : Nat → Rat) (l r : Nat) : Rat := ((List.range' (l + 1) (r - l)).map g).sum

/-- helper: `points[l:r+1]` = the left end point followed by `points[l+1:r+1]` -/
theorem closedSum_eq (g : Nat → Rat) (l r : Nat) : closedSum g l r = g l + openSum g l r := by
  unfold closedSum openSum
  rw [List.range'_succ]; rfl

/-- helper: sums over the adjacent half-open index ranges `(a, b]` and `(b, m]` add up to the sum over `(a, m]` -/
theorem openSum_append (g : Nat → Rat) (a b m : Nat) (hab : a ≤ b) (hbm : b ≤ m) :
    openSum g a b + openSum g b m = openSum g a m := by
  unfold openSum
  rw [← List.sum_append, ← List.map_append]
  have h1 : b + 1 = a + 1 + (b - a) := by omega
  have h2 : m - a = (b - a) + (m - b) := by omega
  rw [h1, List.range'_append_1, h2]

/-- helper: without their left end points the segments of `reduced` tile `(first, last]` exactly once -/
theorem openSum_telescope (g : Nat → Rat) : ∀ (rest : List Nat) (a m : Nat),
    (a :: rest).Pairwise (· < ·) → (a :: rest).getLast? = some m →
    ((pairsOf (a :: rest)).map fun p => openSum g p.1 p.2).sum = openSum g a m
  | [], a, m, _, hl => by
    simp at hl; subst hl
    simp [pairsOf, openSum]
  | b :: t, a, m, hp, hl => by
    rw [List.getLast?_cons_cons] at hl
    have ih := openSum_telescope g t b m (List.Pairwise.of_cons hp) hl
    have hab : a < b := List.rel_of_pairwise_cons hp (by simp)
    have hbm : b ≤ m := le_last_of_pairwise (b :: t) m (List.Pairwise.of_cons hp) hl b (by simp)
    simp only [pairsOf, List.map_cons, List.sum_cons, ih]
    exact openSum_append g a b m (le_of_lt hab) hbm

/-- helper: the left ends of the segments are `reduced[:-1]` -/
theorem pairsOf_map_fst : ∀ L : List Nat, (pairsOf L).map (·.1) = L.dropLast
  | [] => rfl
  | [_] => rfl
  | a :: b :: t => by
    simp only [pairsOf, List.map_cons, List.dropLast_cons_cons, pairsOf_map_fst (b :: t)]

/-- **C15S (double counting).** Summing any per-point quantity `g` segment by segment (both end
points of every segment included, as `compute_global_cost` does with `points[l:r+1]`) gives the
sum over all points plus once more every interior breakpoint: an interior breakpoint is counted
once per adjoining segment. -/
theorem sum_segments_double_count (g : Nat → Rat) (red : List Nat) (n : Nat)
    (hp : red.Pairwise (· < ·)) (h0 : red.head? = some 0) (hl : red.getLast? = some (n - 1))
    (h2 : 2 ≤ red.length) :
    ((pairsOf red).map fun p => closedSum g p.1 p.2).sum
      = ((List.range n).map g).sum + ((innerOf red).map g).sum := by
  match red, hp, h0, hl, h2 with
  | a :: b :: t, hp, h0, hl, _ =>
    simp at h0; subst h0
    have hn : 1 ≤ n - 1 := by
      have h1 : 0 < b := List.rel_of_pairwise_cons hp (by simp)
      have h3 := le_last_of_pairwise _ _ hp hl b (by simp)
      omega
    have hsplit : ((pairsOf (0 :: b :: t)).map fun p => closedSum g p.1 p.2).sum
        = ((pairsOf (0 :: b :: t)).map fun p => g p.1).sum
          + ((pairsOf (0 :: b :: t)).map fun p => openSum g p.1 p.2).sum := by
      rw [← List.sum_map_add]
      congr 1
    have hfst : ((pairsOf (0 :: b :: t)).map fun p => g p.1).sum
        = g 0 + ((innerOf (0 :: b :: t)).map g).sum := by
      have : ((pairsOf (0 :: b :: t)).map fun p => g p.1)
          = ((pairsOf (0 :: b :: t)).map (·.1)).map g := by
        rw [List.map_map]; rfl
      rw [this, pairsOf_map_fst]
      simp [innerOf]
    have hrange : ((List.range n).map g).sum = g 0 + openSum g 0 (n - 1) := by
      have : n = (n - 1) + 1 := by omega
      rw [List.range_eq_range', this, List.range'_succ]
      simp [openSum]
    rw [hsplit, hfst, openSum_telescope g (b :: t) 0 (n - 1) hp hl, hrange]
    ring

/-- the same count with `g = 1`: the number of point evaluations summed by `compute_global_cost`
is the model's divisor `len(points) + len(segment_errors) - 1` -/
theorem evaluations_eq_divisor (red : List Nat) (n : Nat)
    (hp : red.Pairwise (· < ·)) (h0 : red.head? = some 0) (hl : red.getLast? = some (n - 1))
    (h2 : 2 ≤ red.length) :
    ((pairsOf red).map fun p => (((p.2 - p.1 + 1 : Nat)) : Rat)).sum
      = ((n + (red.length - 1) - 1 : Nat) : Rat) := by
  have hone : ∀ L : List Nat, (L.map fun _ => (1 : Rat)).sum = (L.length : Rat) := by
    intro L; induction L with
    | nil => simp
    | cons a L ih => simp only [List.map_cons, List.sum_cons, ih, List.length_cons]; push_cast; ring
  have h := sum_segments_double_count (fun _ => 1) red n hp h0 hl h2
  have hc : ∀ p : Nat × Nat, closedSum (fun _ => 1) p.1 p.2 = (((p.2 - p.1 + 1 : Nat)) : Rat) := by
    intro p; unfold closedSum; rw [hone]; simp
  simp only [hc] at h
  rw [h, hone, hone]
  have hlen : (innerOf red).length = red.length - 2 := by
    simp [innerOf]; omega
  have hn : 1 ≤ n := by
    match red, hp, h0, hl, h2 with
    | a :: b :: t, hp, h0, hl, _ =>
      simp at h0; subst h0
      have h1 : 0 < b := List.rel_of_pairwise_cons hp (by simp)
      have h3 := le_last_of_pairwise _ _ hp hl b (by simp)
      omega
  rw [hlen, List.length_range]
  have : n + (red.length - 1) - 1 = n + (red.length - 2) := by omega
  rw [this]; push_cast; ring

/-! ## 6. The model's sums are sums against the interpolant -/

/-- residual term of the point number `i` against the interpolant -/
def resQ (kind : MKind) (xs ys : List Rat) (red : List Nat) (i : Nat) : Rat :=
  termQ kind (atQ ys i) (interpQ xs ys red i)

/-- **C15S (zero residual on breakpoints).** Every breakpoint contributes zero to every metric. -/
theorem resQ_breakpoint (kind : MKind) (xs ys : List Rat) (red : List Nat)
    (hp : red.Pairwise (· < ·)) (b : Nat) (hb : b ∈ red) : resQ kind xs ys red b = 0 := by
  unfold resQ
  rw [interp_breakpoint xs ys red hp b hb, termQ_self]

/-- helper: zipping an array with a function sampled on `range(len)` is an index-wise map -/
theorem zipWith_range_map (f : Rat → Rat → Rat) (L : List Rat) (g : Nat → Rat) :
    List.zipWith f L ((List.range L.length).map g)
      = (List.range L.length).map fun i => f (atQ L i) (g i) := by
  conv_lhs => arg 2; rw [list_eq_map_atQ L]
  rw [List.zipWith_map, List.zipWith_self]

/-- the model's partial cost of the whole curve against the sampled interpolant, point by point -/
theorem partialQ_interp_eq_sum (kind : MKind) (xs ys : List Rat) (red : List Nat) :
    partialQ kind ys (interpL xs ys red)
      = ((List.range ys.length).map (resQ kind xs ys red)).sum := by
  rw [partialQ_eq_term]
  unfold interpL
  rw [zipWith_range_map]
  rfl

/-- helper: every segment of a strictly increasing `reduced` ending at `n-1` lies inside the curve (`left < right < n`) -/
theorem pair_snd_lt (red : List Nat) (n : Nat) (hp : red.Pairwise (· < ·))
    (hl : red.getLast? = some (n - 1)) (p : Nat × Nat) (h : p ∈ pairsOf red) :
    p.1 < p.2 ∧ p.2 < n := by
  have h1 := pairsOf_lt red hp p h
  have h2 := le_last_of_pairwise red (n - 1) hp hl p.2 (pairsOf_mem red p h).2
  omega

/-- one segment: the model's error of the end-point line on `points[l:r+1]` is the sum of the
residuals against the interpolant over the indices `l … r` -/
theorem segErrQ_eq_closedSum (kind : MKind) (xs ys : List Rat) (red : List Nat) (n : Nat)
    (hxl : xs.length = n) (hyl : ys.length = n) (hx : xs.Pairwise (· < ·))
    (hp : red.Pairwise (· < ·)) (hl : red.getLast? = some (n - 1))
    (p : Nat × Nat) (h : p ∈ pairsOf red) :
    segErrQ kind xs ys p.1 p.2 = closedSum (resQ kind xs ys red) p.1 p.2 := by
  obtain ⟨hlt, hr⟩ := pair_snd_lt red n hp hl p h
  have hne : atQ xs p.1 ≠ atQ xs p.2 :=
    ne_of_lt (atQ_lt_of_pairwise xs hx _ _ hlt (by omega))
  rw [segErrQ_eq_chord_sum kind xs ys p.1 p.2 (le_of_lt hlt) (by omega) (by omega) hne]
  unfold closedSum
  congr 1
  apply List.map_congr_left
  intro i hi
  rw [List.mem_range'_1] at hi
  unfold resQ
  rw [interp_on_segment xs ys red hp p h hne i hi.1 (by omega)]

/-- the `len(pt) <= 2` shortcut of `compute_global_cost` changes nothing: a two-point segment has
zero error anyway (both points are breakpoints) -/
theorem segErrG_eq_closedSum (kind : MKind) (xs ys : List Rat) (red : List Nat) (n : Nat)
    (hxl : xs.length = n) (hyl : ys.length = n) (hx : xs.Pairwise (· < ·))
    (hp : red.Pairwise (· < ·)) (hl : red.getLast? = some (n - 1))
    (p : Nat × Nat) (h : p ∈ pairsOf red) :
    segErrG (segErrQ kind xs ys) p.1 p.2 = closedSum (resQ kind xs ys red) p.1 p.2 := by
  unfold segErrG
  split
  · rename_i h2
    obtain ⟨hlt, _⟩ := pair_snd_lt red n hp hl p h
    have e : p.2 - p.1 + 1 = 2 := by omega
    have e2 : p.1 + 1 = p.2 := by omega
    unfold closedSum
    rw [e]
    simp only [List.range', List.map_cons, List.map_nil, List.sum_cons, List.sum_nil, e2]
    rw [resQ_breakpoint kind xs ys red hp _ (pairsOf_mem red p h).1,
      resQ_breakpoint kind xs ys red hp _ (pairsOf_mem red p h).2]
    simp
  · exact segErrQ_eq_closedSum kind xs ys red n hxl hyl hx hp hl p h

/-- **C15S (exact relation, any metric).** The sum of the per-segment errors (every segment
evaluated on `points[l:r+1]`, end points included) equals the metric sum of the WHOLE curve
against the interpolant, plus the residuals of the interior breakpoints counted a second time —
and those residuals are all zero (`resQ_breakpoint`). -/
theorem sum_segErrQ_double_count (kind : MKind) (xs ys : List Rat) (red : List Nat) (n : Nat)
    (hxl : xs.length = n) (hyl : ys.length = n) (hx : xs.Pairwise (· < ·))
    (hp : red.Pairwise (· < ·)) (h0 : red.head? = some 0) (hl : red.getLast? = some (n - 1))
    (h2 : 2 ≤ red.length) :
    ((pairsOf red).map fun p => segErrQ kind xs ys p.1 p.2).sum
      = partialQ kind ys (interpL xs ys red)
        + ((innerOf red).map (resQ kind xs ys red)).sum
    ∧ ∀ b ∈ innerOf red, resQ kind xs ys red b = 0 := by
  constructor
  · rw [partialQ_interp_eq_sum, hyl,
      ← sum_segments_double_count (resQ kind xs ys red) red n hp h0 hl h2]
    congr 1
    apply List.map_congr_left
    intro p h
    exact segErrQ_eq_closedSum kind xs ys red n hxl hyl hx hp hl p h
  · intro b hb
    apply resQ_breakpoint kind xs ys red hp b
    unfold innerOf at hb
    exact List.mem_of_mem_drop (List.mem_of_mem_dropLast hb)

/-- the degenerate breakpoint list `[0]` (a curve of at most one point) -/
theorem partialQ_interp_single (kind : MKind) (xs ys : List Rat) (red : List Nat) (n : Nat)
    (hyl : ys.length = n) (h0 : red.head? = some 0) (hl : red.getLast? = some (n - 1))
    (h2 : ¬ 2 ≤ red.length) : partialQ kind ys (interpL xs ys red) = 0 := by
  match red, h0, hl, h2 with
  | [a], h0, hl, _ =>
    simp at h0 hl
    subst h0
    rw [partialQ_interp_eq_sum]
    apply sum_map_eq_zero
    intro i hi
    rw [List.mem_range] at hi
    have : i = 0 := by omega
    subst this
    simp [resQ, interpQ, termQ_self]
  | [], h0, _, _ => simp at h0
  | _ :: _ :: _, _, _, h2 => simp at h2

/-- **C15S (sum of segment errors).** For a strictly increasing breakpoint list from `0` to
`n − 1` over strictly increasing abscissae, the sum of the model's per-segment errors is the
metric sum of the whole curve against `np.interp(x, x[red], y[red])`. -/
theorem sum_segErrQ_eq_interp (kind : MKind) (xs ys : List Rat) (red : List Nat) (n : Nat)
    (hxl : xs.length = n) (hyl : ys.length = n) (hx : xs.Pairwise (· < ·))
    (hp : red.Pairwise (· < ·)) (h0 : red.head? = some 0) (hl : red.getLast? = some (n - 1)) :
    ((pairsOf red).map fun p => segErrQ kind xs ys p.1 p.2).sum
      = partialQ kind ys (interpL xs ys red) := by
  by_cases h2 : 2 ≤ red.length
  · obtain ⟨h, hz⟩ := sum_segErrQ_double_count kind xs ys red n hxl hyl hx hp h0 hl h2
    rw [h, sum_map_eq_zero _ _ hz, add_zero]
  · rw [partialQ_interp_single kind xs ys red n hyl h0 hl h2]
    have : pairsOf red = [] := by
      match red, h2 with
      | [], _ => rfl
      | [_], _ => rfl
      | _ :: _ :: _, h2 => simp at h2
    rw [this]; rfl

/-- the same with the `len(pt) <= 2` shortcut: `sumErr` of the exact oracle -/
theorem sumErr_eq_interp (kind : MKind) (xs ys : List Rat) (red : List Nat) (n : Nat)
    (hxl : xs.length = n) (hyl : ys.length = n) (hx : xs.Pairwise (· < ·))
    (hp : red.Pairwise (· < ·)) (h0 : red.head? = some 0) (hl : red.getLast? = some (n - 1)) :
    sumErr (segErrQ kind xs ys) red = partialQ kind ys (interpL xs ys red) := by
  rw [← sum_segErrQ_eq_interp kind xs ys red n hxl hyl hx hp h0 hl]
  unfold sumErr
  congr 1
  apply List.map_congr_left
  intro p h
  rw [segErrG_eq_closedSum kind xs ys red n hxl hyl hx hp hl p h,
    segErrQ_eq_closedSum kind xs ys red n hxl hyl hx hp hl p h]

/-! ## 7. Main results -/

/-- **C15S (b) — global RMSE.** `compute_global_rmse(points, reduced)²` is the mean squared
residual of ALL `n` points against the piecewise-linear interpolant through the breakpoints:
`Σ_i (y_i − interp_i)² / n`.  Interior breakpoints are summed twice by the code (once per adjoining
segment) but their residual is zero, and the divisor is `n` (not `n + #segments − 1`), so the value
is exactly the RMSE² against `np.interp`. -/
theorem grmseSq_eq_interp (xs ys : List Rat) (red : List Nat) (n : Nat)
    (hxl : xs.length = n) (hyl : ys.length = n) (hx : xs.Pairwise (· < ·))
    (hp : red.Pairwise (· < ·)) (h0 : red.head? = some 0) (hl : red.getLast? = some (n - 1)) :
    grmseSq (segErrQ .r2 xs ys) n red
      = ((List.range n).map fun i =>
          (atQ ys i - interpQ xs ys red i) * (atQ ys i - interpQ xs ys red i)).sum / (n : Rat) := by
  unfold grmseSq
  rw [sum_segErrQ_eq_interp .r2 xs ys red n hxl hyl hx hp h0 hl, partialQ_interp_eq_sum, hyl]
  rfl

/-- **C15S (b′).** The same in the vocabulary of `Metrics.lean`: global RMSE² = `mseQ` (= RMSE²)
of the curve's ordinates against the sampled interpolant. -/
theorem grmseSq_eq_mse_interp (xs ys : List Rat) (red : List Nat) (n : Nat)
    (hxl : xs.length = n) (hyl : ys.length = n) (hx : xs.Pairwise (· < ·))
    (hp : red.Pairwise (· < ·)) (h0 : red.head? = some 0) (hl : red.getLast? = some (n - 1)) :
    grmseSq (segErrQ .r2 xs ys) n red = mseQ ys (interpL xs ys red) := by
  unfold grmseSq mseQ meanQ
  rw [sum_segErrQ_eq_interp .r2 xs ys red n hxl hyl hx hp h0 hl]
  have hlen : (List.zipWith (fun a b => (a - b) * (a - b)) ys (interpL xs ys red)).length = n := by
    simp [interpL, hyl]
  rw [hlen]; rfl

/-- **C15S (c) — global cost, non-R² metrics.** `compute_global_cost` (squared for the rooted
metrics) is the metric's sum over the whole curve against the interpolant, divided by
`n + #segments − 1` — NOT by `n`: the divisor counts every interior breakpoint once per adjoining
segment (`evaluations_eq_divisor`) although those extra evaluations add zero residual.  Hence
`cost = metric_against_interp · n / (n + #segments − 1)` for the mean-type metrics. -/
theorem gcost_eq_interp (kind : MKind) (hk : kind ≠ .r2) (tss : Rat) (xs ys : List Rat)
    (red : List Nat) (n : Nat)
    (hxl : xs.length = n) (hyl : ys.length = n) (hx : xs.Pairwise (· < ·))
    (hp : red.Pairwise (· < ·)) (h0 : red.head? = some 0) (hl : red.getLast? = some (n - 1)) :
    gcostQ kind n tss (segErrQ kind xs ys) red
      = partialQ kind ys (interpL xs ys red) / ((n + (red.length - 1) - 1 : Nat) : Rat) := by
  rw [gcost_exact_divisor kind n tss xs ys red hk,
    sumErr_eq_interp kind xs ys red n hxl hyl hx hp h0 hl]

/-- **C15S (c) — global cost, R².** With any `tss`: `max 0 (1 − RSS_interp / tss)` (or
`1 − RSS_interp` when `tss = 0`), `RSS_interp` being the residual sum of squares of the whole
curve against the interpolant. -/
theorem gcost_r2_eq_interp (tss : Rat) (xs ys : List Rat) (red : List Nat) (n : Nat)
    (hxl : xs.length = n) (hyl : ys.length = n) (hx : xs.Pairwise (· < ·))
    (hp : red.Pairwise (· < ·)) (h0 : red.head? = some 0) (hl : red.getLast? = some (n - 1)) :
    gcostQ .r2 n tss (segErrQ .r2 xs ys) red
      = (let c := if tss = 0 then 1 - rssQ ys (interpL xs ys red)
                  else 1 - rssQ ys (interpL xs ys red) / tss
         if c < 0 then 0 else c) := by
  simp only [gcostQ, sumErr_eq_interp .r2 xs ys red n hxl hyl hx hp h0 hl]
  rfl

/-- **C15S (c′) — global cost, R², with the curve's own total sum of squares.** The global R² cost
is the classic `metrics.r2` of the ordinates against the interpolant, clipped at 0. -/
theorem gcost_r2_eq_r2_interp (xs ys : List Rat) (red : List Nat) (n : Nat)
    (hxl : xs.length = n) (hyl : ys.length = n) (hx : xs.Pairwise (· < ·))
    (hp : red.Pairwise (· < ·)) (h0 : red.head? = some 0) (hl : red.getLast? = some (n - 1)) :
    gcostQ .r2 n (tssQ ys) (segErrQ .r2 xs ys) red
      = if r2Q ys (interpL xs ys red) < 0 then 0 else r2Q ys (interpL xs ys red) := by
  rw [gcost_r2_eq_interp (tssQ ys) xs ys red n hxl hyl hx hp h0 hl]
  rfl

/-! ## 8. Relation with the whole-curve metrics of `metrics.py` -/

/-- helper: `np.sum(v) = np.mean(v) * len(v)` (also for the empty array, where the model's mean is 0) -/
theorem sum_eq_meanQ_mul (l : List Rat) : l.sum = meanQ l * (l.length : Rat) := by
  unfold meanQ
  cases l with
  | nil => simp
  | cons a t =>
    have : ((List.length (a :: t) : Nat) : Rat) ≠ 0 := by
      simp only [List.length_cons]; exact_mod_cast Nat.succ_ne_zero t.length
    field_simp

/-- helper: the sampled interpolant has one value per point of the curve -/
theorem zipWith_interpL_length (f : Rat → Rat → Rat) (xs ys : List Rat) (red : List Nat) :
    (List.zipWith f ys (interpL xs ys red)).length = ys.length := by
  simp [interpL]

/-- **C15S (c″) — the global cost is NOT the plain metric against the interpolant.** For the
mean-type metrics the global cost is the whole-curve metric (`metrics.smape` / `rpd` / `rmspe²`
of `y` against `np.interp`) rescaled by `n / (n + #segments − 1)`: same numerator, larger divisor. -/
theorem gcost_eq_metric_scaled (tss : Rat) (xs ys : List Rat) (red : List Nat) (n : Nat)
    (hxl : xs.length = n) (hyl : ys.length = n) (hx : xs.Pairwise (· < ·))
    (hp : red.Pairwise (· < ·)) (h0 : red.head? = some 0) (hl : red.getLast? = some (n - 1)) :
    gcostQ .smape n tss (segErrQ .smape xs ys) red
        = smapeQ ys (interpL xs ys red) * (n : Rat) / ((n + (red.length - 1) - 1 : Nat) : Rat)
    ∧ gcostQ .rpd n tss (segErrQ .rpd xs ys) red
        = rpdQ ys (interpL xs ys red) * (n : Rat) / ((n + (red.length - 1) - 1 : Nat) : Rat)
    ∧ gcostQ .rmspe n tss (segErrQ .rmspe xs ys) red
        = rmspeSq ys (interpL xs ys red) * (n : Rat) / ((n + (red.length - 1) - 1 : Nat) : Rat) := by
  refine ⟨?_, ?_, ?_⟩
  · rw [gcost_eq_interp .smape (by decide) tss xs ys red n hxl hyl hx hp h0 hl]
    unfold smapeQ partialQ
    simp only
    rw [sum_eq_meanQ_mul, zipWith_interpL_length, hyl]
  · rw [gcost_eq_interp .rpd (by decide) tss xs ys red n hxl hyl hx hp h0 hl]
    unfold rpdQ partialQ
    simp only
    rw [sum_eq_meanQ_mul, zipWith_interpL_length, hyl]
  · rw [gcost_eq_interp .rmspe (by decide) tss xs ys red n hxl hyl hx hp h0 hl]
    unfold rmspeSq partialQ
    simp only
    rw [sum_eq_meanQ_mul, zipWith_interpL_length, hyl]

/-! ## Non-vacuity -/

/-! A 7-point curve with NON-uniform abscissae and the breakpoints `[0, 2, 3, 6]` (one 3-point
segment, one 2-point segment, one 4-point segment). -/

/- the hypotheses of all the theorems above hold -/
example : ([0, 1, 2, 4, 5, 7, 8] : List Rat).length = 7 ∧ ([1, 3, 2, 5, 4, 4, 6] : List Rat).length = 7
    ∧ ([0, 1, 2, 4, 5, 7, 8] : List Rat).Pairwise (· < ·)
    ∧ ([0, 2, 3, 6] : List Nat).Pairwise (· < ·)
    ∧ ([0, 2, 3, 6] : List Nat).head? = some 0 ∧ ([0, 2, 3, 6] : List Nat).getLast? = some (7 - 1)
    ∧ 2 ≤ ([0, 2, 3, 6] : List Nat).length := by
  decide +kernel
/- the interpolant, sampled: exact on the breakpoints 0, 2, 3, 6, off the curve elsewhere -/
example : interpL [0, 1, 2, 4, 5, 7, 8] [1, 3, 2, 5, 4, 4, 6] [0, 2, 3, 6]
    = [1, 3 / 2, 2, 5, 21 / 4, 23 / 4, 6] := by decide +kernel
/- both sides of `grmseSq_eq_mse_interp`, computed independently -/
example : grmseSq (segErrQ .r2 [0, 1, 2, 4, 5, 7, 8] [1, 3, 2, 5, 4, 4, 6]) 7 [0, 2, 3, 6] = 55 / 56
    ∧ mseQ [1, 3, 2, 5, 4, 4, 6] (interpL [0, 1, 2, 4, 5, 7, 8] [1, 3, 2, 5, 4, 4, 6] [0, 2, 3, 6])
      = 55 / 56 := by decide +kernel
/- both sides of `gcost_r2_eq_r2_interp` (clip inactive) -/
example : gcostQ .r2 7 (tssQ [1, 3, 2, 5, 4, 4, 6])
      (segErrQ .r2 [0, 1, 2, 4, 5, 7, 8] [1, 3, 2, 5, 4, 4, 6]) [0, 2, 3, 6] = 607 / 992
    ∧ r2Q [1, 3, 2, 5, 4, 4, 6] (interpL [0, 1, 2, 4, 5, 7, 8] [1, 3, 2, 5, 4, 4, 6] [0, 2, 3, 6])
      = 607 / 992 := by decide +kernel
/- the divisor: 3 + 2 + 4 = 9 evaluations = 7 + 3 − 1, and the SMAPE global cost is 7/9 of the
SMAPE against the interpolant — the global cost is NOT the plain metric against the interpolant -/
example : (3 + 2 + 4 : Nat) = 7 + ([0, 2, 3, 6].length - 1) - 1
    ∧ gcostQ .smape 7 0 (segErrQ .smape [0, 1, 2, 4, 5, 7, 8] [1, 3, 2, 5, 4, 4, 6]) [0, 2, 3, 6]
      = smapeQ [1, 3, 2, 5, 4, 4, 6]
          (interpL [0, 1, 2, 4, 5, 7, 8] [1, 3, 2, 5, 4, 4, 6] [0, 2, 3, 6]) * 7 / 9
    ∧ gcostQ .smape 7 0 (segErrQ .smape [0, 1, 2, 4, 5, 7, 8] [1, 3, 2, 5, 4, 4, 6]) [0, 2, 3, 6]
      ≠ smapeQ [1, 3, 2, 5, 4, 4, 6]
          (interpL [0, 1, 2, 4, 5, 7, 8] [1, 3, 2, 5, 4, 4, 6] [0, 2, 3, 6]) := by
  decide +kernel
/- strict monotonicity of the abscissae is not idle: with a repeated abscissa at the two ends of a
segment the end-point fit degenerates to `(0, 0)` and the model's RSS is no longer the RSS against
the interpolant (which still passes through the breakpoints) -/
example : grmseSq (segErrQ .r2 [0, 1, 0] [1, 3, 2]) 3 [0, 2] = 14 / 3
    ∧ interpL [0, 1, 0] [1, 3, 2] [0, 2] = [1, 1, 2]
    ∧ mseQ [1, 3, 2] (interpL [0, 1, 0] [1, 3, 2] [0, 2]) = 4 / 3 := by decide +kernel

end Knee

import Knee.Lemmas.ElbowB
/-!
# C03-B — DFDT on an exact two-slope elbow

The DFDT detector (`dfdt.knee`) works on the gradient array of the curve.  For an exact two-slope
elbow the gradient array is `elbowG a gmid b s1 s2 = [s1]*a ++ [gmid] ++ [s2]*b` with the corner at
index `a`, where `gmid` (the central-difference gradient at the corner) lies strictly between the two
arm slopes.  Model of the ISODATA threshold: `Knee/Model/Isodata.lean` (exact ℚ, `eps = 1e-6`,
`max_iter = 100`).

* `isoStep_elbow`      — shape of every ISODATA update from a threshold between the slopes
* `isodata_between`    — the returned threshold is such an update, lies between the slopes, and the
                         corner gradient is strictly closer to it than either arm slope
* `dfdtInner_elbow`    — one DFDT round (`argmin(diff[1:-1]) + 1`) returns the corner index `a`
* `dfdt_elbow`         — the whole DFDT loop returns the corner index `a`
-/
namespace Knee

/-- `t` lies strictly between the two slopes -/
def Between (s1 s2 t : Rat) : Prop := min s1 s2 < t ∧ t < max s1 s2

/-! ## meaning of `lowMid` / `highMid`: midpoints of the two class means -/

/-- `lowMid p lo g hi` is the ISODATA update for the partition
`left = [lo]*p ++ [g]`, `right = [hi]*q` (any `q ≥ 1`). -/
theorem lowMid_eq_means (p q : Nat) (lo g hi : Rat) (hq : 1 ≤ q) :
    lowMid p lo g hi =
      (meanL (List.replicate p lo ++ [g]) + meanL (List.replicate q hi)) / 2 := by
  rw [meanL_replicate_snoc, meanL_replicate q hi hq]
  rfl

/-- `highMid q lo g hi` is the ISODATA update for the partition
`left = [lo]*p` (any `p ≥ 1`), `right = [g] ++ [hi]*q`. -/
theorem highMid_eq_means (p q : Nat) (lo g hi : Rat) (hp : 1 ≤ p) :
    highMid q lo g hi =
      (meanL (List.replicate p lo) + meanL (g :: List.replicate q hi)) / 2 := by
  rw [meanL_cons_replicate, meanL_replicate p lo hp]
  rfl

/-! ## one ISODATA update -/

/-- **C03-B (shape of an update).** From any threshold strictly between the slopes the partition is
never one-sided: the low class holds all copies of the smaller slope, the high class all copies of
the larger slope, and the corner value joins the side `gmid ≤ t` decides. -/
theorem isoStep_elbow (a b : Nat) (g s1 s2 t : Rat) (ha : 1 ≤ a) (hb : 1 ≤ b)
    (hg : Between s1 s2 g) (ht : Between s1 s2 t) :
    isoStep (elbowG a g b s1 s2) t =
      some (if s1 < s2 then (if g ≤ t then lowMid a s1 g s2 else highMid b s1 g s2)
            else (if g ≤ t then lowMid b s2 g s1 else highMid a s2 g s1)) := by
  unfold Between at hg ht
  by_cases h : s1 < s2
  · rw [min_eq_left h.le, max_eq_right h.le] at hg ht
    rw [if_pos h]
    by_cases hgt : g ≤ t
    · rw [if_pos hgt]; exact isoStep_up_low a b g s1 s2 t hb hg.1 hgt ht.2
    · rw [if_neg hgt]; exact isoStep_up_high a b g s1 s2 t ha hg.2 ht.1.le (not_le.mp hgt)
  · have h' : s2 ≤ s1 := not_lt.mp h
    rw [min_eq_right h', max_eq_left h'] at hg ht
    rw [if_neg h]
    by_cases hgt : g ≤ t
    · rw [if_pos hgt]; exact isoStep_down_low a b g s1 s2 t ha hg.1 hgt ht.2
    · rw [if_neg hgt]; exact isoStep_down_high a b g s1 s2 t hb hg.2 ht.1.le (not_le.mp hgt)

/-- every update from a threshold between the slopes lies strictly between the midpoints
`(lo + gmid)/2` and `(gmid + hi)/2` -/
theorem isoStep_elbow_mid (a b : Nat) (g s1 s2 t : Rat) (ha : 1 ≤ a) (hb : 1 ≤ b)
    (hg : Between s1 s2 g) (ht : Between s1 s2 t) :
    ∃ n, isoStep (elbowG a g b s1 s2) t = some n ∧ Mid (min s1 s2) g (max s1 s2) n := by
  refine ⟨_, isoStep_elbow a b g s1 s2 t ha hb hg ht, ?_⟩
  unfold Between at hg
  by_cases h : s1 < s2
  · rw [min_eq_left h.le, max_eq_right h.le] at hg ⊢
    rw [if_pos h]
    split
    · exact lowMid_mid a s1 g s2 ha hg.1 hg.2
    · exact highMid_mid b s1 g s2 hb hg.1 hg.2
  · have h' : s2 ≤ s1 := not_lt.mp h
    rw [min_eq_right h', max_eq_left h'] at hg ⊢
    rw [if_neg h]
    split
    · exact lowMid_mid b s2 g s1 hb hg.1 hg.2
    · exact highMid_mid a s2 g s1 ha hg.1 hg.2

/-- the initial threshold (the mean of the gradient array) lies strictly between the slopes -/
theorem meanL_elbow_between (a b : Nat) (g s1 s2 : Rat) (ha : 1 ≤ a) (hb : 1 ≤ b)
    (hg : Between s1 s2 g) : Between s1 s2 (meanL (elbowG a g b s1 s2)) := by
  rw [meanL_elbowG]
  unfold Between at hg ⊢
  by_cases h : s1 < s2
  · rw [min_eq_left h.le, max_eq_right h.le] at hg ⊢
    exact mean_good a b s1 g s2 ha hb hg.1 hg.2
  · have h' : s2 ≤ s1 := not_lt.mp h
    rw [min_eq_right h', max_eq_left h'] at hg ⊢
    have := mean_good b a s2 g s1 hb ha hg.1 hg.2
    have e : (a : Rat) * s1 + g + (b : Rat) * s2 = (b : Rat) * s2 + g + (a : Rat) * s1 := by ring
    have e2 : (a : Rat) + 1 + (b : Rat) = (b : Rat) + 1 + (a : Rat) := by ring
    rw [e, e2]
    exact this

/-! ## the threshold -/

/-- what the loop returns: a value produced by `isoStep` from a threshold between the slopes,
lying between the two midpoints -/
def IsoRes (a b : Nat) (g s1 s2 T : Rat) : Prop :=
  Mid (min s1 s2) g (max s1 s2) T ∧
    ∃ t, Between s1 s2 t ∧ isoStep (elbowG a g b s1 s2) t = some T

theorem isoLoop_elbow (a b : Nat) (g s1 s2 eps : Rat) (ha : 1 ≤ a) (hb : 1 ≤ b)
    (hg : Between s1 s2 g) (f : Nat) (t : Rat) (ht : Between s1 s2 t) :
    IsoRes a b g s1 s2 (isoLoop (elbowG a g b s1 s2) eps (f + 1) t) := by
  apply isoLoop_inv (elbowG a g b s1 s2) eps (Between s1 s2) (IsoRes a b g s1 s2)
  · intro t ht
    obtain ⟨n, hn, hm⟩ := isoStep_elbow_mid a b g s1 s2 t ha hb hg ht
    exact ⟨n, hn, hm, t, ht, hn⟩
  · intro t hr
    exact Mid_good hg.1 hg.2 hr.1
  · exact ht

/-- **C03-B (threshold).** For the gradient array of an exact two-slope elbow
(`a, b ≥ 1` copies of the arm slopes `s1 ≠ s2`, corner gradient strictly between them) the ISODATA
threshold `T` (`eps = 1e-6`, `max_iter = 100`)

* is a value `(mean(left) + mean(right))/2` produced by an update from a threshold strictly between
  the slopes (never the raw mean; the partition is never one-sided — see `isoStep_elbow` for its
  two possible shapes),
* lies strictly between the slopes, and
* the corner gradient is strictly closer to `T` than either arm slope. -/
theorem isodata_between (a b : Nat) (gmid s1 s2 : Rat) (ha : 1 ≤ a) (hb : 1 ≤ b)
    (hlo : min s1 s2 < gmid) (hhi : gmid < max s1 s2) :
    (∃ t, Between s1 s2 t ∧
        isoStep (elbowG a gmid b s1 s2) t = some (isodataQ (elbowG a gmid b s1 s2))) ∧
      Between s1 s2 (isodataQ (elbowG a gmid b s1 s2)) ∧
      rabs (gmid - isodataQ (elbowG a gmid b s1 s2)) <
        rabs (s1 - isodataQ (elbowG a gmid b s1 s2)) ∧
      rabs (gmid - isodataQ (elbowG a gmid b s1 s2)) <
        rabs (s2 - isodataQ (elbowG a gmid b s1 s2)) := by
  have hg : Between s1 s2 gmid := ⟨hlo, hhi⟩
  have hres : IsoRes a b gmid s1 s2 (isodataQ (elbowG a gmid b s1 s2)) :=
    isoLoop_elbow a b gmid s1 s2 (1 / 1000000) ha hb hg 99 _
      (meanL_elbow_between a b gmid s1 s2 ha hb hg)
  obtain ⟨hmid, hex⟩ := hres
  refine ⟨hex, Mid_good hlo hhi hmid, ?_⟩
  have hc := Mid_closer hlo hhi hmid
  by_cases h : s1 < s2
  · rw [min_eq_left h.le, max_eq_right h.le] at hc
    exact hc
  · have h' : s2 ≤ s1 := not_lt.mp h
    rw [min_eq_right h', max_eq_left h'] at hc
    exact ⟨hc.2, hc.1⟩

/-- the corner-gradient hypothesis forces `s1 ≠ s2` -/
theorem elbow_slopes_ne {gmid s1 s2 : Rat} (hlo : min s1 s2 < gmid) (hhi : gmid < max s1 s2) :
    s1 ≠ s2 := by
  intro h
  subst h
  rw [min_self] at hlo
  rw [max_self] at hhi
  exact absurd hlo (not_lt.mpr hhi.le)

/-! ## one DFDT round -/

/-- **C03-B (one round).** `get_knee_gradient`: on the criterion array `|g − T|` of the elbow
gradient, `argmin(diff[1:-1]) + 1` is the corner index `a`. -/
theorem dfdtInner_elbow (a b : Nat) (gmid s1 s2 : Rat) (ha : 1 ≤ a) (hb : 1 ≤ b)
    (hlo : min s1 s2 < gmid) (hhi : gmid < max s1 s2) :
    dfdtInner ((elbowG a gmid b s1 s2).map
      fun v => rabs (v - isodataQ (elbowG a gmid b s1 s2))) = a := by
  obtain ⟨_, _, h1, h2⟩ := isodata_between a b gmid s1 s2 ha hb hlo hhi
  rw [elbowG_map]
  exact dfdtInner_elbowG a b _ _ _ ha hb h1 h2

/-- one round on the tail `g[c:]` with `c < a`: the local index of the corner -/
theorem dfdtInner_diffs_elbow (a b c : Nat) (gmid s1 s2 : Rat) (hc : c + 1 ≤ a) (hb : 1 ≤ b)
    (hlo : min s1 s2 < gmid) (hhi : gmid < max s1 s2) :
    dfdtInner (dfdtDiffsQ (elbowG a gmid b s1 s2) c) = a - c := by
  unfold dfdtDiffsQ
  simp only []
  rw [elbowG_drop a b c gmid s1 s2 (by omega)]
  exact dfdtInner_elbow (a - c) b gmid s1 s2 (by omega) hb hlo hhi

/-! ## the DFDT loop -/

/-- **C03-B (DFDT finds the corner), general form.**  Arms of `a ≥ 2` and `b ≥ 1` gradient samples
suffice. -/
theorem dfdt_elbow' (a b : Nat) (gmid s1 s2 : Rat) (ha : 2 ≤ a) (hb : 1 ≤ b)
    (hlo : min s1 s2 < gmid) (hhi : gmid < max s1 s2) :
    dfdtKnee (dfdtDiffsQ (elbowG a gmid b s1 s2)) (a + 1 + b) = a := by
  unfold dfdtKnee
  have hf : a + 1 + b + 1 = (a + b - 1) + 1 + 1 + 1 := by omega
  rw [hf]
  -- round 1: the whole array
  rw [dfdtLoop_step _ _ _ _ _ _ ⟨by omega, by omega⟩]
  rw [dfdtInner_diffs_elbow a b 0 gmid s1 s2 (by omega) hb hlo hhi]
  simp only [Nat.sub_zero, Nat.add_zero]
  -- round 2: the tail from `⌈a/2⌉`
  have hcut : (a + 1) / 2 + 1 ≤ a := by omega
  rw [dfdtLoop_step _ _ _ _ _ _ ⟨by exact_mod_cast (by omega : 0 < a), by omega⟩]
  rw [dfdtInner_diffs_elbow a b ((a + 1) / 2) gmid s1 s2 hcut hb hlo hhi]
  have hk : a - (a + 1) / 2 + (a + 1) / 2 = a := by omega
  rw [hk]
  -- the knee did not move right: stop
  rw [dfdtLoop_stop _ _ _ _ _ _ (by intro h; exact absurd h.1 (lt_irrefl _))]

/-- **C03-B (DFDT finds the corner).** With `g` the gradient array of an exact two-slope elbow whose
arms carry `a ≥ 3` and `b ≥ 3` samples (`n = a + 1 + b` points, corner at index `a`), `dfdt.knee`
returns the corner: round 1 on the whole array gives `a`; round 2 on the tail from `⌈a/2⌉` gives `a`
again; the knee did not move right, so the loop stops. -/
theorem dfdt_elbow (a b : Nat) (gmid s1 s2 : Rat) (ha : 3 ≤ a) (hb : 3 ≤ b)
    (hlo : min s1 s2 < gmid) (hhi : gmid < max s1 s2) :
    dfdtKnee (dfdtDiffsQ (elbowG a gmid b s1 s2)) (a + 1 + b) = a :=
  dfdt_elbow' a b gmid s1 s2 (by omega) (by omega) hlo hhi

/-! ## non-vacuity (kernel-evaluated) -/

/-- a concrete descending-gradient elbow: slopes `-2` then `-1/8`, corner gradient `-9/8` -/
def exG : List Rat := elbowG 4 (-9/8) 4 (-2) (-1/8)

example : exG = [-2, -2, -2, -2, -9/8, -1/8, -1/8, -1/8, -1/8] := by decide +kernel
example : meanL exG = -77/72 := by decide +kernel
example : isoStep exG (-77/72) = some (-39/40) := by decide +kernel
example : isoStep exG (-39/40) = some (-39/40) := by decide +kernel
example : isodataQ exG = -39/40 := by decide +kernel
example : dfdtDiffsQ exG 0 =
    [41/40, 41/40, 41/40, 41/40, 3/20, 17/20, 17/20, 17/20, 17/20] := by decide +kernel
example : dfdtKnee (dfdtDiffsQ exG) 9 = 4 := by decide +kernel
/-- a descending pair of slopes (`s1 > s2`) -/
example : dfdtKnee (dfdtDiffsQ (elbowG 5 1 3 3 (1/2))) 9 = 5 := by decide +kernel
/-- the hypotheses of `dfdt_elbow` are satisfiable (instance of the theorem) -/
example : dfdtKnee (dfdtDiffsQ (elbowG 4 (-9/8) 4 (-2) (-1/8))) (4 + 1 + 4) = 4 :=
  dfdt_elbow 4 4 (-9/8) (-2) (-1/8) (by decide) (by decide) (by decide +kernel) (by decide +kernel)

end Knee

import Knee.Props.C10B
/-!
# C10S — the Z-method properties restated for the *returned index list*

C10 proves order / height / separation for the internal `(x, y)` list of `zmethod.getPoints`
(`sweep 1 (sortByX outl)`).  `zmethod.knees` returns *indices* (`Knee.zKnees`: every selected x is
mapped back with `xs.idxOf x`).  Here the properties are stated for that index list against the
input arrays `xs`, `ys`: for a strictly increasing `xs` (so that `x ↦ idxOf x` is injective on the
curve and `ys[idxOf x]` is the y that was zipped with `x`)

* the returned indices are strictly increasing valid indices of `xs`, `ys` and `zs`,
* the heights `ys[k]` are non-increasing from left to right,
* any two returned knees are at least `w` apart in x and at least `h` apart in y.

No length hypothesis on `ys`/`zs` is needed (`zip` truncates, and the theorems *prove* that the
indices are valid for all three arrays).  `i ⊑ j` style relations are written with `[·]?` and an
existential so that validity of the index is part of the statement.
-/
namespace Knee

/-! ## 1. from a zipped point back to its index -/

/-- on a strictly increasing list, `idxOf` inverts indexing -/
theorem idxOf_getElem_of_strict {xs : List Rat} (hx : xs.Pairwise (· < ·)) (i : Nat)
    (hi : i < xs.length) : xs.idxOf xs[i] = i := by
  have hmem : xs[i] ∈ xs := List.getElem_mem hi
  have hj := List.idxOf_lt_length_of_mem hmem
  have ej : xs[xs.idxOf xs[i]] = xs[i] := List.getElem_idxOf hj
  rw [List.pairwise_iff_getElem] at hx
  rcases Nat.lt_trichotomy (xs.idxOf xs[i]) i with h | h | h
  · have := hx _ _ hj hi h; rw [ej] at this; exact absurd this (Rat.lt_irrefl)
  · exact h
  · have := hx _ _ hi hj h; rw [ej] at this; exact absurd this (Rat.lt_irrefl)

/-- **C10S (index lookup).** For a strictly increasing `xs`, the index `idxOf x` computed by
`knees` for a zipped input point `(x, y, z)` is the position of that point in all three arrays:
`xs[k] = x`, `ys[k] = y`, `zs[k] = z`. -/
theorem zip3_lookup {xs ys zs : List Rat} (hx : xs.Pairwise (· < ·)) {q : P3}
    (hq : q ∈ xs.zip (ys.zip zs)) :
    xs[xs.idxOf q.1]? = some q.1 ∧ ys[xs.idxOf q.1]? = some q.2.1
      ∧ zs[xs.idxOf q.1]? = some q.2.2 := by
  obtain ⟨i, hi, rfl⟩ := List.getElem_of_mem hq
  simp only [List.length_zip] at hi
  have hix : i < xs.length := by omega
  have hiy : i < ys.length := by omega
  have hiz : i < zs.length := by omega
  simp only [List.getElem_zip]
  rw [idxOf_getElem_of_strict hx i hix]
  simp [hix, hiy, hiz]

/-- the structure of the result of `knees`: either empty, or the index image of the swept list,
every entry `p = (x, y)` of which satisfies `xs[idxOf x] = x` and `ys[idxOf x] = y` -/
theorem zKnees_cases {xs ys zs : List Rat} {w h ymin : Rat} {zthr : Nat → Rat} {fuel : Nat}
    {ks : List Nat} (hx : xs.Pairwise (· < ·))
    (hks : zKnees xs ys zs w h ymin zthr fuel = some ks) :
    ks = [] ∨ ∃ outl,
      zLoop w h zthr (minZ (xs.zip (ys.zip zs))) fuel 0 (xs.zip (ys.zip zs)) [] = some outl
      ∧ ks = (sweep 1 (sortByX outl)).map (fun p => xs.idxOf p.1)
      ∧ ∀ p ∈ sweep 1 (sortByX outl),
          xs[xs.idxOf p.1]? = some p.1 ∧ ys[xs.idxOf p.1]? = some p.2
            ∧ ∃ z, zs[xs.idxOf p.1]? = some z := by
  simp only [zKnees, Option.map_eq_some_iff] at hks
  obtain ⟨sel, hsel, rfl⟩ := hks
  rcases zPoints_cases hsel with rfl | ⟨outl, hl, rfl⟩
  · exact Or.inl rfl
  · refine Or.inr ⟨outl, hl, by simp [List.map_map, Function.comp_def], ?_⟩
    intro p hp
    have hp' := sortByX_subset outl p ((sweep_sublist 1 _).subset hp)
    obtain ⟨q, hq, rfl⟩ := zLoop_outl_from_pts _ _ _ _ _ _ _ _ hl p hp'
    have := zip3_lookup hx hq
    exact ⟨this.1, this.2.1, q.2.2, this.2.2⟩

/-! ## 2. validity for all three arrays -/

/-- **C10S (validity).** For a strictly increasing `xs`, every returned knee index is a valid
index of `xs`, of `ys` and of `zs` (whatever their lengths: `zip` truncates to the shortest). -/
theorem zKnees_valid_all {xs ys zs : List Rat} {w h ymin : Rat} {zthr : Nat → Rat} {fuel : Nat}
    {ks : List Nat} (hx : xs.Pairwise (· < ·))
    (hks : zKnees xs ys zs w h ymin zthr fuel = some ks) :
    ∀ k ∈ ks, k < xs.length ∧ k < ys.length ∧ k < zs.length := by
  rcases zKnees_cases hx hks with rfl | ⟨outl, -, rfl, hpt⟩
  · simp
  · intro k hk
    obtain ⟨p, hp, rfl⟩ := List.mem_map.1 hk
    obtain ⟨h1, h2, z, h3⟩ := hpt p hp
    exact ⟨(List.getElem?_eq_some_iff.1 h1).1, (List.getElem?_eq_some_iff.1 h2).1,
      (List.getElem?_eq_some_iff.1 h3).1⟩

/-! ## 3. heights -/

/-- **C10S (heights).** For a strictly increasing `xs`, the heights of the returned knees are
non-increasing from left to right: for any two returned indices `i` before `j`, both are valid
indices of `ys` and `ys[j] ≤ ys[i]`.  (This is the effect of the final `min_mr` sweep of
`getPoints`, read off the *returned indices* and the *input* `y` array.) -/
theorem zKnees_heights {xs ys zs : List Rat} {w h ymin : Rat} {zthr : Nat → Rat} {fuel : Nat}
    {ks : List Nat} (hx : xs.Pairwise (· < ·))
    (hks : zKnees xs ys zs w h ymin zthr fuel = some ks) :
    ks.Pairwise (fun i j => ∃ a b, ys[i]? = some a ∧ ys[j]? = some b ∧ b ≤ a) := by
  rcases zKnees_cases hx hks with rfl | ⟨outl, -, rfl, hpt⟩
  · exact List.Pairwise.nil
  · rw [List.pairwise_map]
    refine (sweep_heights 1 (sortByX outl)).imp_of_mem ?_
    intro p q hp hq hpq
    exact ⟨p.2, q.2, (hpt p hp).2.1, (hpt q hq).2.1, hpq⟩

/-- `getD` form of `zKnees_heights` (the default is never used: the indices are valid) -/
theorem zKnees_heights_getD {xs ys zs : List Rat} {w h ymin : Rat} {zthr : Nat → Rat}
    {fuel : Nat} {ks : List Nat} (hx : xs.Pairwise (· < ·))
    (hks : zKnees xs ys zs w h ymin zthr fuel = some ks) :
    ks.Pairwise (fun i j => ys[j]?.getD 0 ≤ ys[i]?.getD 0) := by
  refine (zKnees_heights hx hks).imp ?_
  rintro i j ⟨a, b, ha, hb, hab⟩
  simpa [ha, hb] using hab

/-- every returned height is at most 1, the initial value of `min_mr` (the curve is normalised
to `[0, 1]` in `knees`) -/
theorem zKnees_height_le_one {xs ys zs : List Rat} {w h ymin : Rat} {zthr : Nat → Rat}
    {fuel : Nat} {ks : List Nat} (hx : xs.Pairwise (· < ·))
    (hks : zKnees xs ys zs w h ymin zthr fuel = some ks) :
    ∀ k ∈ ks, ∃ a, ys[k]? = some a ∧ a ≤ 1 := by
  rcases zKnees_cases hx hks with rfl | ⟨outl, -, rfl, hpt⟩
  · simp
  · intro k hk
    obtain ⟨p, hp, rfl⟩ := List.mem_map.1 hk
    exact ⟨p.2, (hpt p hp).2.1, sweep_le 1 _ p hp⟩

/-! ## 4. separation -/

/-- **C10S (x-separation).** For a strictly increasing `xs`, any two returned knees are at least
`w` apart in x: for returned indices `i` before `j`, `xs[j] - xs[i] ≥ w`. -/
theorem zKnees_x_separated {xs ys zs : List Rat} {w h ymin : Rat} {zthr : Nat → Rat} {fuel : Nat}
    {ks : List Nat} (hx : xs.Pairwise (· < ·))
    (hks : zKnees xs ys zs w h ymin zthr fuel = some ks) :
    ks.Pairwise (fun i j => ∃ a b, xs[i]? = some a ∧ xs[j]? = some b ∧ w ≤ b - a) := by
  rcases zKnees_cases hx hks with rfl | ⟨outl, hl, rfl, hpt⟩
  · exact List.Pairwise.nil
  · rw [List.pairwise_map]
    refine (zLoop_final_separated zthr _ fuel 0 _ outl hl (zip_pairwise_fst xs _ hx)).imp_of_mem ?_
    intro p q hp hq hpq
    exact ⟨p.1, q.1, (hpt p hp).1, (hpt q hq).1, hpq.1⟩

/-- **C10S (y-separation).** For a strictly increasing `xs`, any two returned knees are at least
`h` apart in y, and in the direction of the sweep: for returned indices `i` before `j`,
`ys[i] - ys[j] ≥ h` (with `h ≥ 0` this contains `zKnees_heights`). -/
theorem zKnees_y_separated {xs ys zs : List Rat} {w h ymin : Rat} {zthr : Nat → Rat} {fuel : Nat}
    {ks : List Nat} (hx : xs.Pairwise (· < ·))
    (hks : zKnees xs ys zs w h ymin zthr fuel = some ks) :
    ks.Pairwise (fun i j => ∃ a b, ys[i]? = some a ∧ ys[j]? = some b ∧ h ≤ a - b) := by
  rcases zKnees_cases hx hks with rfl | ⟨outl, hl, rfl, hpt⟩
  · exact List.Pairwise.nil
  · rw [List.pairwise_map]
    refine (zLoop_final_separated zthr _ fuel 0 _ outl hl (zip_pairwise_fst xs _ hx)).imp_of_mem ?_
    intro p q hp hq hpq
    exact ⟨p.2, q.2, (hpt p hp).2.1, (hpt q hq).2.1, hpq.2⟩

/-- transfer of a `Pairwise` statement on a strictly increasing index list to "any two distinct
members", for a symmetric conclusion -/
theorem pairwise_strict_any_two {R S : Nat → Nat → Prop} {ks : List Nat}
    (hs : ks.Pairwise (· < ·)) (hR : ks.Pairwise R) (h1 : ∀ i j, R i j → S i j)
    (h2 : ∀ i j, R i j → S j i) :
    ∀ i ∈ ks, ∀ j ∈ ks, i ≠ j → S i j := by
  induction ks with
  | nil => intro i hi; cases hi
  | cons k ks ih =>
    rw [List.pairwise_cons] at hs hR
    intro i hi j hj hne
    rcases List.mem_cons.1 hi with rfl | hi' <;> rcases List.mem_cons.1 hj with rfl | hj'
    · exact absurd rfl hne
    · exact h1 _ _ (hR.1 j hj')
    · exact h2 _ _ (hR.1 i hi')
    · exact ih hs.2 hR.2 i hi' j hj' hne

/-- **C10S (separation, any two knees).** For a strictly increasing `xs`, any two *distinct*
returned knee indices `i`, `j` (in either order) satisfy `|xs[i] - xs[j]| ≥ w` and
`|ys[i] - ys[j]| ≥ h`. -/
theorem zKnees_separated_abs {xs ys zs : List Rat} {w h ymin : Rat} {zthr : Nat → Rat}
    {fuel : Nat} {ks : List Nat} (hx : xs.Pairwise (· < ·))
    (hks : zKnees xs ys zs w h ymin zthr fuel = some ks) :
    ∀ i ∈ ks, ∀ j ∈ ks, i ≠ j → ∃ xi xj yi yj, xs[i]? = some xi ∧ xs[j]? = some xj
      ∧ ys[i]? = some yi ∧ ys[j]? = some yj
      ∧ w ≤ rabs (xi - xj) ∧ h ≤ rabs (yi - yj) := by
  have hX := zKnees_x_separated hx hks
  have hY := zKnees_y_separated hx hks
  have hH := zKnees_heights hx hks
  have hS := zKnees_strict hx hks
  have hxs := hx
  rw [List.pairwise_iff_getElem] at hxs
  refine pairwise_strict_any_two hS ((hS.and (hX.and (hY.and hH)))) ?_ ?_
  · rintro i j ⟨hij, ⟨a, b, ha, hb, hab⟩, ⟨c, d, hc, hd, hcd⟩, ⟨c', d', hc', hd', hdc⟩⟩
    rw [hc] at hc'; rw [hd] at hd'; cases hc'; cases hd'
    obtain ⟨hi, rfl⟩ := List.getElem?_eq_some_iff.1 ha
    obtain ⟨hj, rfl⟩ := List.getElem?_eq_some_iff.1 hb
    have hlt := hxs i j hi hj hij
    refine ⟨_, _, c, d, ha, hb, hc, hd, ?_, ?_⟩
    · unfold rabs; split <;> grind
    · unfold rabs; split <;> grind
  · rintro i j ⟨hij, ⟨a, b, ha, hb, hab⟩, ⟨c, d, hc, hd, hcd⟩, ⟨c', d', hc', hd', hdc⟩⟩
    rw [hc] at hc'; rw [hd] at hd'; cases hc'; cases hd'
    obtain ⟨hi, rfl⟩ := List.getElem?_eq_some_iff.1 ha
    obtain ⟨hj, rfl⟩ := List.getElem?_eq_some_iff.1 hb
    have hlt := hxs i j hi hj hij
    refine ⟨_, _, d, c, hb, ha, hd, hc, ?_, ?_⟩
    · unfold rabs; split <;> grind
    · unfold rabs; split <;> grind

/-- **C10S (summary).** For a strictly increasing `xs` the list returned by `knees` is a strictly
increasing list of valid indices whose heights are non-increasing and whose members are pairwise
`≥ w` apart in x and `≥ h` apart in y. -/
theorem zKnees_spec {xs ys zs : List Rat} {w h ymin : Rat} {zthr : Nat → Rat} {fuel : Nat}
    {ks : List Nat} (hx : xs.Pairwise (· < ·))
    (hks : zKnees xs ys zs w h ymin zthr fuel = some ks) :
    ks.Pairwise (· < ·)
    ∧ (∀ k ∈ ks, k < xs.length ∧ k < ys.length ∧ k < zs.length)
    ∧ ks.Pairwise (fun i j => ys[j]?.getD 0 ≤ ys[i]?.getD 0)
    ∧ ks.Pairwise (fun i j => w ≤ xs[j]?.getD 0 - xs[i]?.getD 0)
    ∧ ks.Pairwise (fun i j => h ≤ ys[i]?.getD 0 - ys[j]?.getD 0) := by
  refine ⟨zKnees_strict hx hks, zKnees_valid_all hx hks, zKnees_heights_getD hx hks, ?_, ?_⟩
  · refine (zKnees_x_separated hx hks).imp ?_
    rintro i j ⟨a, b, ha, hb, hab⟩
    simpa [ha, hb] using hab
  · refine (zKnees_y_separated hx hks).imp ?_
    rintro i j ⟨a, b, ha, hb, hab⟩
    simpa [ha, hb] using hab

/-! ## 5. the hypothesis `xs` strictly increasing cannot be dropped -/

/-! `knees` maps an x back with `idxOf` = *first* occurrence.  With a repeated x the returned index
can point at a different point than the one that was selected, so the heights read off the input
`ys` at the returned indices are not the heights of the selected points.  Concrete instance
(x = 1 occurs twice; the selected point is the second one, `(1, 3/4)`, the returned index 1 is the
first one, `(1, 1/8)`): the heights at the returned indices are `1, 1/8, 1/2, 1/4, 0`. -/
private def dxs : List Rat := [0, 1, 1, 2, 3, 4]
private def dys : List Rat := [1, 1/8, 3/4, 1/2, 1/4, 0]
private def dzs : List Rat := [0, 0, 4, 0, 4, 0]

/-- **C10S (the hypothesis is needed).** Without strictly increasing `xs`, `zKnees_heights` is
false: on this curve with a repeated x the heights at the returned indices go up (`1/8 < 1/2`). -/
theorem zKnees_heights_needs_strict :
    zKnees dxs dys dzs 1 (1/8) 0 (fun k => 3 - (k : Rat) / 2) 18 = some [0, 1, 3, 4, 5]
    ∧ ¬ ([0, 1, 3, 4, 5] : List Nat).Pairwise (fun i j => dys[j]?.getD 0 ≤ dys[i]?.getD 0) := by
  decide +kernel

/-! Non-vacuity (the C10 example curve; `xs` strictly increasing, all hypotheses hold): the
returned indices, and the x / y values read off the input arrays at these indices. -/
private def exs : List Rat := [0, 1, 2, 3, 4, 5, 6, 7]
private def eys : List Rat := [1, 7/8, 3/4, 1/4, 1/4, 1/8, 0, 0]
private def ezs : List Rat := [0, 1, 7/2, 0, 1/2, 3, -1, 0]
private def ethr (k : Nat) : Rat := 3 - (k : Rat) / 2

example : exs.Pairwise (· < ·) := by decide +kernel
example : zKnees exs eys ezs 2 (1/4) 0 ethr 18 = some [0, 2, 5] := by decide +kernel
/-- heights at the returned indices `1, 3/4, 1/8`: non-increasing, gaps `≥ 1/4`; x gaps `≥ 2` -/
example : ([0, 2, 5] : List Nat).map (fun k => eys[k]?.getD 0) = [1, 3/4, 1/8]
    ∧ ([0, 2, 5] : List Nat).map (fun k => exs[k]?.getD 0) = [0, 2, 5] := by decide +kernel
example : ([0, 2, 5] : List Nat).Pairwise
    (fun i j => ∃ a b, eys[i]? = some a ∧ eys[j]? = some b ∧ b ≤ a) :=
  zKnees_heights (xs := exs) (ks := [0, 2, 5]) (w := 2) (h := 1/4) (ymin := 0) (zthr := ethr) (fuel := 18)
    (zs := ezs) (by decide +kernel) (by decide +kernel)
example : zKnees exs eys ezs 1 (1/8) 0 ethr 18 = some [0, 1, 2, 4, 5, 7] := by decide +kernel
example : ([0, 1, 2, 4, 5, 7] : List Nat).map (fun k => eys[k]?.getD 0)
    = [1, 7/8, 3/4, 1/4, 1/8, 0] := by decide +kernel

end Knee


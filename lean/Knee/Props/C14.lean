import Knee.Model.EvenPoints
import Knee.Model.Pipeline
namespace Knee
theorem stub_C14 : True := trivial
end Knee

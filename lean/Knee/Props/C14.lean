import Knee.Lemmas.EvenPoints
/-!
# C14 — evenly inserted points are valid indices, sorted, and respect the worst-knee filter

Model: `Knee.evenInsert`, `Knee.dedupSort` (`np.unique`), `Knee.addEven`
(postprocessing.add_points_even), `Knee.addEvenKnees` (postprocessing.add_points_even_knees),
`Knee.wideQ` / `Knee.nptsQ` (the exact per-segment decisions, Layer N).
Layer S: `wide i` (segment `i` is wide and tall enough) and `npts i` (number of points to insert
into segment `i`) are oracles; the only contract stated is `0 < npts i` (the Python division
`(right-left)/number_points` is defined; the proofs do not use it, since `npts i = 0` inserts
nothing in the model).  `h k` = height of the point with index `k`, `n` = number
of points of the curve.
-/
namespace Knee

/-! ### 1. the inserted indices -/

/-- exactly `number_points` indices are inserted -/
theorem evenInsert_length (l r k : Nat) : (evenInsert l r k).length = k := by
  simp [evenInsert]

/-- every inserted index lies in the segment `[left, right]` (`_hk` is the Python precondition of
the division; the model's truncating division does not need it) -/
theorem evenInsert_range {l r k : Nat} (hlr : l ≤ r) (_hk : 0 < k) :
    ∀ x ∈ evenInsert l r k, l ≤ x ∧ x ≤ r := by
  intro x hx
  refine ⟨?_, evenInsert_le hlr hx⟩
  rcases mem_evenInsert.1 hx with ⟨j, _, rfl⟩
  exact Nat.le_add_right _ _

/-- the `j`-th inserted index is `left + (j+1)·inc` with `inc = ⌊(right-left)/number_points⌋`:
consecutive inserted indices differ by exactly `inc`. -/
theorem evenInsert_spaced (l r k j : Nat) (hj : j < k) :
    (evenInsert l r k)[j]?.getD 0 = l + (j + 1) * ((r - l) / k) := by
  simp [evenInsert, hj]

/-- consecutive inserted indices differ by exactly `inc` (difference form) -/
theorem evenInsert_step (l r k j : Nat) (hj : j + 1 < k) :
    (evenInsert l r k)[j + 1]?.getD 0 = (evenInsert l r k)[j]?.getD 0 + (r - l) / k := by
  rw [evenInsert_spaced l r k (j + 1) hj, evenInsert_spaced l r k j (by omega)]
  simp only [Nat.add_mul, Nat.one_mul]
  omega

/-! ### 2. `np.unique` -/

/-- `np.unique` returns a strictly increasing (sorted, duplicate-free) list -/
theorem dedupSort_strict (l : List Nat) : (dedupSort l).Pairwise (· < ·) := dedupSort_strict' l

/-- `np.unique` keeps exactly the values of its input -/
theorem mem_dedupSort {x : Nat} {l : List Nat} : x ∈ dedupSort l ↔ x ∈ l := mem_dedupSort'

/-- `np.unique` is the identity on a strictly increasing list -/
theorem dedupSort_of_strict {l : List Nat} (h : l.Pairwise (· < ·)) : dedupSort l = l :=
  dedupSort_of_strict' h

/-! ### 3. `add_points_even_knees` (the knees themselves are the markers) -/

section knees
variable (h : Nat → Rat) (n : Nat) (knees : List Nat) (wide : Nat → Bool) (npts : Nat → Nat)
  (extremes : Bool)

/-- every gap between consecutive markers `0, k₀, …, k_last, n-1` is a valid index interval -/
theorem gaps_valid (hn : 2 ≤ n) (hk : ∀ k ∈ knees, k < n) (hks : knees.Pairwise (· < ·)) :
    ∀ g ∈ gapsOfKnees n knees, g.1 ≤ g.2 ∧ g.2 < n :=
  gapsOfKnees_bounds n knees hn hk hks

/-- The result is a subsequence of the sorted, duplicate-free union of the candidates. -/
theorem addEvenKnees_subset :
    (addEvenKnees h n knees wide npts extremes).Sublist
      (dedupSort (knees ++
        (((List.range (gapsOfKnees n knees).length).filter wide).flatMap fun i =>
          evenInsert ((gapsOfKnees n knees)[i]?.getD (0, 0)).1
            ((gapsOfKnees n knees)[i]?.getD (0, 0)).2 (npts i))
        ++ (if extremes then [0, n - 1] else []))) :=
  worst_sublist h _

/-- Every returned index is a knee, an inserted even point of some wide gap, or — when
`extremes` — one of the two end points. -/
theorem addEvenKnees_mem :
    ∀ x ∈ addEvenKnees h n knees wide npts extremes,
      x ∈ knees ∨
      (∃ i, i < (gapsOfKnees n knees).length ∧ wide i = true ∧
        x ∈ evenInsert ((gapsOfKnees n knees)[i]?.getD (0, 0)).1
          ((gapsOfKnees n knees)[i]?.getD (0, 0)).2 (npts i)) ∨
      (extremes = true ∧ (x = 0 ∨ x = n - 1)) := by
  intro x hx
  have hx' := mem_dedupSort.1 ((addEvenKnees_subset h n knees wide npts extremes).subset hx)
  rcases List.mem_append.1 hx' with hx' | hx'
  · rcases List.mem_append.1 hx' with hx' | hx'
    · exact Or.inl hx'
    · rcases List.mem_flatMap.1 hx' with ⟨i, hi, hxi⟩
      rw [List.mem_filter, List.mem_range] at hi
      exact Or.inr (Or.inl ⟨i, hi.1, hi.2, hxi⟩)
  · cases extremes with
    | false => simp at hx'
    | true =>
      simp only [if_true, List.mem_cons, List.not_mem_nil, or_false] at hx'
      exact Or.inr (Or.inr ⟨rfl, hx'⟩)

/-- **C14 (knees variant, validity).** Every returned index is a valid index of the curve. -/
theorem addEvenKnees_valid (hn : 2 ≤ n) (hk : ∀ k ∈ knees, k < n)
    (hks : knees.Pairwise (· < ·)) (_hnp : ∀ i, 0 < npts i) :
    ∀ x ∈ addEvenKnees h n knees wide npts extremes, x < n := by
  intro x hx
  rcases addEvenKnees_mem h n knees wide npts extremes x hx with hx | ⟨i, hi, _, hxi⟩ | ⟨_, hx⟩
  · exact hk x hx
  · have hg : (gapsOfKnees n knees)[i]?.getD (0, 0) ∈ gapsOfKnees n knees := by
      rw [List.getElem?_eq_getElem hi]; exact List.getElem_mem hi
    have hb := gaps_valid n knees hn hk hks _ hg
    have := evenInsert_le hb.1 hxi
    omega
  · omega

/-- **C14 (knees variant, order).** The result is strictly increasing. -/
theorem addEvenKnees_strict :
    (addEvenKnees h n knees wide npts extremes).Pairwise (· < ·) :=
  (dedupSort_strict _).sublist (addEvenKnees_subset h n knees wide npts extremes)

/-- **C14 (knees variant, heights).** The heights of the result are non-increasing. -/
theorem addEvenKnees_heights :
    (addEvenKnees h n knees wide npts extremes).Pairwise (fun a b => h b ≤ h a) :=
  worst_heights_nonincreasing h _

end knees

/-! ### 4. `add_points_even` (segments of the reduced curve) -/

section reduced
variable (h : Nat → Rat) (n : Nat) (reduced knees : List Nat) (wide : Nat → Bool)
  (npts : Nat → Nat) (extremes : Bool)

/-- With the simplifier's own removed table, both `mapping` calls are look-ups in `reduced`:
the result is the worst-knee filter of the sorted union of the mapped knees, the even points of
every wide segment `reduced[i] … reduced[i+1]`, and (optionally) the two end points. -/
theorem addEven_eq (hred : reduced.Pairwise (· < ·)) (h0 : reduced[0]? = some 0)
    (hkn : knees.Pairwise (· ≤ ·)) (hkb : ∀ k ∈ knees, k < reduced.length) :
    addEven h n reduced (computeRemoved reduced) knees wide npts extremes =
      worstFilter h (dedupSort (knees.map (fun k => reduced[k]?.getD 0) ++
        (((List.range (reduced.length - 1)).filter wide).flatMap fun i =>
          evenInsert (reduced[i]?.getD 0) (reduced[i + 1]?.getD 0) (npts i))
        ++ (if extremes then [0, n - 1] else []))) := by
  unfold addEven
  have hsegs := segs_strict wide (reduced.length - 1)
  have hpos : ∀ p ∈ (((List.range (reduced.length - 1)).filter wide).flatMap fun i => [i, i + 1]),
      p < reduced.length := by
    intro p hp
    rcases List.mem_flatMap.1 hp with ⟨i, hi, hpi⟩
    rw [List.mem_filter, List.mem_range] at hi
    simp only [List.mem_cons, List.not_mem_nil, or_false] at hpi
    omega
  simp only [mapping_computeRemoved reduced knees hred h0 hkn hkb,
    mapping_computeRemoved reduced _ hred h0 (segPositions_mono _ hsegs) hpos,
    pairs_eq npts (fun i => reduced[i]?.getD 0)]

/-- **C14 (reduced variant, validity).** Every returned index is a valid index of the curve. -/
theorem addEven_valid (hred : reduced.Pairwise (· < ·)) (h0 : reduced[0]? = some 0)
    (hrb : ∀ r ∈ reduced, r < n) (hkn : knees.Pairwise (· ≤ ·))
    (hkb : ∀ k ∈ knees, k < reduced.length) (_hnp : ∀ i, 0 < npts i) :
    ∀ x ∈ addEven h n reduced (computeRemoved reduced) knees wide npts extremes, x < n := by
  intro x hx
  rw [addEven_eq h n reduced knees wide npts extremes hred h0 hkn hkb] at hx
  have hx' := mem_dedupSort.1 ((worst_sublist h _).subset hx)
  have hlen : 0 < reduced.length := by
    cases reduced with
    | nil => simp at h0
    | cons _ _ => simp
  have hn : 0 < n := by
    have : (0 : Nat) ∈ reduced := by
      have := getD_mem reduced hlen
      rwa [h0] at this
    exact Nat.lt_of_le_of_lt (Nat.zero_le _) (hrb 0 this)
  rcases List.mem_append.1 hx' with hx' | hx'
  · rcases List.mem_append.1 hx' with hx' | hx'
    · rcases List.mem_map.1 hx' with ⟨k, hk, rfl⟩
      exact hrb _ (getD_mem reduced (hkb k hk))
    · rcases List.mem_flatMap.1 hx' with ⟨i, hi, hxi⟩
      rw [List.mem_filter, List.mem_range] at hi
      have hi1 : i + 1 < reduced.length := by omega
      have hle : reduced[i]?.getD 0 ≤ reduced[i + 1]?.getD 0 :=
        strict_getD_le reduced hred (Nat.le_succ i) hi1
      have hr := hrb _ (getD_mem reduced hi1)
      have := evenInsert_le hle hxi
      omega
  · cases extremes with
    | false => simp at hx'
    | true =>
      simp only [if_true, List.mem_cons, List.not_mem_nil, or_false] at hx'
      omega

/-- **C14 (reduced variant, order).** The result is strictly increasing (no hypothesis). -/
theorem addEven_strict (removed : List (Nat × Nat)) :
    (addEven h n reduced removed knees wide npts extremes).Pairwise (· < ·) :=
  (dedupSort_strict _).sublist (worst_sublist h _)

/-- **C14 (reduced variant, heights).** The heights of the result are non-increasing. -/
theorem addEven_heights (removed : List (Nat × Nat)) :
    (addEven h n reduced removed knees wide npts extremes).Pairwise (fun a b => h b ≤ h a) :=
  worst_heights_nonincreasing h _

end reduced

/-! ### 5. Layer N: the exact decisions are consistent -/

/-- A segment that passes the width test (`normalised width > 2·tx`) gets at least two points:
`ceil(width / (2·tx)) ≥ 2`. -/
theorem nptsQ_ge_two {xl yl xr yr dx dy tx ty : Rat}
    (hw : wideQ xl yl xr yr dx dy tx ty = true) (htx : 0 < tx) (_hdx : 0 < dx) :
    2 ≤ nptsQ xl xr dx tx :=
  nptsQ_ge_two' hw htx

/-! Non-vacuity.  `n = 21`, knees `4, 6, 16`: the gaps are `(0,4), (4,6), (6,16), (16,20)`; gaps 0
(2 points, inc 2: `2, 4`) and 2 (3 points, inc 3: `9, 12, 15`) are wide.  Heights `40 - k`
(decreasing) keep everything; raising point 12 makes the worst-knee filter drop it.  Reduced
variant: `reduced = [0,2,3,12,13,20]`, knees at positions 1 and 4, wide segments 2 (`3…12`, 3 points:
`6, 9, 12`) and 4 (`13…20`, 2 points: `16, 19`). -/
example : evenInsert 3 12 3 = [6, 9, 12] ∧ evenInsert 3 13 3 = [6, 9, 12] := by decide
example : dedupSort [5, 3, 9, 3, 1, 5] = [1, 3, 5, 9] := by decide
example : gapsOfKnees 21 [4, 6, 16] = [(0, 4), (4, 6), (6, 16), (16, 20)] := by decide
example : addEvenKnees (fun k => (((40 : Int) - (k : Int) : Int) : Rat)) 21 [4, 6, 16]
    (fun i => i == 2 || i == 0) (fun i => if i = 2 then 3 else 2) true
    = [0, 2, 4, 6, 9, 12, 15, 16, 20] := by decide +kernel
example : addEvenKnees (fun k => if k = 12 then 100 else (((40 : Int) - (k : Int) : Int) : Rat))
    21 [4, 6, 16] (fun i => i == 2 || i == 0) (fun i => if i = 2 then 3 else 2) false
    = [2, 4, 6, 9, 15, 16] := by decide +kernel
example : addEven (fun k => if k = 12 then 100 else (((40 : Int) - (k : Int) : Int) : Rat)) 21
    [0, 2, 3, 12, 13, 20] (computeRemoved [0, 2, 3, 12, 13, 20]) [1, 4]
    (fun i => i == 2 || i == 4) (fun i => if i = 2 then 3 else 2) true
    = [0, 2, 6, 9, 13, 16, 19, 20] := by decide +kernel
/-- the hypotheses of `addEvenKnees_valid` / `addEven_valid` hold on the examples -/
example : (2 ≤ 21) ∧ (∀ k ∈ [4, 6, 16], k < 21) ∧ ([4, 6, 16] : List Nat).Pairwise (· < ·)
    ∧ ([0, 2, 3, 12, 13, 20] : List Nat).Pairwise (· < ·)
    ∧ ([0, 2, 3, 12, 13, 20] : List Nat)[0]? = some 0
    ∧ (∀ r ∈ [0, 2, 3, 12, 13, 20], r < 21) ∧ ([1, 4] : List Nat).Pairwise (· ≤ ·)
    ∧ (∀ k ∈ [1, 4], k < [0, 2, 3, 12, 13, 20].length) := by decide
example : ∀ i : Nat, 0 < (if i = 2 then 3 else 2) := by intro i; split <;> omega
/-- Layer N: a segment spanning 6/10 of the width with `tx = 1/10` is wide and gets 3 points -/
example : wideQ 2 10 8 4 10 10 (1/10) (1/10) = true ∧ nptsQ 2 8 10 (1/10) = 3 := by
  decide +kernel

end Knee

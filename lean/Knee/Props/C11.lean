import Knee.Lemmas.Cluster
/-!
# C11 — the four 1-D linkage clusterings: labels are contiguous runs obeying the threshold rule

Model: `Knee.linkGo` / `Knee.linkLabels` (the single skeleton behind `single_linkage`,
`complete_linkage`, `centroid_linkage`, `average_linkage` of `clustering.py`), with the linkage
distance as an oracle `dist start i : Rat` (Layer S).  Every theorem of the first block holds for
*every* oracle, hence for each of the four exact distances `distSingle`, `distComplete`,
`distCentroid`, `distAverage` (Layer N) and for any floating-point evaluation of them.
The second block is about Layer N itself: the incremental centroid update is exactly the
arithmetic mean, and the number of clusters is antitone in the threshold for single and complete
linkage.
-/
namespace Knee

/-- **C11 (shape).** One label per point. -/
theorem labels_length (dist : Nat → Nat → Rat) (t : Rat) (n : Nat) :
    (linkLabels dist t n).length = n := by
  rcases Nat.eq_zero_or_pos n with rfl | hn
  · simp [linkLabels]
  · rw [linkLabels_pos dist t hn, List.length_cons, linkGo_length]; omega

/-- **C11 (shape).** The first point is in cluster 0. -/
theorem labels_start_at_zero (dist : Nat → Nat → Rat) (t : Rat) (n : Nat) :
    0 < n → (linkLabels dist t n)[0]? = some 0 := by
  intro hn
  rw [linkLabels_pos dist t hn]; rfl

/-- **C11 (contiguity).** Walking left to right the label stays or increases by exactly one:
clusters are contiguous runs of points, numbered `0, 1, 2, …` without gaps. -/
theorem labels_step (dist : Nat → Nat → Rat) (t : Rat) (n : Nat) :
    ∀ i, i + 1 < n →
      (linkLabels dist t n)[i + 1]?.getD 0 = (linkLabels dist t n)[i]?.getD 0 ∨
      (linkLabels dist t n)[i + 1]?.getD 0 = (linkLabels dist t n)[i]?.getD 0 + 1 := by
  intro i hi
  rw [linkLabels_pos dist t (by omega : 0 < n)]
  exact linkGo_step dist t (n - 1) 1 0 0 i (by omega)

/-- **C11 (contiguity).** Labels are ascending. -/
theorem labels_monotone (dist : Nat → Nat → Rat) (t : Rat) (n : Nat) :
    (linkLabels dist t n).Pairwise (· ≤ ·) := by
  rcases Nat.eq_zero_or_pos n with rfl | hn
  · simp [linkLabels]
  · rw [linkLabels_pos dist t hn]
    obtain ⟨h1, h2⟩ := linkGo_mono dist t (n - 1) 1 0 0
    exact List.pairwise_cons.2 ⟨h1, h2⟩

/-- **C11 (threshold rule).** Point `i ≥ 1` starts a new cluster *exactly when* its linkage
distance to the cluster containing point `i-1` is `≥ t`.  That cluster is identified by its first
member, i.e. the first occurrence `L.idxOf (L[i-1])` of the label of point `i-1`.  Together with
`labels_start_at_zero` and `labels_step` this determines the labelling uniquely. -/
theorem labels_rule (dist : Nat → Nat → Rat) (t : Rat) (n : Nat) :
    ∀ i, 1 ≤ i → i < n →
      let L := linkLabels dist t n
      (L[i]?.getD 0 = L[i - 1]?.getD 0 + 1 ↔ t ≤ dist (L.idxOf (L[i - 1]?.getD 0)) i) := by
  intro i h1 hi
  have h := linkGo_rule dist t (n - 1) 1 0 0 [0] rfl (by simp) (by simp) (by simp) rfl i h1
    (by omega)
  rw [← show linkLabels dist t n = [0] ++ linkGo dist t (n - 1) 1 0 0 from
    linkLabels_pos dist t (by omega : 0 < n)] at h
  exact h

/-- **C11 (monotone count, oracle form).** If the oracle does not depend on the cluster start
(as for single linkage), raising the threshold never increases the number of clusters. -/
theorem count_antitone_of_stateless (dist : Nat → Nat → Rat) (n : Nat)
    (hst : ∀ s s' i, dist s i = dist s' i) (t t' : Rat) (h : t ≤ t') :
    clusterCount (linkLabels dist t' n) ≤ clusterCount (linkLabels dist t n) :=
  clusterCount_antitone_of_antitone_start dist t t' n h
    (fun s s' i _ _ _ => le_of_eq (hst s' s i))

/-- **C11 (monotone count, oracle form).** More generally it suffices that the oracle is antitone
in the cluster start: a cluster that began earlier is at least as far from point `i`. -/
theorem count_antitone_of_antitone_start (dist : Nat → Nat → Rat) (n : Nat)
    (hanti : ∀ s s' i, s ≤ s' → s' ≤ i → i < n → dist s' i ≤ dist s i) (t t' : Rat)
    (h : t ≤ t') :
    clusterCount (linkLabels dist t' n) ≤ clusterCount (linkLabels dist t n) :=
  clusterCount_antitone_of_antitone_start dist t t' n h hanti

/-- **C11 (single linkage).** For any x-coordinates whatsoever, a larger threshold gives at most
as many clusters. -/
theorem single_count_antitone (x : Nat → Rat) (n : Nat) (t t' : Rat) (h : t ≤ t') :
    clusterCount (singleLinkage x n t') ≤ clusterCount (singleLinkage x n t) :=
  count_antitone_of_stateless _ n (fun _ _ _ => rfl) t t' h

/-- **C11 (complete linkage).** For strictly increasing x-coordinates a larger threshold gives at
most as many clusters (greedy-stays-ahead on the cluster starts). -/
theorem complete_count_antitone (x : Nat → Rat) (n : Nat)
    (hx : ∀ i j, i < j → j < n → x i < x j) (t t' : Rat) (h : t ≤ t') :
    clusterCount (completeLinkage x n t') ≤ clusterCount (completeLinkage x n t) :=
  count_antitone_of_antitone_start _ n (distComplete_antitone_start x n hx) t t' h

/-- **C11 (centroid).** The incremental update `center := size/(size+1)·center + 1/(size+1)·xᵢ`
of `centroid_linkage`, after absorbing `k` further points into a cluster begun at `start`, has
size `k+1` and centre *exactly* the arithmetic mean of the members `start … start+k` (in ℚ), which
is what `distCentroid` uses. -/
theorem centroid_is_mean (x : Nat → Rat) (start k : Nat) :
    (centroidInc x start k).2 = k + 1 ∧
      (centroidInc x start k).1 = meanRange x start (start + k + 1) :=
  centroidInc_spec x start k

/-! Non-vacuity: the model computes the expected clusterings on a concrete input with two obvious
groups; the count really drops when the threshold grows; the hypotheses of
`complete_count_antitone` are satisfiable; the centroid update is a genuine mean. -/
example : singleLinkage (fun i => ([0, 1, 2, 10, 11] : List Rat)[i]?.getD 0) 5 (1/2)
    = [0, 0, 0, 1, 1] := by decide +kernel
example : completeLinkage (fun i => ([0, 1, 2, 10, 11] : List Rat)[i]?.getD 0) 5 (1/10)
    = [0, 0, 1, 2, 2] := by decide +kernel
example : clusterCount (completeLinkage (fun i => ([0, 1, 2, 10, 11] : List Rat)[i]?.getD 0) 5 (1/2))
    < clusterCount (completeLinkage (fun i => ([0, 1, 2, 10, 11] : List Rat)[i]?.getD 0) 5 (1/10)) := by
  decide +kernel
example : ∀ i j, i < j → j < 5 →
    (fun i => ([0, 1, 2, 10, 11] : List Rat)[i]?.getD 0) i
      < (fun i => ([0, 1, 2, 10, 11] : List Rat)[i]?.getD 0) j := by
  intro i j hij hj
  have h : ∀ j < 5, ∀ i < j, ([0, 1, 2, 10, 11] : List Rat)[i]?.getD 0
      < ([0, 1, 2, 10, 11] : List Rat)[j]?.getD 0 := by decide +kernel
  exact h j hj i hij
example : centroidInc (fun i => ([0, 1, 2, 10, 11] : List Rat)[i]?.getD 0) 1 2 = (13/3, 3) := by
  decide +kernel

end Knee

import Knee.Model.DetectM
/-! Bridging lemmas for the detector loops and multi-knee. -/
namespace Knee

theorem dfdtLoopM_id (diffs : Nat → List Rat) (n : Nat) : ∀ (f : Nat) (last : Int) (knee cutoff : Nat),
    dfdtLoopM (m := Id) (fun c => pure (diffs c)) n f last knee cutoff = pure (dfdtLoop diffs n f last knee cutoff) := by
  intro f
  induction f with
  | zero => intros; rfl
  | succ f ih =>
    intro last knee cutoff
    simp only [dfdtLoopM, dfdtLoop, pure_bind, ih]
    split <;> rfl

theorem lmethodLoopM_id (errs : Nat → List Rat) (mode : Refinement) (n limit : Nat) :
    ∀ (f : Nat) (last : Int) (cur cutoff : Nat) (done : Bool),
    lmethodLoopM (m := Id) (fun c => pure (errs c)) mode n limit f last cur cutoff done
      = pure (lmethodLoop errs mode n limit f last cur cutoff done) := by
  intro f
  induction f with
  | zero => intros; rfl
  | succ f ih =>
    intro last cur cutoff done
    simp only [lmethodLoopM, lmethodLoop, pure_bind]
    split
    · cases mode <;> simp only [ih]
    · rfl

theorem multiKneeLoopM_id (det : Nat → Nat → Option Nat) (gate : Nat → Nat → Bool) (t2 : Nat) :
    ∀ (f : Nat) (st : List (Nat × Nat)) (acc : List Nat),
    multiKneeLoopM (m := Id) (fun l r => pure (det l r)) (fun l r => pure (gate l r)) t2 f st acc
      = pure (multiKneeLoop det gate t2 f st acc) := by
  intro f
  induction f with
  | zero => intros; rfl
  | succ f ih =>
    intro st acc
    match st with
    | [] => rfl
    | (l, r) :: st' =>
      simp only [multiKneeLoopM, multiKneeLoop, pure_bind]
      by_cases h1 : r - l > t2
      · by_cases h2 : gate l r = true
        · simp only [h1, h2, if_true, and_self]
          cases hd : det l r <;> simp only [ih]
        · simp only [h1, h2, if_true, and_false, if_false, Bool.false_eq_true, ih]
      · simp only [h1, if_false, false_and, ih]

theorem multiKneeM_id (det : Nat → Nat → Option Nat) (gate : Nat → Nat → Bool) (t2 n : Nat) :
    multiKneeM (m := Id) (fun l r => pure (det l r)) (fun l r => pure (gate l r)) t2 n = pure (multiKnee det gate t2 n) := by
  simp only [multiKneeM, multiKnee, multiKneeLoopM_id, pure_bind]

end Knee

import Knee.Model.Cluster
import Mathlib.Tactic.Ring
import Mathlib.Tactic.FieldSimp
import Mathlib.Tactic.Linarith
import Mathlib.Algebra.Order.Field.Basic
/-! Lemmas about the linkage skeleton `linkGo` / `linkLabels` and the exact linkage distances. -/
namespace Knee

/-! ### Shape of `linkGo` -/

theorem linkGo_length (dist : Nat → Nat → Rat) (t : Rat) :
    ∀ fuel i start label, (linkGo dist t fuel i start label).length = fuel := by
  intro fuel
  induction fuel with
  | zero => intros; simp [linkGo]
  | succ f ih => intro i s l; simp only [linkGo]; split <;> simp [ih]

theorem linkLabels_pos (dist : Nat → Nat → Rat) (t : Rat) {n : Nat} (h : 0 < n) :
    linkLabels dist t n = 0 :: linkGo dist t (n - 1) 1 0 0 := by
  simp [linkLabels, Nat.ne_of_gt h]

/-- consecutive entries of `label :: linkGo …` differ by 0 or 1 -/
theorem linkGo_step (dist : Nat → Nat → Rat) (t : Rat) :
    ∀ fuel i start label j, j < fuel →
      (label :: linkGo dist t fuel i start label)[j + 1]?.getD 0
          = (label :: linkGo dist t fuel i start label)[j]?.getD 0 ∨
      (label :: linkGo dist t fuel i start label)[j + 1]?.getD 0
          = (label :: linkGo dist t fuel i start label)[j]?.getD 0 + 1 := by
  intro fuel
  induction fuel with
  | zero => intro i s l j hj; omega
  | succ f ih =>
    intro i s l j hj
    simp only [linkGo]
    split
    · cases j with
      | zero => simp
      | succ j =>
        have := ih (i + 1) i (l + 1) j (by omega)
        simpa using this
    · cases j with
      | zero => simp
      | succ j =>
        have := ih (i + 1) s l j (by omega)
        simpa using this

/-- `linkGo` is ascending and never goes below the current label -/
theorem linkGo_mono (dist : Nat → Nat → Rat) (t : Rat) :
    ∀ fuel i start label,
      (∀ a ∈ linkGo dist t fuel i start label, label ≤ a) ∧
      (linkGo dist t fuel i start label).Pairwise (· ≤ ·) := by
  intro fuel
  induction fuel with
  | zero => intros; simp [linkGo]
  | succ f ih =>
    intro i s l
    simp only [linkGo]
    split
    · obtain ⟨h1, h2⟩ := ih (i + 1) i (l + 1)
      refine ⟨?_, ?_⟩
      · intro a ha
        rcases List.mem_cons.1 ha with rfl | ha
        · omega
        · have := h1 a ha; omega
      · exact List.pairwise_cons.2 ⟨h1, h2⟩
    · obtain ⟨h1, h2⟩ := ih (i + 1) s l
      refine ⟨?_, ?_⟩
      · intro a ha
        rcases List.mem_cons.1 ha with rfl | ha
        · omega
        · exact h1 a ha
      · exact List.pairwise_cons.2 ⟨h1, h2⟩

/-! ### The threshold rule -/

/-- Invariant form of the threshold rule: `pre` is the list of labels already emitted
(`pre.length = i`), its last entry is the current `label`, which is its maximum and whose first
occurrence is at index `start`. -/
theorem linkGo_rule (dist : Nat → Nat → Rat) (t : Rat) :
    ∀ fuel i start label (pre : List Nat),
      pre.length = i → (∀ a ∈ pre, a ≤ label) → label ∈ pre → pre.idxOf label = start →
      pre[i - 1]? = some label →
      ∀ j, i ≤ j → j < i + fuel →
        ((pre ++ linkGo dist t fuel i start label)[j]?.getD 0
            = (pre ++ linkGo dist t fuel i start label)[j - 1]?.getD 0 + 1 ↔
          t ≤ dist ((pre ++ linkGo dist t fuel i start label).idxOf
                ((pre ++ linkGo dist t fuel i start label)[j - 1]?.getD 0)) j) := by
  intro fuel
  induction fuel with
  | zero => intro i s l pre _ _ _ _ _ j h1 h2; omega
  | succ f ih =>
    intro i s l pre hlen hle hmem hidx hlast j hij hj
    have hipos : 0 < i := by
      rw [← hlen]; exact List.length_pos_of_mem hmem
    simp only [linkGo]
    by_cases hd : t ≤ dist s i
    · simp only [if_pos hd]
      by_cases hji : j = i
      · subst hji
        have e1 : (pre ++ (l + 1) :: linkGo dist t f (j + 1) j (l + 1))[j]?.getD 0 = l + 1 := by
          rw [List.getElem?_append_right (by omega)]; simp [hlen]
        have e2 : (pre ++ (l + 1) :: linkGo dist t f (j + 1) j (l + 1))[j - 1]?.getD 0 = l := by
          rw [List.getElem?_append_left (by omega), hlast]; rfl
        rw [e1, e2, List.idxOf_append_of_mem hmem, hidx]
        simp [hd]
      · have hnm : l + 1 ∉ pre := fun h => by have := hle _ h; omega
        have := ih (i + 1) i (l + 1) (pre ++ [l + 1]) (by simp [hlen])
          (by
            intro a ha
            rcases List.mem_append.1 ha with ha | ha
            · have := hle a ha; omega
            · simp at ha; omega)
          (by simp)
          (by rw [List.idxOf_append_of_notMem hnm]; simp [hlen])
          (by rw [List.getElem?_append_right (by omega)]; simp [hlen])
          j (by omega) (by omega)
        simpa [List.append_assoc] using this
    · simp only [if_neg hd]
      by_cases hji : j = i
      · subst hji
        have e1 : (pre ++ l :: linkGo dist t f (j + 1) s l)[j]?.getD 0 = l := by
          rw [List.getElem?_append_right (by omega)]; simp [hlen]
        have e2 : (pre ++ l :: linkGo dist t f (j + 1) s l)[j - 1]?.getD 0 = l := by
          rw [List.getElem?_append_left (by omega), hlast]; rfl
        rw [e1, e2, List.idxOf_append_of_mem hmem, hidx]
        simp [hd]
      · have := ih (i + 1) s l (pre ++ [l]) (by simp [hlen])
          (by
            intro a ha
            rcases List.mem_append.1 ha with ha | ha
            · exact hle a ha
            · simp at ha; omega)
          (by simp)
          (by rw [List.idxOf_append_of_mem hmem]; exact hidx)
          (by rw [List.getElem?_append_right (by omega)]; simp [hlen])
          j (by omega) (by omega)
        simpa [List.append_assoc] using this

/-! ### Cluster count vs. threshold -/

/-- Greedy-stays-ahead.  If the oracle is antitone in the cluster start, then running the skeleton
with a larger threshold `t'` from a state that is "behind" (`l' < l`, or same label and a later
start) ends with a last label that is still behind. -/
theorem linkGo_last_antitone (dist : Nat → Nat → Rat) (t t' : Rat) (n : Nat) (htt : t ≤ t')
    (hanti : ∀ s s' i, s ≤ s' → s' ≤ i → i < n → dist s' i ≤ dist s i) :
    ∀ fuel i s s' l l', i + fuel = n → s ≤ i → s' ≤ i → (l' < l ∨ (l' = l ∧ s ≤ s')) →
      (l' :: linkGo dist t' fuel i s' l').getLast?.getD 0
        ≤ (l :: linkGo dist t fuel i s l).getLast?.getD 0 := by
  intro fuel
  induction fuel with
  | zero => intro i s s' l l' _ _ _ h; simp [linkGo]; omega
  | succ f ih =>
    intro i s s' l l' hn hs hs' hinv
    simp only [linkGo]
    by_cases h' : t' ≤ dist s' i
    · by_cases h : t ≤ dist s i
      · simp only [if_pos h, if_pos h', List.getLast?_cons_cons]
        exact ih (i + 1) i i (l + 1) (l' + 1) (by omega) (by omega) (by omega) (by omega)
      · simp only [if_neg h, if_pos h', List.getLast?_cons_cons]
        have hlt : l' < l := by
          rcases hinv with hlt | ⟨_, hss⟩
          · exact hlt
          · exact absurd (le_trans htt (le_trans h' (hanti s s' i hss hs' (by omega)))) h
        exact ih (i + 1) s i l (l' + 1) (by omega) (by omega) (by omega) (by omega)
    · by_cases h : t ≤ dist s i
      · simp only [if_pos h, if_neg h', List.getLast?_cons_cons]
        exact ih (i + 1) i s' (l + 1) l' (by omega) (by omega) (by omega) (by omega)
      · simp only [if_neg h, if_neg h', List.getLast?_cons_cons]
        exact ih (i + 1) s s' l l' (by omega) (by omega) (by omega) hinv

theorem clusterCount_antitone_of_antitone_start (dist : Nat → Nat → Rat) (t t' : Rat) (n : Nat)
    (htt : t ≤ t')
    (hanti : ∀ s s' i, s ≤ s' → s' ≤ i → i < n → dist s' i ≤ dist s i) :
    clusterCount (linkLabels dist t' n) ≤ clusterCount (linkLabels dist t n) := by
  rcases Nat.eq_zero_or_pos n with rfl | hn
  · simp [linkLabels]
  · rw [linkLabels_pos dist t hn, linkLabels_pos dist t' hn]
    unfold clusterCount
    have := linkGo_last_antitone dist t t' n htt hanti (n - 1) 1 0 0 0 0 (by omega) (by omega)
      (by omega) (by omega)
    omega

/-! ### Layer N -/

theorem sumRange_succ (f : Nat → Rat) (a b : Nat) (h : a ≤ b) :
    sumRange f a (b + 1) = sumRange f a b + f b := by
  unfold sumRange
  have e : b + 1 - a = (b - a) + 1 := by omega
  rw [e, List.range_succ, List.map_append, List.foldl_append]
  have e2 : a + (b - a) = b := by omega
  simp [e2]

theorem centroidInc_spec (x : Nat → Rat) (start : Nat) :
    ∀ k, (centroidInc x start k).2 = k + 1 ∧
      (centroidInc x start k).1 = meanRange x start (start + k + 1) := by
  intro k
  induction k with
  | zero => simp [centroidInc, meanRange, sumRange]
  | succ k ih =>
    obtain ⟨h2, h1⟩ := ih
    generalize hcs : centroidInc x start k = cs at h1 h2
    obtain ⟨c, s⟩ := cs
    simp only at h1 h2
    subst h2
    simp only [centroidInc, hcs]
    refine ⟨trivial, ?_⟩
    have e : start + (k + 1) + 1 = (start + k + 1) + 1 := by omega
    have hk : ((k + 1 : Nat) : Rat) ≠ 0 := by positivity
    have hk2 : ((k + 1 : Nat) : Rat) + 1 ≠ 0 := by positivity
    rw [e, meanRange, sumRange_succ x start (start + k + 1) (by omega), h1, meanRange]
    have e3 : start + k + 1 + 1 - start = (k + 1) + 1 := by omega
    have e4 : start + k + 1 - start = k + 1 := by omega
    rw [e3, e4]
    push_cast
    field_simp

/-- for (weakly) increasing `x` the complete-linkage distance is antitone in the cluster start -/
theorem distComplete_antitone_start (x : Nat → Rat) (n : Nat)
    (hx : ∀ i j, i < j → j < n → x i < x j) :
    ∀ s s' i, s ≤ s' → s' ≤ i → i < n →
      distComplete x (x (n - 1) - x 0) s' i ≤ distComplete x (x (n - 1) - x 0) s i := by
  intro s s' i hss hsi hin
  have hmono : ∀ a b, a ≤ b → b < n → x a ≤ x b := by
    intro a b hab hb
    rcases Nat.eq_or_lt_of_le hab with rfl | hlt
    · exact le_refl _
    · exact le_of_lt (hx a b hlt hb)
  have h1 := hmono s s' hss (by omega)
  have h2 := hmono s' i hsi hin
  have hL : 0 ≤ x (n - 1) - x 0 := by
    have := hmono 0 (n - 1) (by omega) (by omega)
    linarith
  unfold distComplete
  apply div_le_div_of_nonneg_right _ hL
  have r1 : rabs (x i - x s') = x i - x s' := by
    unfold rabs; rw [if_pos (by linarith)]
  have r2 : rabs (x i - x s) = x i - x s := by
    unfold rabs; rw [if_pos (by linarith)]
  rw [r1, r2]; linarith

end Knee

import Knee.Model.Mapping
/-! Helper lemmas for C07 (core tactics only). -/
namespace Knee

theorem getD_cons_succ (a : Nat) (t : List Nat) (k : Nat) :
    (a :: t)[k + 1]?.getD 0 = t[k]?.getD 0 := by
  simp

/-- in a strictly increasing list of naturals, the k-th entry is at least head + k -/
theorem strict_getD_ge : ∀ (s : List Nat) (k : Nat), s.Pairwise (· < ·) → k < s.length →
    s[0]?.getD 0 + k ≤ s[k]?.getD 0 := by
  intro s k
  induction k generalizing s with
  | zero => intro _ _; simp
  | succ k ih =>
    intro hp hk
    match s, hp, hk with
    | [a], _, hk => simp at hk
    | a :: b :: t, hp, hk =>
      have hab : a < b := by
        have := List.rel_of_pairwise_cons hp (List.mem_cons_self)
        exact this
      have hp' : (b :: t).Pairwise (· < ·) := hp.of_cons
      have := ih (b :: t) hp' (by simpa using hk)
      rw [getD_cons_succ]
      simp at this ⊢
      omega

theorem consume_computeRemoved : ∀ (k : Nat) (s : List Nat) (c : Nat), s.Pairwise (· < ·) →
    k < s.length →
    consume (s[k]?.getD 0) (computeRemoved s) c
      = (computeRemoved (s.drop k), c + (s[k]?.getD 0 - s[0]?.getD 0 - k)) := by
  intro k
  induction k with
  | zero =>
    intro s c _ hk
    match s, hk with
    | [a], _ => simp [computeRemoved, consume]
    | a :: b :: t, _ => simp [computeRemoved, consume]
  | succ k ih =>
    intro s c hp hk
    match s, hp, hk with
    | [a], _, hk => simp at hk
    | a :: b :: t, hp, hk =>
      have hp' : (b :: t).Pairwise (· < ·) := hp.of_cons
      have hk' : k < (b :: t).length := by simpa using hk
      have hab : a < b := List.rel_of_pairwise_cons hp (List.mem_cons_self)
      have hge := strict_getD_ge (b :: t) k hp' hk'
      have hlt : a < (a :: b :: t)[k + 1]?.getD 0 := by
        rw [getD_cons_succ]; simp at hge; omega
      rw [computeRemoved, consume, if_pos hlt, getD_cons_succ, ih (b :: t) _ hp' hk']
      simp at hge ⊢
      omega

theorem getD_drop (s : List Nat) (j k : Nat) : (s.drop j)[k]?.getD 0 = s[j + k]?.getD 0 := by
  simp

/-- main invariant of the `for i in indexes` loop -/
theorem mappingAux_computeRemoved (r : List Nat) (hp : r.Pairwise (· < ·)) :
    ∀ (I : List Nat) (j : Nat), j < r.length → I.Pairwise (· ≤ ·) → (∀ i ∈ I, j ≤ i ∧ i < r.length) →
    mappingAux r I (computeRemoved (r.drop j)) (r[j]?.getD 0 - r[0]?.getD 0 - j)
      = I.map (fun i => r[i]?.getD 0 - r[0]?.getD 0) := by
  intro I
  induction I with
  | nil => intros; simp [mappingAux]
  | cons i is ih =>
    intro j hj hI hb
    have ⟨hji, hir⟩ := hb i (List.mem_cons_self)
    have hpd : (r.drop j).Pairwise (· < ·) := hp.sublist (List.drop_sublist j r)
    have hk : i - j < (r.drop j).length := by simp; omega
    have hc := consume_computeRemoved (i - j) (r.drop j) (r[j]?.getD 0 - r[0]?.getD 0 - j) hpd hk
    rw [getD_drop, getD_drop, List.drop_drop] at hc
    have e1 : j + (i - j) = i := by omega
    rw [e1] at hc
    simp only [Nat.add_zero] at hc
    have g1 := strict_getD_ge r j hp hj
    have g2 := strict_getD_ge (r.drop j) (i - j) hpd hk
    rw [getD_drop, getD_drop, e1] at g2
    simp only [Nat.add_zero] at g2
    have ecount : r[j]?.getD 0 - r[0]?.getD 0 - j + (r[i]?.getD 0 - r[j]?.getD 0 - (i - j))
        = r[i]?.getD 0 - r[0]?.getD 0 - i := by omega
    rw [ecount] at hc
    have gi := strict_getD_ge r i hp hir
    simp only [mappingAux, List.map_cons]
    rw [hc]
    simp only
    have hI' : is.Pairwise (· ≤ ·) := hI.of_cons
    have hb' : ∀ i' ∈ is, i ≤ i' ∧ i' < r.length := by
      intro i' hi'
      exact ⟨List.rel_of_pairwise_cons hI hi', (hb i' (List.mem_cons_of_mem _ hi')).2⟩
    rw [ih i hir hI' hb']
    congr 1
    omega

end Knee

namespace Knee

/-! ### `sortRows` restores the table from any row order -/

theorem insertRow_perm (r : Nat × Nat) : ∀ l, (insertRow r l).Perm (r :: l) := by
  intro l
  induction l with
  | nil => simp [insertRow]
  | cons s ss ih =>
    simp only [insertRow]
    split
    · exact List.Perm.refl _
    · exact (List.Perm.cons s ih).trans (List.Perm.swap r s ss)

theorem sortRows_perm : ∀ l, (sortRows l).Perm l := by
  intro l
  induction l with
  | nil => simp [sortRows]
  | cons r rs ih =>
    simp only [sortRows]
    exact (insertRow_perm r _).trans (List.Perm.cons r ih)

theorem insertRow_sorted (r : Nat × Nat) : ∀ l, l.Pairwise (fun a b => a.1 ≤ b.1) →
    (insertRow r l).Pairwise (fun a b => a.1 ≤ b.1) := by
  intro l
  induction l with
  | nil => intro _; simp [insertRow]
  | cons s ss ih =>
    intro hp
    simp only [insertRow]
    split
    · rename_i h
      refine List.Pairwise.cons ?_ hp
      intro b hb
      rcases List.mem_cons.mp hb with rfl | hb
      · exact h
      · exact Nat.le_trans h (List.rel_of_pairwise_cons hp hb)
    · rename_i h
      refine List.Pairwise.cons ?_ (ih hp.of_cons)
      intro b hb
      have := (insertRow_perm r ss).subset hb
      rcases List.mem_cons.mp this with rfl | hb
      · omega
      · exact List.rel_of_pairwise_cons hp hb

theorem sortRows_sorted : ∀ l, (sortRows l).Pairwise (fun a b => a.1 ≤ b.1) := by
  intro l
  induction l with
  | nil => simp [sortRows]
  | cons r rs ih => exact insertRow_sorted r _ ih

/-- the rows of `computeRemoved` have strictly increasing left indices -/
theorem computeRemoved_keys : ∀ (s : List Nat), s.Pairwise (· < ·) →
    (computeRemoved s).Pairwise (fun a b => a.1 < b.1) := by
  intro s
  induction s with
  | nil => intro _; simp [computeRemoved]
  | cons a t ih =>
    intro hp
    match t, hp, ih with
    | [], _, _ => simp [computeRemoved]
    | b :: t', hp, ih =>
      have hp' := hp.of_cons
      have ih' := ih hp'
      simp only [computeRemoved]
      refine List.Pairwise.cons ?_ ih'
      intro x hx
      -- every key of computeRemoved (b :: t') is ≥ b > a
      have hab : a < b := List.rel_of_pairwise_cons hp List.mem_cons_self
      have key : ∀ (u : List Nat) (c : Nat), (c :: u).Pairwise (· < ·) →
          ∀ y ∈ computeRemoved (c :: u), c ≤ y.1 := by
        intro u
        induction u with
        | nil => intro c _ y hy; simp [computeRemoved] at hy
        | cons d u' ihu =>
          intro c hc y hy
          simp only [computeRemoved, List.mem_cons] at hy
          rcases hy with rfl | hy
          · simp
          · have hcd : c < d := List.rel_of_pairwise_cons hc List.mem_cons_self
            have := ihu d hc.of_cons y hy
            omega
      have := key t' b hp' x hx
      simp only
      omega

theorem eq_of_key_eq {l : List (Nat × Nat)} (hl : l.Pairwise (fun a b => a.1 < b.1))
    {a b : Nat × Nat} (ha : a ∈ l) (hb : b ∈ l) (h : a.1 = b.1) : a = b := by
  induction l with
  | nil => simp at ha
  | cons c cs ih =>
    rcases List.mem_cons.mp ha with rfl | ha' <;> rcases List.mem_cons.mp hb with rfl | hb'
    · rfl
    · have := List.rel_of_pairwise_cons hl hb'; omega
    · have := List.rel_of_pairwise_cons hl ha'; omega
    · exact ih hl.of_cons ha' hb'

theorem sortRows_of_perm (s : List Nat) (hs : s.Pairwise (· < ·)) (rows : List (Nat × Nat))
    (hperm : rows.Perm (computeRemoved s)) : sortRows rows = computeRemoved s := by
  have hk := computeRemoved_keys s hs
  have hle : (computeRemoved s).Pairwise (fun a b => a.1 ≤ b.1) :=
    hk.imp (fun h => Nat.le_of_lt h)
  refine List.Perm.eq_of_pairwise (le := fun a b => a.1 ≤ b.1) ?_ (sortRows_sorted rows) hle
    ((sortRows_perm rows).trans hperm)
  intro a b ha hb h1 h2
  have ha' : a ∈ computeRemoved s := hperm.subset ((sortRows_perm rows).subset ha)
  exact eq_of_key_eq hk ha' hb (Nat.le_antisymm h1 h2)

/-- retained + dropped = n: the table accounts for every original index. -/
theorem computeRemoved_total : ∀ (s : List Nat), s.Pairwise (· < ·) → s ≠ [] →
    s.length + ((computeRemoved s).map (·.2)).sum = s.getLast?.getD 0 - s[0]?.getD 0 + 1 := by
  intro s
  induction s with
  | nil => intro _ h; exact absurd rfl h
  | cons a t ih =>
    intro hp _
    match t, hp, ih with
    | [], _, _ => simp [computeRemoved]
    | b :: t', hp, ih =>
      have hab : a < b := List.rel_of_pairwise_cons hp List.mem_cons_self
      have := ih hp.of_cons (by simp)
      have hge := strict_getD_ge (b :: t') t'.length hp.of_cons (by simp)
      have hl : (b :: t').getLast?.getD 0 = (b :: t')[t'.length]?.getD 0 := by
        rw [List.getLast?_eq_getElem?]; simp
      simp only [computeRemoved, List.map_cons, List.sum_cons, List.length_cons,
        List.getLast?_cons_cons] at this ⊢
      rw [hl] at this ⊢
      simp at this hge ⊢
      omega

/-- one row per retained segment -/
theorem computeRemoved_length : ∀ (s : List Nat), (computeRemoved s).length = s.length - 1 := by
  intro s
  induction s with
  | nil => simp [computeRemoved]
  | cons a t ih =>
    cases t with
    | nil => simp [computeRemoved]
    | cons b t' => simp [computeRemoved] at ih ⊢; omega


end Knee

import Knee.Model.Rdp
import Knee.Lemmas.Basic
import Knee.Lemmas.Mapping
import Knee.Lemmas.Rdp
/-!
Invariant of the refinement step shared by `_rdp_fixed` and `_grdp` (C01, C05, C06).
Core tactics only (no Mathlib import needed; `omega`, `simp`, `grind` suffice).
-/
namespace Knee

/-- the index range stored in a stack entry -/
def rng (e : Rat × Nat × Nat) : Nat × Nat := (e.2.1, e.2.2)

/-- half-open ranges `(a, b+1)` of consecutive retained indices `a < b` that still have at least
one interior point, in curve order -/
def gaps : List Nat → List (Nat × Nat)
  | a :: b :: t => if a + 2 ≤ b then (a, b + 1) :: gaps (b :: t) else gaps (b :: t)
  | _ => []

/-- state invariant: `reduced` is a strictly increasing chain from 0 to n-1; the stack holds
*exactly* the retained segments that still have interior points (as a permutation), and is sorted
ascending by key (so the last element = top has a maximal key). -/
structure RInv (n : Nat) (s : RState) : Prop where
  inc : s.reduced.Pairwise (· < ·)
  first : s.reduced[0]? = some 0
  last : s.reduced.getLast? = some (n - 1)
  stk : (s.stack.map rng).Perm (gaps s.reduced)
  srt : s.stack.Pairwise (fun a b => a.1 ≤ b.1)

/-- `while length > 0 and stack` body as a total function -/
def stepOrStop (dst : Nat → Nat → List Rat) (key : Nat → Nat → Nat → Rat × Rat) (s : RState) : RState :=
  if s.stack.isEmpty then s else refineStep dst key s

/-! ### 1. the stable keyed sort -/

theorem insertKeyed_perm (x : Rat × Nat × Nat) (l : List (Rat × Nat × Nat)) :
    (insertKeyed x l).Perm (x :: l) := by
  induction l with
  | nil => exact List.Perm.refl _
  | cons y ys ih =>
    simp only [insertKeyed]
    split
    · exact List.Perm.refl _
    · exact (List.Perm.cons y ih).trans (List.Perm.swap x y ys)

theorem mem_insertKeyed {x y : Rat × Nat × Nat} {l : List (Rat × Nat × Nat)} :
    y ∈ insertKeyed x l ↔ y = x ∨ y ∈ l := by
  rw [(insertKeyed_perm x l).mem_iff, List.mem_cons]

theorem insertKeyed_sorted (x : Rat × Nat × Nat) (l : List (Rat × Nat × Nat))
    (h : l.Pairwise (fun a b => a.1 ≤ b.1)) : (insertKeyed x l).Pairwise (fun a b => a.1 ≤ b.1) := by
  induction l with
  | nil => simp [insertKeyed]
  | cons y ys ih =>
    rw [List.pairwise_cons] at h
    simp only [insertKeyed]
    split
    · rename_i hlt
      refine List.Pairwise.cons ?_ (List.Pairwise.cons h.1 h.2)
      intro z hz
      rcases List.mem_cons.mp hz with rfl | hz
      · grind
      · have := h.1 z hz
        grind
    · rename_i hlt
      refine List.Pairwise.cons ?_ (ih h.2)
      intro z hz
      rcases mem_insertKeyed.mp hz with rfl | hz
      · grind
      · exact h.1 z hz

theorem foldl_insertKeyed_perm (l acc : List (Rat × Nat × Nat)) :
    (l.foldl (fun acc x => insertKeyed x acc) acc).Perm (acc ++ l) := by
  induction l generalizing acc with
  | nil => simp
  | cons x xs ih =>
    simp only [List.foldl_cons]
    refine (ih _).trans ?_
    refine ((insertKeyed_perm x acc).append_right xs).trans ?_
    exact (List.perm_middle (a := x) (l₁ := acc) (l₂ := xs)).symm

theorem foldl_insertKeyed_sorted (l acc : List (Rat × Nat × Nat))
    (h : acc.Pairwise (fun a b => a.1 ≤ b.1)) :
    (l.foldl (fun acc x => insertKeyed x acc) acc).Pairwise (fun a b => a.1 ≤ b.1) := by
  induction l generalizing acc with
  | nil => simpa using h
  | cons x xs ih =>
    simp only [List.foldl_cons]
    exact ih _ (insertKeyed_sorted x acc h)

theorem sortKeyed_perm (l : List (Rat × Nat × Nat)) : (sortKeyed l).Perm l := by
  simpa [sortKeyed] using foldl_insertKeyed_perm l []

theorem sortKeyed_sorted (l : List (Rat × Nat × Nat)) :
    (sortKeyed l).Pairwise (fun a b => a.1 ≤ b.1) :=
  foldl_insertKeyed_sorted l [] List.Pairwise.nil

/-! ### 2. the split index is strictly interior -/

theorem pickSplit_interior {d : List Rat} (h : 3 ≤ d.length) :
    1 ≤ pickSplit d ∧ pickSplit d + 2 ≤ d.length := by
  unfold pickSplit
  split
  · omega
  · exact splitOf_interior h

/-! ### 3. the initial state -/

theorem rinit_inv (n : Nat) (hn : 2 ≤ n) : RInv n (rinit n) := by
  refine ⟨?_, ?_, ?_, ?_, ?_⟩
  · simp [rinit]; omega
  · simp [rinit]
  · simp [rinit]
  · by_cases h : n > 2
    · have e : n - 1 + 1 = n := by omega
      have h2 : 0 + 2 ≤ n - 1 := by omega
      simp [rinit, h, gaps, rng, h2, e]
    · have h2 : ¬ (0 + 2 ≤ n - 1) := by omega
      simp [rinit, h, gaps, h2]
  · unfold rinit
    split <;> simp

/-! ### 4. the refinement step -/

theorem mem_insertSorted {x y : Nat} {l : List Nat} : y ∈ insertSorted x l ↔ y = x ∨ y ∈ l := by
  induction l with
  | nil => simp [insertSorted]
  | cons z zs ih =>
    simp only [insertSorted]
    split
    · simp
    · simp only [List.mem_cons, ih]
      constructor
      · rintro (h | h | h) <;> simp [h]
      · rintro (h | h | h) <;> simp [h]

theorem insertSorted_length (x : Nat) (l : List Nat) : (insertSorted x l).length = l.length + 1 := by
  induction l with
  | nil => simp [insertSorted]
  | cons z zs ih =>
    simp only [insertSorted]
    split <;> simp [ih]

theorem insertSorted_pairwise {x : Nat} {l : List Nat} (h : l.Pairwise (· < ·)) (hx : x ∉ l) :
    (insertSorted x l).Pairwise (· < ·) := by
  induction l with
  | nil => simp [insertSorted]
  | cons z zs ih =>
    rw [List.pairwise_cons] at h
    have hxz : x ≠ z := fun e => hx (by simp [e])
    have hxzs : x ∉ zs := fun e => hx (by simp [e])
    simp only [insertSorted]
    split
    · refine List.Pairwise.cons ?_ (List.Pairwise.cons h.1 h.2)
      intro w hw
      rcases List.mem_cons.mp hw with rfl | hw
      · omega
      · have := h.1 w hw
        omega
    · refine List.Pairwise.cons ?_ (ih h.2 hxzs)
      intro w hw
      rcases mem_insertSorted.mp hw with rfl | hw
      · omega
      · exact h.1 w hw

/-- inserting strictly between two consecutive elements -/
theorem insertSorted_between {x a b : Nat} (A B : List Nat)
    (h : (A ++ a :: b :: B).Pairwise (· < ·)) (hax : a < x) (hxb : x < b) :
    insertSorted x (A ++ a :: b :: B) = A ++ a :: x :: b :: B := by
  induction A with
  | nil =>
    have h1 : ¬ x ≤ a := by omega
    have h2 : x ≤ b := by omega
    simp [insertSorted, h1, h2]
  | cons y A ih =>
    rw [List.cons_append, List.pairwise_cons] at h
    have hy : y < a := h.1 a (by simp)
    have h1 : ¬ x ≤ y := by omega
    simp only [List.cons_append, insertSorted, h1, if_false, ih h.2]

theorem not_mem_between {x a b : Nat} (A B : List Nat)
    (h : (A ++ a :: b :: B).Pairwise (· < ·)) (hax : a < x) (hxb : x < b) :
    x ∉ A ++ a :: b :: B := by
  rw [List.pairwise_append, List.pairwise_cons, List.pairwise_cons] at h
  obtain ⟨_, ⟨_, hb, _⟩, hA⟩ := h
  intro hm
  rcases List.mem_append.mp hm with hm | hm
  · have := hA x hm a (by simp)
    omega
  · rcases List.mem_cons.mp hm with rfl | hm
    · omega
    · rcases List.mem_cons.mp hm with rfl | hm
      · omega
      · have := hb x hm
        omega

theorem gaps_append_cons (A : List Nat) (a : Nat) (rest : List Nat) :
    gaps (A ++ a :: rest) = gaps (A ++ [a]) ++ gaps (a :: rest) := by
  induction A with
  | nil => simp [gaps]
  | cons y A ih =>
    cases A with
    | nil =>
      simp only [List.cons_append, List.nil_append, gaps]
      split <;> simp
    | cons z A =>
      simp only [List.cons_append, gaps] at ih ⊢
      rw [ih]
      split <;> simp

/-- a gap comes from two consecutive retained indices -/
theorem mem_gaps_split {red : List Nat} {a c : Nat} (h : (a, c) ∈ gaps red) :
    ∃ A b B, red = A ++ a :: b :: B ∧ c = b + 1 ∧ a + 2 ≤ b := by
  induction red with
  | nil => simp [gaps] at h
  | cons y t ih =>
    cases t with
    | nil => simp [gaps] at h
    | cons z t =>
      simp only [gaps] at h
      have hrec : (a, c) ∈ gaps (z :: t) → ∃ A b B, y :: z :: t = A ++ a :: b :: B ∧ c = b + 1 ∧ a + 2 ≤ b := by
        intro hm
        obtain ⟨A, b, B, e, hc, hab⟩ := ih hm
        exact ⟨y :: A, b, B, by rw [e]; rfl, hc, hab⟩
      split at h
      · rcases List.mem_cons.mp h with e | hm
        · have e1 : a = y := by simpa using congrArg Prod.fst e
          have e2 : c = z + 1 := by simpa using congrArg Prod.snd e
          subst e1 e2
          exact ⟨[], z, t, rfl, rfl, by assumption⟩
        · exact hrec hm
      · exact hrec h

/-- the new segments produced by splitting `(a, b+1)` at `x` -/
def newGaps (a x b : Nat) : List (Nat × Nat) :=
  (if a + 2 ≤ x then [(a, x + 1)] else []) ++ (if x + 2 ≤ b then [(x, b + 1)] else [])

theorem gaps_between (A B : List Nat) (a x b : Nat) (hab : a + 2 ≤ b) :
    gaps (A ++ a :: b :: B) = gaps (A ++ [a]) ++ (a, b + 1) :: gaps (b :: B) ∧
    gaps (A ++ a :: x :: b :: B) = gaps (A ++ [a]) ++ newGaps a x b ++ gaps (b :: B) := by
  constructor
  · rw [gaps_append_cons]
    simp [gaps, hab]
  · rw [gaps_append_cons]
    simp only [gaps, newGaps]
    split <;> split <;> simp

theorem refineStep_eq (dst : Nat → Nat → List Rat) (key : Nat → Nat → Nat → Rat × Rat) (s : RState)
    {k : Rat} {l r : Nat} (h : s.stack.getLast? = some (k, l, r)) :
    refineStep dst key s =
      { stack := sortKeyed
          (s.stack.dropLast
            ++ (if pickSplit (dst l r) + 1 > 2 then
                  [((key l r (pickSplit (dst l r))).1, l, l + pickSplit (dst l r) + 1)] else [])
            ++ (if (r - l) - pickSplit (dst l r) > 2 then
                  [((key l r (pickSplit (dst l r))).2, l + pickSplit (dst l r), r)] else [])),
        reduced := insertSorted (l + pickSplit (dst l r)) s.reduced } := by
  unfold refineStep
  rw [h]
  simp only
  split <;> split <;> simp

theorem refineStep_spec (dst : Nat → Nat → List Rat) (key : Nat → Nat → Nat → Rat × Rat)
    (hd : ∀ l r, (dst l r).length = r - l) {n : Nat} {s : RState} (h : RInv n s)
    {top : Rat × Nat × Nat} (htop : s.stack.getLast? = some top) :
    RInv n (refineStep dst key s) ∧
    (refineStep dst key s).reduced
      = insertSorted (top.2.1 + pickSplit (dst top.2.1 top.2.2)) s.reduced ∧
    top.2.1 + pickSplit (dst top.2.1 top.2.2) ∉ s.reduced ∧
    top.2.1 < top.2.1 + pickSplit (dst top.2.1 top.2.2) ∧
    top.2.1 + pickSplit (dst top.2.1 top.2.2) + 1 < top.2.2 ∧
    (top.2.1, top.2.2) ∈ gaps s.reduced ∧
    (∀ e ∈ s.stack, e.1 ≤ top.1) ∧
    (refineStep dst key s).reduced.length = s.reduced.length + 1 := by
  obtain ⟨k, l, r⟩ := top
  obtain ⟨st, hst⟩ := List.getLast?_eq_some_iff.mp htop
  have hmem : (l, r) ∈ gaps s.reduced :=
    h.stk.mem_iff.mp (by rw [hst]; simp [rng])
  obtain ⟨A, b, B, hred, hr, hab⟩ := mem_gaps_split hmem
  subst hr
  have hps := pickSplit_interior (d := dst l (b + 1)) (by rw [hd]; omega)
  rw [hd] at hps
  rw [refineStep_eq dst key s htop]
  dsimp only
  generalize pickSplit (dst l (b + 1)) = i at hps
  obtain ⟨stack, reduced⟩ := s
  dsimp only at hst hred hmem htop ⊢
  subst hst hred
  have hinc := h.inc
  dsimp only at hinc
  have hlx : l < l + i := by omega
  have hxb : l + i < b := by omega
  have hnot := not_mem_between A B hinc hlx hxb
  have hins := insertSorted_between A B hinc hlx hxb
  have hlen := insertSorted_length (l + i) (A ++ l :: b :: B)
  have htopmax : ∀ e ∈ st ++ [(k, l, b + 1)], e.1 ≤ k := by
    have hs := h.srt
    dsimp only at hs
    rw [List.pairwise_append] at hs
    intro e he
    rcases List.mem_append.mp he with he | he
    · exact hs.2.2 e he (k, l, b + 1) (by simp)
    · have : e = (k, l, b + 1) := by simpa using he
      subst this
      grind
  refine ⟨?_, rfl, hnot, hlx, by omega, hmem, htopmax, hlen⟩
  refine ⟨?_, ?_, ?_, ?_, ?_⟩
  · exact insertSorted_pairwise hinc hnot
  · have hf := h.first
    dsimp only at hf ⊢
    rw [hins]
    cases A <;> simpa using hf
  · have hl := h.last
    dsimp only at hl ⊢
    rw [hins]
    simpa [List.getLast?_append] using hl
  · have hs := h.stk
    dsimp only at hs ⊢
    rw [hins]
    obtain ⟨g1, g2⟩ := gaps_between A B l (l + i) b hab
    rw [g2]
    rw [g1] at hs
    have hst' : (st.map rng).Perm (gaps (A ++ [l]) ++ gaps (b :: B)) := by
      have e1 : ((st ++ [(k, l, b + 1)]).map rng).Perm ((l, b + 1) :: st.map rng) := by
        simp [rng]
      exact ((e1.symm.trans hs).trans List.perm_middle).cons_inv
    refine ((sortKeyed_perm _).map rng).trans ?_
    have hnew : (((if i + 1 > 2 then [((key l (b + 1) i).1, l, l + i + 1)] else []) ++
        (if b + 1 - l - i > 2 then [((key l (b + 1) i).2, l + i, b + 1)] else [])).map rng)
        = newGaps l (l + i) b := by
      unfold newGaps
      by_cases c1 : i + 1 > 2 <;> by_cases c2 : b + 1 - l - i > 2
      · have c1' : l + 2 ≤ l + i := by omega
        have c2' : l + i + 2 ≤ b := by omega
        simp [c1, c2, c1', c2', rng]
      · have c1' : l + 2 ≤ l + i := by omega
        have c2' : ¬ l + i + 2 ≤ b := by omega
        simp [c1, c2, c1', c2', rng]
      · have c1' : ¬ l + 2 ≤ l + i := by omega
        have c2' : l + i + 2 ≤ b := by omega
        simp [c1, c2, c1', c2', rng]
      · have c1' : ¬ l + 2 ≤ l + i := by omega
        have c2' : ¬ l + i + 2 ≤ b := by omega
        simp [c1, c2, c1', c2']
    rw [List.dropLast_concat, List.append_assoc, List.map_append, hnew]
    refine (hst'.append_right _).trans ?_
    rw [List.append_assoc, List.append_assoc]
    exact List.Perm.append_left _ List.perm_append_comm
  · exact sortKeyed_sorted _

/-! ### 5. counting: the number of retained points and exhaustion of the stack -/

theorem chain_length_gaps (l : List Nat) : ∀ (a : Nat), (a :: l).Pairwise (· < ·) →
    ∃ b, (a :: l).getLast? = some b ∧ a + l.length ≤ b ∧ (gaps (a :: l) = [] ↔ a + l.length = b) := by
  induction l with
  | nil => intro a _; exact ⟨a, rfl, by simp, by simp [gaps]⟩
  | cons c t ih =>
    intro a h
    rw [List.pairwise_cons] at h
    have hac : a < c := h.1 c (by simp)
    obtain ⟨b, hb, hle, hiff⟩ := ih c h.2
    refine ⟨b, by rw [List.getLast?_cons_cons]; exact hb, by simp only [List.length_cons]; omega, ?_⟩
    simp only [gaps, List.length_cons]
    split
    · constructor
      · intro e; simp at e
      · intro e; omega
    · rw [hiff]
      constructor <;> intro e <;> omega

theorem RInv.reduced_facts {n : Nat} {s : RState} (hn : 2 ≤ n) (h : RInv n s) :
    s.reduced.length ≤ n ∧ (gaps s.reduced = [] ↔ s.reduced.length = n) := by
  obtain ⟨stack, reduced⟩ := s
  have hf := h.first
  have hl := h.last
  have hi := h.inc
  dsimp only at hf hl hi ⊢
  cases reduced with
  | nil => simp at hf
  | cons a t =>
    have : a = 0 := by simpa using hf
    subst this
    obtain ⟨b, hb, hle, hiff⟩ := chain_length_gaps t 0 hi
    rw [hl] at hb
    have hb' : n - 1 = b := by simpa using hb
    simp only [List.length_cons]
    refine ⟨by omega, ?_⟩
    rw [hiff]
    constructor <;> intro e <;> omega

theorem RInv.length_le {n : Nat} {s : RState} (hn : 2 ≤ n) (h : RInv n s) : s.reduced.length ≤ n :=
  (h.reduced_facts hn).1

theorem RInv.stack_nil_iff {n : Nat} {s : RState} (hn : 2 ≤ n) (h : RInv n s) :
    s.stack = [] ↔ s.reduced.length = n := by
  rw [← (h.reduced_facts hn).2]
  constructor
  · intro e
    have := h.stk
    rw [e] at this
    simpa using this.symm
  · intro e
    have := h.stk
    rw [e] at this
    simpa using this

/-! ### 6. the loops -/

theorem fixedLoop_succ (dst : Nat → Nat → List Rat) (key : Nat → Nat → Nat → Rat × Rat) (k : Nat)
    (s : RState) : fixedLoop dst key (k + 1) s = stepOrStop dst key (fixedLoop dst key k s) := by
  induction k generalizing s with
  | zero => simp [fixedLoop, stepOrStop]
  | succ k ih =>
    rw [fixedLoop]
    split
    · rename_i he
      simp [fixedLoop, stepOrStop, he]
    · rename_i he
      rw [ih]
      conv => rhs; rw [fixedLoop]
      simp [he]

theorem stepOrStop_spec {dst : Nat → Nat → List Rat} {key : Nat → Nat → Nat → Rat × Rat}
    (hd : ∀ l r, (dst l r).length = r - l) {n : Nat} {s : RState} (hn : 2 ≤ n) (h : RInv n s) :
    RInv n (stepOrStop dst key s) ∧
    (stepOrStop dst key s).reduced.length = min (s.reduced.length + 1) n := by
  have hle := h.length_le hn
  have hiff := h.stack_nil_iff hn
  unfold stepOrStop
  split
  · rename_i he
    have : s.stack = [] := by simpa using he
    exact ⟨h, by have := hiff.mp this; omega⟩
  · rename_i he
    have hne : s.stack ≠ [] := by simpa using he
    have hlen : s.reduced.length ≠ n := fun e => hne (hiff.mpr e)
    have htop : s.stack.getLast? = some (s.stack.getLast hne) := List.getLast?_eq_some_getLast hne
    have hs := refineStep_spec dst key hd h htop
    exact ⟨hs.1, by rw [hs.2.2.2.2.2.2.2]; omega⟩

theorem fixedLoop_inv {dst : Nat → Nat → List Rat} {key : Nat → Nat → Nat → Rat × Rat}
    (hd : ∀ l r, (dst l r).length = r - l) {n : Nat} {s : RState} (hn : 2 ≤ n) (h : RInv n s)
    (k : Nat) : RInv n (fixedLoop dst key k s) := by
  induction k with
  | zero => exact h
  | succ k ih => rw [fixedLoop_succ]; exact (stepOrStop_spec hd hn ih).1

theorem fixedLoop_length {dst : Nat → Nat → List Rat} {key : Nat → Nat → Nat → Rat × Rat}
    (hd : ∀ l r, (dst l r).length = r - l) {n : Nat} {s : RState} (hn : 2 ≤ n) (h : RInv n s)
    (k : Nat) : (fixedLoop dst key k s).reduced.length = min (s.reduced.length + k) n := by
  induction k with
  | zero => have := h.length_le hn; simp only [fixedLoop]; omega
  | succ k ih =>
    rw [fixedLoop_succ, (stepOrStop_spec hd hn (fixedLoop_inv hd hn h k)).2, ih]
    omega

theorem grdpLoop_eq_fixed (accept : List Nat → Bool) (dst : Nat → Nat → List Rat)
    (key : Nat → Nat → Nat → Rat × Rat) (hd : ∀ l r, (dst l r).length = r - l) {n : Nat}
    {s : RState} (hn : 2 ≤ n) (h : RInv n s) (fuel : Nat) (hf : n ≤ s.reduced.length + fuel) :
    ∃ j, j ≤ fuel ∧ grdpLoop accept dst key fuel s = fixedLoop dst key j s ∧
      (accept (fixedLoop dst key j s).reduced = true ∨ (fixedLoop dst key j s).stack = []) ∧
      ∀ j' < j, accept (fixedLoop dst key j' s).reduced = false ∧
        (fixedLoop dst key j' s).stack ≠ [] := by
  induction fuel generalizing s with
  | zero =>
    have hle := h.length_le hn
    have : s.stack = [] := (h.stack_nil_iff hn).mpr (by omega)
    exact ⟨0, Nat.le_refl _, rfl, Or.inr this, by intro j' hj; omega⟩
  | succ f ih =>
    by_cases hstop : (accept s.reduced || s.stack.isEmpty) = true
    · refine ⟨0, by omega, by simp only [grdpLoop, hstop, if_true, fixedLoop], ?_, by intro j' hj; omega⟩
      simp only [fixedLoop]
      simpa using hstop
    · have hacc : accept s.reduced = false := by
        cases ha : accept s.reduced <;> simp [ha] at hstop ⊢
      have hemp : s.stack.isEmpty = false := by
        cases he : s.stack.isEmpty <;> simp [he] at hstop ⊢
      have hne : s.stack ≠ [] := by simpa using hemp
      have hstep : ∀ j, fixedLoop dst key (j + 1) s = fixedLoop dst key j (refineStep dst key s) := by
        intro j; simp [fixedLoop, hemp]
      have htop : s.stack.getLast? = some (s.stack.getLast hne) := List.getLast?_eq_some_getLast hne
      have hs := refineStep_spec dst key hd h htop
      obtain ⟨j, hj, heq, hfin, hbefore⟩ := ih hs.1 (by rw [hs.2.2.2.2.2.2.2]; omega)
      refine ⟨j + 1, by omega, ?_, ?_, ?_⟩
      · rw [hstep, ← heq]
        simp [grdpLoop, hacc, hemp]
      · rw [hstep]; exact hfin
      · intro j' hj'
        cases j' with
        | zero => exact ⟨hacc, hne⟩
        | succ j'' => rw [hstep]; exact hbefore j'' (by omega)

end Knee

import Knee.Model.Basic
import Knee.Model.Rdp
import Knee.Lemmas.Basic
/-! First-extremum specifications of `argmaxIdx` / `argminIdx` (numpy.argmax / argmin). -/
namespace Knee

theorem getD_snoc_lt (pre : List Rat) (x : Rat) (j : Nat) (h : j < pre.length) :
    (pre ++ [x])[j]?.getD 0 = pre[j]?.getD 0 := by
  rw [List.getElem?_append_left h]

theorem getD_snoc_eq (pre : List Rat) (x : Rat) :
    (pre ++ [x])[pre.length]?.getD 0 = x := by
  simp

theorem argmaxGo_spec : ∀ (xs pre : List Rat) (bi : Nat) (bv : Rat),
    bi < pre.length → pre[bi]?.getD 0 = bv →
    (∀ j, j < pre.length → pre[j]?.getD 0 ≤ bv) →
    (∀ j, j < bi → pre[j]?.getD 0 < bv) →
    argmaxGo bi bv pre.length xs < (pre ++ xs).length ∧
    (∀ j, j < (pre ++ xs).length →
      (pre ++ xs)[j]?.getD 0 ≤ (pre ++ xs)[argmaxGo bi bv pre.length xs]?.getD 0) ∧
    (∀ j, j < argmaxGo bi bv pre.length xs →
      (pre ++ xs)[j]?.getD 0 < (pre ++ xs)[argmaxGo bi bv pre.length xs]?.getD 0) := by
  intro xs
  induction xs with
  | nil =>
    intro pre bi bv h1 h2 h3 h4
    simp only [argmaxGo, List.append_nil]
    rw [h2]
    exact ⟨h1, h3, h4⟩
  | cons x xs ih =>
    intro pre bi bv h1 h2 h3 h4
    have hassoc : pre ++ x :: xs = (pre ++ [x]) ++ xs := by simp
    have hlen : (pre ++ [x]).length = pre.length + 1 := by simp
    simp only [argmaxGo]
    rw [hassoc, ← hlen]
    split
    · rename_i hlt
      apply ih (pre ++ [x]) pre.length x
      · omega
      · exact getD_snoc_eq pre x
      · intro j hj
        by_cases hjl : j < pre.length
        · rw [getD_snoc_lt pre x j hjl]
          have := h3 j hjl
          grind
        · have : j = pre.length := by omega
          subst this
          rw [getD_snoc_eq]
          grind
      · intro j hj
        rw [getD_snoc_lt pre x j hj]
        have := h3 j hj
        grind
    · rename_i hlt
      apply ih (pre ++ [x]) bi bv
      · omega
      · rw [getD_snoc_lt pre x bi h1]; exact h2
      · intro j hj
        by_cases hjl : j < pre.length
        · rw [getD_snoc_lt pre x j hjl]
          exact h3 j hjl
        · have : j = pre.length := by omega
          subst this
          rw [getD_snoc_eq]
          grind
      · intro j hj
        rw [getD_snoc_lt pre x j (by omega)]
        exact h4 j hj

theorem argmaxIdx_spec (l : List Rat) (hl : l ≠ []) :
    (∀ j, j < l.length → l[j]?.getD 0 ≤ l[argmaxIdx l]?.getD 0) ∧
    (∀ j, j < argmaxIdx l → l[j]?.getD 0 < l[argmaxIdx l]?.getD 0) := by
  cases l with
  | nil => exact absurd rfl hl
  | cons x xs =>
    have h := argmaxGo_spec xs [x] 0 x (by simp) (by simp)
      (by intro j hj; have : j = 0 := by simpa using hj
          subst this; simp)
      (by intro j hj; omega)
    simp only [List.length_cons, List.length_nil, Nat.zero_add, List.cons_append,
      List.nil_append] at h
    exact ⟨h.2.1, h.2.2⟩

theorem argmaxIdx_ge {l : List Rat} (j : Nat) (hj : j < l.length) :
    l[j]?.getD 0 ≤ l[argmaxIdx l]?.getD 0 := by
  have hl : l ≠ [] := by intro h; subst h; simp at hj
  exact (argmaxIdx_spec l hl).1 j hj

theorem argmaxIdx_first {l : List Rat} (j : Nat) (hj : j < argmaxIdx l) :
    l[j]?.getD 0 < l[argmaxIdx l]?.getD 0 := by
  have hl : l ≠ [] := by intro h; subst h; simp [argmaxIdx] at hj
  exact (argmaxIdx_spec l hl).2 j hj

theorem argminGo_spec : ∀ (xs pre : List Rat) (bi : Nat) (bv : Rat),
    bi < pre.length → pre[bi]?.getD 0 = bv →
    (∀ j, j < pre.length → bv ≤ pre[j]?.getD 0) →
    (∀ j, j < bi → bv < pre[j]?.getD 0) →
    argminGo bi bv pre.length xs < (pre ++ xs).length ∧
    (∀ j, j < (pre ++ xs).length →
      (pre ++ xs)[argminGo bi bv pre.length xs]?.getD 0 ≤ (pre ++ xs)[j]?.getD 0) ∧
    (∀ j, j < argminGo bi bv pre.length xs →
      (pre ++ xs)[argminGo bi bv pre.length xs]?.getD 0 < (pre ++ xs)[j]?.getD 0) := by
  intro xs
  induction xs with
  | nil =>
    intro pre bi bv h1 h2 h3 h4
    simp only [argminGo, List.append_nil]
    rw [h2]
    exact ⟨h1, h3, h4⟩
  | cons x xs ih =>
    intro pre bi bv h1 h2 h3 h4
    have hassoc : pre ++ x :: xs = (pre ++ [x]) ++ xs := by simp
    have hlen : (pre ++ [x]).length = pre.length + 1 := by simp
    simp only [argminGo]
    rw [hassoc, ← hlen]
    split
    · rename_i hlt
      apply ih (pre ++ [x]) pre.length x
      · omega
      · exact getD_snoc_eq pre x
      · intro j hj
        by_cases hjl : j < pre.length
        · rw [getD_snoc_lt pre x j hjl]
          have := h3 j hjl
          grind
        · have : j = pre.length := by omega
          subst this
          rw [getD_snoc_eq]
          grind
      · intro j hj
        rw [getD_snoc_lt pre x j hj]
        have := h3 j hj
        grind
    · rename_i hlt
      apply ih (pre ++ [x]) bi bv
      · omega
      · rw [getD_snoc_lt pre x bi h1]; exact h2
      · intro j hj
        by_cases hjl : j < pre.length
        · rw [getD_snoc_lt pre x j hjl]
          exact h3 j hjl
        · have : j = pre.length := by omega
          subst this
          rw [getD_snoc_eq]
          grind
      · intro j hj
        rw [getD_snoc_lt pre x j (by omega)]
        exact h4 j hj

theorem argminIdx_spec (l : List Rat) (hl : l ≠ []) :
    (∀ j, j < l.length → l[argminIdx l]?.getD 0 ≤ l[j]?.getD 0) ∧
    (∀ j, j < argminIdx l → l[argminIdx l]?.getD 0 < l[j]?.getD 0) := by
  cases l with
  | nil => exact absurd rfl hl
  | cons x xs =>
    have h := argminGo_spec xs [x] 0 x (by simp) (by simp)
      (by intro j hj; have : j = 0 := by simpa using hj
          subst this; simp)
      (by intro j hj; omega)
    simp only [List.length_cons, List.length_nil, Nat.zero_add, List.cons_append,
      List.nil_append] at h
    exact ⟨h.2.1, h.2.2⟩

theorem argminIdx_le {l : List Rat} (j : Nat) (hj : j < l.length) :
    l[argminIdx l]?.getD 0 ≤ l[j]?.getD 0 := by
  have hl : l ≠ [] := by intro h; subst h; simp at hj
  exact (argminIdx_spec l hl).1 j hj

theorem argminIdx_first {l : List Rat} (j : Nat) (hj : j < argminIdx l) :
    l[argminIdx l]?.getD 0 < l[j]?.getD 0 := by
  have hl : l ≠ [] := by intro h; subst h; simp [argminIdx] at hj
  exact (argminIdx_spec l hl).2 j hj

/-- entries of `d[1:-1]` -/
theorem interior_getD (d : List Rat) (k : Nat) (hk : k + 2 < d.length) :
    (interior d)[k]?.getD 0 = d[k + 1]?.getD 0 := by
  unfold interior
  rw [List.getElem?_dropLast]
  simp only [List.length_drop]
  rw [if_pos (by omega), List.getElem?_drop]
  congr 2
  omega

theorem splitOf_max {d : List Rat} (h : 3 ≤ d.length) (j : Nat) (h1 : 1 ≤ j)
    (h2 : j + 1 < d.length) : d[j]?.getD 0 ≤ d[splitOf d]?.getD 0 := by
  have hlen := interior_length d
  have hlt := argmaxIdx_lt_length (interior_ne_nil h)
  have hge := argmaxIdx_ge (l := interior d) (j - 1) (by omega)
  rw [interior_getD d (j - 1) (by omega), interior_getD d _ (by omega)] at hge
  unfold splitOf
  have e1 : j - 1 + 1 = j := by omega
  have e2 : argmaxIdx (interior d) + 1 = 1 + argmaxIdx (interior d) := by omega
  rw [e1, e2] at hge
  exact hge

theorem pickSplit_spec {d : List Rat} (h : 3 ≤ d.length) :
    ((∀ v ∈ d, v < eps) ∧ pickSplit d = d.length / 2) ∨
    (∀ j, 1 ≤ j → j + 1 < d.length → d[j]?.getD 0 ≤ d[pickSplit d]?.getD 0) := by
  unfold pickSplit
  split
  · rename_i hall
    left
    refine ⟨?_, rfl⟩
    intro v hv
    have := List.all_eq_true.mp hall v hv
    exact of_decide_eq_true this
  · right
    intro j h1 h2
    exact splitOf_max h j h1 h2

end Knee

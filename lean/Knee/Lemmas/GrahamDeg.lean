import Mathlib.Tactic.Ring
import Mathlib.Tactic.Linarith
import Mathlib.Tactic.Positivity
import Mathlib.Tactic.FieldSimp
import Knee.Lemmas.Graham
/-!
Helper lemmas for C18H (`graham_scan` on arbitrary sets of distinct points: collinear triples,
several points on one ray from the pivot, all points on one line).

Plan.  As in `Lemmas/Graham.lean` the scan is the counter-clockwise chain scan `popLower` run on the
x-axis reflection of `p0 :: sorted`, but
* the angular order about the pivot is only weak (`0 ≤ ccw o sᵢ sⱼ` for `i < j`), a tie meaning that
  `sⱼ` lies on the ray from the pivot through `sᵢ`, strictly beyond `sᵢ` (`RayExt`);
* the first three points are pushed unconditionally (`dStack` starts from `[2, 1, 0]`), so the
  bottom triple of the stack may be collinear.
-/
namespace Knee

/-! ### points on a common ray from the pivot -/

/-- `y` lies on the ray from `o` through `x`, strictly beyond `x` -/
def RayExt (o x y : P2) : Prop :=
  ∃ t : Rat, 0 < t ∧ y.1 = x.1 + t * (x.1 - o.1) ∧ y.2 = x.2 + t * (x.2 - o.2)

theorem RayExt.spec {o x y : P2} (h : RayExt o x y) : ∃ t : Rat, 0 < t ∧
    (∀ k, ccw o y k = (1 + t) * ccw o x k) ∧ (∀ k, ccw o k y = (1 + t) * ccw o k x) ∧
    (∀ a, ccw a x y = -t * ccw o a x) ∧ (∀ k, ccw x y k = t * ccw o x k) := by
  obtain ⟨t, ht, e1, e2⟩ := h
  refine ⟨t, ht, ?_, ?_, ?_, ?_⟩ <;> intro k <;> unfold ccw <;> rw [e1, e2] <;> ring

/-! ### the chain scan on a weakly angularly sorted sequence -/

section Deg
variable {pt : Nat → P2} {n : Nat}
  (hw : ∀ i j, 1 ≤ i → i < j → j < n → 0 ≤ ccw (pt 0) (pt i) (pt j))
  (hray : ∀ i j, 1 ≤ i → i < j → j < n → ccw (pt 0) (pt i) (pt j) = 0 →
    RayExt (pt 0) (pt i) (pt j))
include hw

/-- weak angular order, including the pivot (index 0) and equal indices -/
theorem wang_le {i j : Nat} (hij : i ≤ j) (hj : j < n) : 0 ≤ ccw (pt 0) (pt i) (pt j) := by
  rcases Nat.eq_zero_or_pos i with rfl | hi
  · rw [ccw_self_left]
  · rcases Nat.lt_or_eq_of_le hij with h | rfl
    · exact hw i j hi h hj
    · rw [ccw_self_right]

include hray

/-- one pop: if every point between the popped vertex `b` and the new point `i` is left of `b → i`
and every earlier point is left of `a → b`, every point from `a` on is left of `a → i` -/
theorem pop_step_d {a b i : Nat} (hab : a < b) (hbi : b < i) (hi : i < n)
    (hc : ccw (pt a) (pt b) (pt i) ≤ 0)
    (hsup : ∀ k, k < i → 0 ≤ ccw (pt a) (pt b) (pt k))
    (ht : ∀ k, b ≤ k → k ≤ i → 0 ≤ ccw (pt b) (pt i) (pt k)) :
    ∀ k, a ≤ k → k ≤ i → 0 ≤ ccw (pt a) (pt i) (pt k) := by
  intro k hak hki
  rcases Nat.eq_zero_or_pos a with rfl | ha1
  · -- the popped vertex sits directly on the pivot: `b` and `i` are on one ray
    have h0 : ccw (pt 0) (pt b) (pt i) = 0 := le_antisymm hc (hw b i hab hbi hi)
    obtain ⟨t, ht0, s1, _, _, _⟩ := (hray b i hab hbi hi h0).spec
    rw [s1]
    rcases Nat.lt_or_eq_of_le hki with h | rfl
    · exact mul_nonneg (by linarith) (hsup k h)
    · rw [h0]; simp
  · have hWab := hw a b ha1 hab (by omega)
    rcases eq_or_lt_of_le hWab with hz | hpos
    · -- `a` and `b` on one ray: then `i` is on it as well
      obtain ⟨t, ht0, _, _, _, s4⟩ := (hray a b ha1 hab (by omega) hz.symm).spec
      have h1 : ccw (pt 0) (pt a) (pt i) ≤ 0 := by
        have := s4 (pt i)
        rw [this] at hc
        by_contra hcon
        have := mul_pos ht0 (not_le.1 hcon)
        linarith
      have h0 : ccw (pt 0) (pt a) (pt i) = 0 := le_antisymm h1 (hw a i ha1 (by omega) hi)
      obtain ⟨t', ht0', _, _, _, s4'⟩ := (hray a i ha1 (by omega) hi h0).spec
      rw [s4']
      exact mul_nonneg (le_of_lt ht0') (wang_le hw hak (by omega))
    · by_cases hkb : k ≤ b
      · exact ccw_pop_left_ang (pt 0) (pt a) (pt b) (pt i) (pt k) hpos (wang_le hw (by omega) hi)
          (wang_le hw hak (by omega)) (hsup k (by omega)) hc
      · have hb1 : 1 ≤ b := by omega
        have hWbi := hw b i hb1 hbi hi
        rcases eq_or_lt_of_le hWbi with hz | hpos'
        · rcases Nat.lt_or_eq_of_le hki with hlt | rfl
          · obtain ⟨t, ht0, _, s2, _, _⟩ := (hray b i hb1 hbi hi hz.symm).spec
            have h1 : ccw (pt 0) (pt k) (pt i) ≤ 0 := by
              rw [s2, ccw_swap]
              have := mul_nonneg (by linarith : (0:Rat) ≤ 1 + t) (wang_le hw (show b ≤ k by omega) (by omega))
              linarith
            have h0 : ccw (pt 0) (pt k) (pt i) = 0 :=
              le_antisymm h1 (hw k i (by omega) hlt hi)
            obtain ⟨t3, ht3, _, _, s3, _⟩ := (hray k i (by omega) hlt hi h0).spec
            rw [ccw_swap, s3]
            have := mul_nonneg (le_of_lt ht3) (wang_le hw hak (by omega))
            linarith
          · rw [ccw_self_right]
        · exact ccw_pop_right_ang (pt 0) (pt a) (pt b) (pt i) (pt k) hpos' (wang_le hw (by omega) hi)
            (wang_le hw hki hi) (ht k (by omega) hki) hc

/-- after the pops: a point before the new top `t` that is left of the edge below `t` is left of
the new edge `t → i` -/
theorem new_edge_before_d {a t i k : Nat} (hat : a < t) (hti : t < i) (hi : i < n) (hk1 : 1 ≤ k)
    (hkt : k < t) (hsup : 0 ≤ ccw (pt a) (pt t) (pt k)) (hturn : 0 < ccw (pt a) (pt t) (pt i)) :
    0 ≤ ccw (pt t) (pt i) (pt k) := by
  have hWkt := hw k t hk1 hkt (by omega)
  rcases eq_or_lt_of_le hWkt with hz | hpos
  · obtain ⟨τ, hτ, _, _, _, s4⟩ := (hray k t hk1 hkt (by omega) hz.symm).spec
    rw [← ccw_rot, s4]
    exact mul_nonneg (le_of_lt hτ) (wang_le hw (by omega) hi)
  · have hWat := wang_le hw (le_of_lt hat) (show t < n by omega)
    rcases eq_or_lt_of_le hWat with hz | hpos'
    · exfalso
      rcases Nat.eq_zero_or_pos a with rfl | ha1
      · rw [ccw_swap] at hsup; linarith
      · obtain ⟨τ, hτ, _, s2, _, s4⟩ := (hray a t ha1 hat (by omega) hz.symm).spec
        rw [s4] at hsup
        have h1 : 0 ≤ ccw (pt 0) (pt a) (pt k) := by
          by_contra hcon
          have := mul_neg_of_pos_of_neg hτ (not_le.1 hcon)
          linarith
        rw [s2, ccw_swap] at hpos
        have := mul_nonneg (by linarith : (0:Rat) ≤ 1 + τ) h1
        linarith
    · exact ccw_prop_right_ang (pt 0) (pt a) (pt t) (pt i) (pt k) hpos' (wang_le hw (by omega) hi)
        (le_of_lt hpos) hsup (le_of_lt hturn)

/-- strict turns except possibly at the bottom triple (the first three points are pushed
unconditionally) -/
def SConvex (pt : Nat → P2) (st : List Nat) : Prop :=
  Adj3 (fun c b a => a ≠ 0 → 0 < ccw (pt a) (pt b) (pt c)) st

/-- a strict turn `a b c` rules out `c` on the ray through `b` -/
theorem strict_turn_ang {a b c : Nat} (hab : a < b) (hbc : b < c) (hc : c < n)
    (hturn : 0 < ccw (pt a) (pt b) (pt c)) : 0 < ccw (pt 0) (pt b) (pt c) := by
  have hb1 : 1 ≤ b := by omega
  rcases eq_or_lt_of_le (hw b c hb1 hbc hc) with hz | hpos
  · exfalso
    obtain ⟨t, ht0, _, _, s3, _⟩ := (hray b c hb1 hbc hc hz.symm).spec
    rw [s3] at hturn
    have := mul_nonneg (le_of_lt ht0) (wang_le hw (le_of_lt hab) (show b < n by omega))
    linarith
  · exact hpos

/-- a new point left of the top edge is left of every edge of the stack -/
theorem above_of_top_d (p : Nat) (hp : p < n) : ∀ (b a : Nat) (rest : List Nat),
    (b :: a :: rest).Pairwise (· > ·) → b < p → SConvex pt (b :: a :: rest) →
    0 ≤ ccw (pt a) (pt b) (pt p) →
    Adj2 (fun b a => 0 ≤ ccw (pt a) (pt b) (pt p)) (b :: a :: rest)
  | b, a, [], _, _, _, h => ⟨h, trivial⟩
  | b, a, a' :: rest, hpw, hb, hc, h => by
    have hab : a < b := (List.pairwise_cons.1 hpw).1 a (by simp)
    have hpw' := (List.pairwise_cons.1 hpw).2
    have ha'a : a' < a := (List.pairwise_cons.1 hpw').1 a' (by simp)
    refine ⟨h, above_of_top_d p hp a a' rest hpw' (by omega) (Adj3.tail hc) ?_⟩
    rcases Nat.eq_zero_or_pos a' with rfl | ha'
    · exact wang_le hw (by omega) hp
    · have hturn := hc.1 (by omega)
      exact ccw_prop_left_ang (pt 0) (pt a') (pt a) (pt b) (pt p) (wang_le hw (by omega) (by omega))
        (strict_turn_ang hw hray ha'a hab (by omega) hturn) (wang_le hw (by omega) hp) h
        (le_of_lt hturn)

/-- the support property carried through the pops before pushing `m + 1` -/
def PopAboveD (pt : Nat → P2) (m : Nat) (st : List Nat) : Prop :=
  st.Pairwise (· > ·) ∧ (∀ x ∈ st, x ≤ m) ∧ AboveL pt m st ∧
    ∃ t rest, st = t :: rest ∧ ∀ k, t ≤ k → k ≤ m + 1 → 0 ≤ ccw (pt t) (pt (m + 1)) (pt k)

theorem popLower_popAboveD (m : Nat) (hm : m + 1 < n) (st : List Nat) (h : PopAboveD pt m st) :
    PopAboveD pt m (popLower pt (m + 1) st) := by
  refine popLower_invariant pt (m + 1) (PopAboveD pt m) ?_ st h
  rintro b a rest hc ⟨hp, hmem, hab, t, rest', hst, ht⟩
  simp only [List.cons.injEq] at hst
  obtain ⟨rfl, rfl⟩ := hst
  have hlt : a < b := (List.pairwise_cons.1 hp).1 a (by simp)
  have hbm : b ≤ m := hmem b (by simp)
  refine ⟨(List.pairwise_cons.1 hp).2, fun x hx' => hmem x (List.mem_cons_of_mem _ hx'),
    Adj2.tail hab, a, rest, rfl, ?_⟩
  exact pop_step_d hw hray hlt (by omega) hm hc (fun k hk => hab.1 k (by omega)) ht

/-- the scan, before the final reversal: the first three points are pushed unconditionally -/
def dStack (pt : Nat → P2) (j : Nat) : List Nat :=
  (List.range j).foldl (fun st k => (k + 3) :: popLower pt (k + 3) st) [2, 1, 0]

theorem aboveL_step_d (m : Nat) (hm : m + 1 < n) (st : List Nat) (hidx : IdxInv m st)
    (hcv : SConvex pt st) (hab : AboveL pt m st) :
    AboveL pt (m + 1) ((m + 1) :: popLower pt (m + 1) st) := by
  have hpi := popLower_popIdx pt (m + 1) st hidx.popIdx
  have hc : SConvex pt (popLower pt (m + 1) st) :=
    popLower_invariant pt (m + 1) (SConvex pt) (fun _ _ _ _ h => Adj3.tail h) st hcv
  have hpa : PopAboveD pt m (popLower pt (m + 1) st) := by
    refine popLower_popAboveD hw hray m hm st ⟨hidx.1, hidx.lt, hab, ?_⟩
    obtain ⟨hp, hh, _, _⟩ := hidx
    match st, hh with
    | t :: rest, hh =>
      simp only [List.head?_cons, Option.some.injEq] at hh
      subst hh
      refine ⟨t, rest, rfl, ?_⟩
      intro k h1 h2
      have : k = t ∨ k = t + 1 := by omega
      rcases this with rfl | rfl
      · rw [ccw_self_mid]
      · rw [ccw_self_right]
  have htop := popLower_top pt (m + 1) st
  revert hpi hc hpa htop
  generalize popLower pt (m + 1) st = r
  rintro ⟨hp, hl, _, hlt⟩ hc ⟨_, hmem, habv, t, rest, rfl, ht⟩ htop
  match rest, hp, hl, hlt, hc, hmem, habv, htop with
  | [], _, hl, _, _, _, _, _ =>
    simp only [List.getLast?_singleton, Option.some.injEq] at hl
    subst hl
    exact ⟨fun k hk => ht k (Nat.zero_le _) hk, trivial⟩
  | a :: rest, hp, _, hlt, hc, hmem, habv, htop =>
    have hturn := htop t a rest rfl
    have hat : a < t := (List.pairwise_cons.1 hp).1 a (by simp)
    have htm : t ≤ m := hmem t (by simp)
    refine ⟨?_, ?_⟩
    · intro k hk
      by_cases hkt : t ≤ k
      · exact ht k hkt hk
      · rcases Nat.eq_zero_or_pos k with rfl | hk1
        · rw [← ccw_rot]
          exact wang_le hw (by omega) hm
        · exact new_edge_before_d hw hray hat (by omega) hm hk1 (by omega) (habv.1 k (by omega)) hturn
    · have hnew := above_of_top_d hw hray (m + 1) hm t a rest hp (by omega) hc (le_of_lt hturn)
      refine Adj2.and ?_ _ habv hnew
      intro b a hold hnew k hk
      rcases Nat.lt_or_eq_of_le hk with h | rfl
      · exact hold k (by omega)
      · exact hnew

omit hw hray in
theorem sConvex_step (i : Nat) (st : List Nat) (h : SConvex pt st) :
    SConvex pt (i :: popLower pt i st) := by
  have hc : SConvex pt (popLower pt i st) :=
    popLower_invariant pt i (SConvex pt) (fun _ _ _ _ h => Adj3.tail h) st h
  match hst : popLower pt i st with
  | [] => trivial
  | [_] => trivial
  | b :: a :: rest =>
    rw [hst] at hc
    exact ⟨fun _ => popLower_top pt i st b a rest hst, hc⟩

omit hw hray in
theorem dStack_succ (pt : Nat → P2) (j : Nat) :
    dStack pt (j + 1) = (j + 3) :: popLower pt (j + 3) (dStack pt j) := by
  simp [dStack, List.range_succ]

theorem dStack_inv (h3 : 3 ≤ n) (j : Nat) (hj : j + 3 ≤ n) :
    IdxInv (j + 2) (dStack pt j) ∧ SConvex pt (dStack pt j) ∧ AboveL pt (j + 2) (dStack pt j) := by
  have := foldl_range_inv (fun st k => (k + 3) :: popLower pt (k + 3) st)
    (fun k st => IdxInv (k + 2) st ∧ SConvex pt st ∧ AboveL pt (k + 2) st) [2, 1, 0] j
    ⟨⟨by simp, by simp, by simp, by simp⟩, ⟨fun h => absurd rfl h, trivial⟩, ?_, ?_, trivial⟩ ?_ j
    (Nat.le_refl _)
  · exact this
  · intro k hk
    have : k = 0 ∨ k = 1 ∨ k = 2 := by omega
    rcases this with rfl | rfl | rfl
    · rw [← ccw_rot]; exact hw 1 2 (by omega) (by omega) (by omega)
    · rw [ccw_self_mid]
    · rw [ccw_self_right]
  · intro k hk
    have : k = 0 ∨ k = 1 ∨ k = 2 := by omega
    rcases this with rfl | rfl | rfl
    · rw [ccw_self_mid]
    · rw [ccw_self_right]
    · exact hw 1 2 (by omega) (by omega) (by omega)
  · rintro k st hk ⟨h1, h2, h3'⟩
    exact ⟨idxInv_step pt (k + 1) st h1, sConvex_step (k + 3) st h2,
      aboveL_step_d hw hray (k + 2) (by omega) st h1 h2 h3'⟩

/-! ### popped points are not extreme -/

/-- the linear functional `d · p` -/
def lin (d p : P2) : Rat := d.1 * p.1 + d.2 * p.2

/-- no linear functional has point `k` as its strict unique maximiser over the sequence -/
def NotExt (pt : Nat → P2) (n k : Nat) : Prop :=
  ∀ d : P2, ¬ ∀ j, j < n → j ≠ k → lin d (pt j) < lin d (pt k)

omit hw hray in
/-- barycentric form of a pop: `b` is a non-negative combination of the pivot, `a` and `i` -/
theorem lin_bary (d o a b i : P2) : ccw o a i * lin d b =
    (-ccw a b i) * lin d o + ccw o b i * lin d a + ccw o a b * lin d i := by
  unfold ccw lin; ring

omit hw hray in
theorem ccw_bary_sum (o a b i : P2) : ccw o a i = (-ccw a b i) + ccw o b i + ccw o a b := by
  unfold ccw; ring

/-- a popped vertex lies in the closed triangle pivot, `a`, `i` (or on the segment pivot–`i`), so
it is not extreme -/
theorem pop_notExt {a b i : Nat} (hab : a < b) (hbi : b < i) (hi : i < n)
    (hc : ccw (pt a) (pt b) (pt i) ≤ 0) : NotExt pt n b := by
  intro d hd
  have fo := hd 0 (by omega) (by omega)
  have fa := hd a (by omega) (by omega)
  have fi := hd i hi (by omega)
  have hb1 : 1 ≤ b := by omega
  rcases eq_or_lt_of_le (hw b i hb1 hbi hi) with hz | hpos
  · obtain ⟨t, ht0, e1, e2⟩ := hray b i hb1 hbi hi hz.symm
    have e : lin d (pt i) = lin d (pt b) + t * (lin d (pt b) - lin d (pt 0)) := by
      unfold lin; rw [e1, e2]; ring
    have := mul_pos ht0 (sub_pos.2 fo)
    linarith
  · have key := lin_bary d (pt 0) (pt a) (pt b) (pt i)
    have hsum := ccw_bary_sum (pt 0) (pt a) (pt b) (pt i)
    have hWab := wang_le hw (le_of_lt hab) (show b < n by omega)
    have h1 : (-ccw (pt a) (pt b) (pt i)) * lin d (pt 0) ≤ (-ccw (pt a) (pt b) (pt i)) * lin d (pt b) :=
      mul_le_mul_of_nonneg_left (le_of_lt fo) (by linarith)
    have h2 : ccw (pt 0) (pt b) (pt i) * lin d (pt a) < ccw (pt 0) (pt b) (pt i) * lin d (pt b) :=
      mul_lt_mul_of_pos_left fa hpos
    have h3 : ccw (pt 0) (pt a) (pt b) * lin d (pt i) ≤ ccw (pt 0) (pt a) (pt b) * lin d (pt b) :=
      mul_le_mul_of_nonneg_left (le_of_lt fi) hWab
    have h4 : ccw (pt 0) (pt a) (pt i) * lin d (pt b) =
        (-ccw (pt a) (pt b) (pt i)) * lin d (pt b) + ccw (pt 0) (pt b) (pt i) * lin d (pt b) +
          ccw (pt 0) (pt a) (pt b) * lin d (pt b) := by rw [hsum]; ring
    linarith

/-- every processed point is on the stack or not extreme -/
def KeepD (pt : Nat → P2) (n m i : Nat) (st : List Nat) : Prop :=
  st.Pairwise (· > ·) ∧ (∀ x ∈ st, x < i) ∧ ∀ k, k ≤ m → k ∈ st ∨ NotExt pt n k

theorem popLower_keepD (m i : Nat) (hi : i < n) (st : List Nat) (h : KeepD pt n m i st) :
    KeepD pt n m i (popLower pt i st) := by
  refine popLower_invariant pt i (KeepD pt n m i) ?_ st h
  rintro b a rest hc ⟨hp, hlt, hk⟩
  have hab : a < b := (List.pairwise_cons.1 hp).1 a (by simp)
  refine ⟨(List.pairwise_cons.1 hp).2, fun x hx => hlt x (List.mem_cons_of_mem _ hx), ?_⟩
  intro k hkm
  rcases hk k hkm with hmem | hne
  · rcases List.mem_cons.1 hmem with rfl | hmem
    · exact Or.inr (pop_notExt hw hray hab (hlt k (by simp)) hi hc)
    · exact Or.inl hmem
  · exact Or.inr hne

theorem dStack_keep (j : Nat) (hj : j + 3 ≤ n) :
    ∀ k, k ≤ j + 2 → k ∈ dStack pt j ∨ NotExt pt n k := by
  have := foldl_range_inv (fun st k => (k + 3) :: popLower pt (k + 3) st)
    (fun k st => KeepD pt n (k + 2) (k + 3) st) [2, 1, 0] j ⟨by simp, by simp, ?_⟩ ?_ j
    (Nat.le_refl _)
  · exact this.2.2
  · intro k hk
    have : k = 0 ∨ k = 1 ∨ k = 2 := by omega
    rcases this with rfl | rfl | rfl <;> simp
  · rintro k st hk ⟨h1, h2, h3⟩
    obtain ⟨p1, p2, p3⟩ := popLower_keepD hw hray (k + 2) (k + 3) (by omega) st ⟨h1, h2, h3⟩
    refine ⟨List.pairwise_cons.2 ⟨fun x hx => p2 x hx, p1⟩, ?_, ?_⟩
    · intro x hx
      rcases List.mem_cons.1 hx with rfl | hx
      · omega
      · have := p2 x hx; omega
    · intro q hq
      rcases Nat.lt_or_eq_of_le hq with h | rfl
      · rcases p3 q (by omega) with h' | h'
        · exact Or.inl (List.mem_cons_of_mem _ h')
        · exact Or.inr h'
      · exact Or.inl (by simp)

end Deg

/-! ### the angular comparator with ties -/

/-- two points of the half-plane of the pivot that are collinear with it are on one ray -/
theorem ray_of_collinear {o x y : P2} (hx : RightOf o x) (hy : RightOf o y) (h : ccw o x y = 0) :
    ∃ s : Rat, 0 < s ∧ y.1 = o.1 + s * (x.1 - o.1) ∧ y.2 = o.2 + s * (x.2 - o.2) := by
  unfold ccw at h
  rcases hx with hx | ⟨hx1, hx2⟩
  · have hxp : 0 < x.1 - o.1 := by linarith
    have hxne : x.1 - o.1 ≠ 0 := ne_of_gt hxp
    rcases hy with hy | ⟨hy1, hy2⟩
    · refine ⟨(y.1 - o.1) / (x.1 - o.1), div_pos (by linarith) hxp, ?_, ?_⟩
      · field_simp; ring
      · field_simp; linarith
    · exfalso
      rw [← hy1] at h
      have : 0 < (x.1 - o.1) * (y.2 - o.2) := mul_pos hxp (by linarith)
      simp at h
      rcases h with h | h <;> linarith
  · have hxp : 0 < x.2 - o.2 := by linarith
    have hxne : x.2 - o.2 ≠ 0 := ne_of_gt hxp
    have hy1 : y.1 = o.1 := by
      rw [← hx1] at h
      simp at h
      rcases h with h | h <;> linarith
    rcases hy with hy | ⟨_, hy2⟩
    · linarith
    · refine ⟨(y.2 - o.2) / (x.2 - o.2), div_pos (by linarith) hxp, ?_, ?_⟩
      · rw [hy1, ← hx1]; ring
      · field_simp; ring

theorem angBefore_iff' (p0 a b : P2) : angBefore p0 a b = true ↔
    ccw p0 a b < 0 ∨ (ccw p0 a b = 0 ∧ normSq (sub a p0) ≤ normSq (sub b p0)) := by
  unfold angBefore
  by_cases h : ccw p0 a b = 0
  · simp [h]
  · simp [h]

/-- the comparator is total -/
theorem angBefore_total (p0 a b : P2) (h : ¬ angBefore p0 b a = true) : angBefore p0 a b = true := by
  rw [angBefore_iff'] at h ⊢
  rw [ccw_swap p0 b a]
  by_cases h0 : ccw p0 b a = 0
  · right
    rw [h0]
    refine ⟨by simp, ?_⟩
    by_contra hc
    exact h (Or.inr ⟨h0, le_of_lt (not_le.1 hc)⟩)
  · left
    rcases lt_or_gt_of_ne h0 with h1 | h1
    · exact absurd (Or.inl h1) h
    · linarith

theorem normSq_ray {o x y : P2} {s : Rat} (e1 : y.1 = o.1 + s * (x.1 - o.1))
    (e2 : y.2 = o.2 + s * (x.2 - o.2)) : normSq (sub y o) = s * s * normSq (sub x o) := by
  unfold normSq dot sub
  simp only
  rw [e1, e2]; ring

/-- on the half-plane of the pivot the comparator is transitive -/
theorem angBefore_trans (p0 a b c : P2) (ha : RightOf p0 a) (hb : RightOf p0 b) (hc : RightOf p0 c)
    (h1 : angBefore p0 a b = true) (h2 : angBefore p0 b c = true) : angBefore p0 a c = true := by
  rw [angBefore_iff'] at h1 h2 ⊢
  rcases h1 with h1 | ⟨h1, n1⟩ <;> rcases h2 with h2 | ⟨h2, n2⟩
  · exact Or.inl (ang_trans p0 a b c ha hb hc h1 h2)
  · obtain ⟨s, hs, e1, e2⟩ := ray_of_collinear hb hc h2
    left
    have : ccw p0 a c = s * ccw p0 a b := by unfold ccw; rw [e1, e2]; ring
    rw [this]
    exact mul_neg_of_pos_of_neg hs h1
  · obtain ⟨s, hs, e1, e2⟩ := ray_of_collinear ha hb h1
    left
    have : ccw p0 b c = s * ccw p0 a c := by unfold ccw; rw [e1, e2]; ring
    rw [this] at h2
    by_contra hcon
    have := mul_nonneg (le_of_lt hs) (not_lt.1 hcon)
    linarith
  · obtain ⟨s, hs, e1, e2⟩ := ray_of_collinear ha hb h1
    obtain ⟨s', hs', e1', e2'⟩ := ray_of_collinear hb hc h2
    right
    refine ⟨?_, le_trans n1 n2⟩
    unfold ccw; rw [e1', e2', e1, e2]; ring

/-- `a` sorts before `b` -/
def AngLe (p0 : P2) (a b : P2 × Nat) : Prop := angBefore p0 a.1 b.1 = true

theorem insertAng_sorted (p0 : P2) (x : P2 × Nat) (hx : RightOf p0 x.1) : ∀ l : List (P2 × Nat),
    l.Pairwise (AngLe p0) → (∀ q ∈ l, RightOf p0 q.1) → (insertAng p0 x l).Pairwise (AngLe p0)
  | [], _, _ => by simp [insertAng]
  | y :: ys, hp, hr => by
    have hpy := List.pairwise_cons.1 hp
    rw [insertAng]
    split
    · rename_i hb
      refine List.pairwise_cons.2 ⟨?_, insertAng_sorted p0 x hx ys hpy.2
        (fun q hq => hr q (List.mem_cons_of_mem _ hq))⟩
      intro z hz
      rcases List.mem_cons.1 ((insertAng_perm p0 x ys).mem_iff.1 hz) with rfl | hz
      · exact hb
      · exact hpy.1 z hz
    · rename_i hb
      have hxy : AngLe p0 x y := angBefore_total p0 x.1 y.1 hb
      refine List.pairwise_cons.2 ⟨?_, hp⟩
      intro z hz
      rcases List.mem_cons.1 hz with rfl | hz
      · exact hxy
      · exact angBefore_trans p0 x.1 y.1 z.1 hx (hr y (by simp)) (hr z (List.mem_cons_of_mem _ hz)) hxy
          (hpy.1 z hz)

theorem sortAng_foldl_sorted (p0 : P2) : ∀ (l acc : List (P2 × Nat)),
    acc.Pairwise (AngLe p0) → (∀ q ∈ acc, RightOf p0 q.1) → (∀ q ∈ l, RightOf p0 q.1) →
    (l.foldl (fun acc x => insertAng p0 x acc) acc).Pairwise (AngLe p0)
  | [], acc, h, _, _ => by simpa using h
  | x :: l, acc, hp, hra, hrl => by
    rw [List.foldl_cons]
    refine sortAng_foldl_sorted p0 l (insertAng p0 x acc)
      (insertAng_sorted p0 x (hrl x (by simp)) acc hp hra) ?_
      (fun q hq => hrl q (List.mem_cons_of_mem _ hq))
    intro q hq
    rcases List.mem_cons.1 ((insertAng_perm p0 x acc).mem_iff.1 hq) with rfl | hq
    · exact hrl _ (by simp)
    · exact hra q hq

/-- **sorted (with ties).** On the half-plane of the pivot the angular sort returns a list sorted
by the comparator (clockwise first, collinear with the pivot: nearer first). -/
theorem sortAng_sorted_le (p0 : P2) (l : List (P2 × Nat)) (hr : ∀ q ∈ l, RightOf p0 q.1) :
    (sortAng p0 l).Pairwise (AngLe p0) :=
  sortAng_foldl_sorted p0 l [] List.Pairwise.nil (by simp) hr

/-- a tie between two distinct points sorted in this order: the second is on the ray through the
first, strictly beyond it -/
theorem rayExt_of_tie {o x y : P2} (hx : RightOf o x) (hy : RightOf o y) (hne : x ≠ y)
    (hb : angBefore o x y = true) (h : ccw o x y = 0) : RayExt o x y := by
  rw [angBefore_iff'] at hb
  rcases hb with hb | ⟨_, hn⟩
  · rw [h] at hb; exact absurd hb (lt_irrefl _)
  obtain ⟨s, hs, e1, e2⟩ := ray_of_collinear hx hy h
  rw [normSq_ray e1 e2] at hn
  have hN : 0 < normSq (sub x o) := by
    unfold normSq dot sub
    simp only
    rcases hx with hx | ⟨_, hx⟩
    · have : 0 < (x.1 - o.1) * (x.1 - o.1) := mul_pos (by linarith) (by linarith)
      have := mul_self_nonneg (x.2 - o.2)
      linarith
    · have : 0 < (x.2 - o.2) * (x.2 - o.2) := mul_pos (by linarith) (by linarith)
      have := mul_self_nonneg (x.1 - o.1)
      linarith
  have hs1 : 1 ≤ s := by
    by_contra hcon
    have hlt : s < 1 := not_le.1 hcon
    have : s * s < 1 := by nlinarith
    have := mul_lt_mul_of_pos_right this hN
    linarith
  have hs1' : s ≠ 1 := by
    rintro rfl
    apply hne
    refine Prod.ext ?_ ?_
    · rw [e1]; ring
    · rw [e2]; ring
  have : 1 < s := lt_of_le_of_ne hs1 (Ne.symm hs1')
  refine ⟨s - 1, by linarith, ?_, ?_⟩
  · rw [e1]; ring
  · rw [e2]; ring

/-! ### `grahamScan` = the chain scan `dStack` on the reflected scan sequence -/

/-- the chain scan with the first three points pushed unconditionally -/
def hullD (pt : Nat → P2) (n : Nat) : List Nat := (dStack pt (n - 3)).reverse

section DegPos
variable {pt : Nat → P2} {n : Nat}
  (hw : ∀ i j, 1 ≤ i → i < j → j < n → 0 ≤ ccw (pt 0) (pt i) (pt j))
  (hray : ∀ i j, 1 ≤ i → i < j → j < n → ccw (pt 0) (pt i) (pt j) = 0 →
    RayExt (pt 0) (pt i) (pt j))
  (h3 : 3 ≤ n)
include hw hray h3

theorem hullD_indices :
    (hullD pt n).Pairwise (· < ·) ∧ (hullD pt n).head? = some 0 ∧
      (hullD pt n).getLast? = some (n - 1) ∧ (∀ k ∈ hullD pt n, k < n) ∧ 2 ≤ (hullD pt n).length := by
  have h := (dStack_inv hw hray h3 (n - 3) (by omega)).1
  have e : n - 3 + 2 = n - 1 := by omega
  rw [e] at h
  obtain ⟨hp, hh, hl, h2⟩ := h
  refine ⟨List.pairwise_reverse.2 hp, ?_, ?_, ?_, ?_⟩
  · show (dStack pt (n - 3)).reverse.head? = _
    rw [List.head?_reverse, hl]
  · show (dStack pt (n - 3)).reverse.getLast? = _
    rw [List.getLast?_reverse, hh]
  · intro k hk
    have hk' : k ∈ dStack pt (n - 3) := List.mem_reverse.1 hk
    have := IdxInv.lt ⟨hp, hh, hl, h2⟩ k hk'
    omega
  · show 2 ≤ (dStack pt (n - 3)).reverse.length
    rw [List.length_reverse]; exact h2

theorem hullD_mem_lt (i : Nat) (hi : i < (hullD pt n).length) : (hullD pt n)[i]?.getD 0 < n := by
  refine (hullD_indices hw hray h3).2.2.2.1 _ ?_
  rw [List.getElem?_eq_getElem hi, Option.getD_some]
  exact List.getElem_mem hi

/-- every point of the sequence is on or left of every edge of the chain -/
theorem hullD_supports : ∀ k, k < n → ∀ i, i + 1 < (hullD pt n).length →
    0 ≤ ccw (pt ((hullD pt n)[i]?.getD 0)) (pt ((hullD pt n)[i + 1]?.getD 0)) (pt k) := by
  intro k hk i hi
  have h := (dStack_inv hw hray h3 (n - 3) (by omega)).2.2
  exact Adj2.reverse_getD (R := fun b a => ∀ k, k ≤ n - 3 + 2 → 0 ≤ ccw (pt a) (pt b) (pt k)) _
    h i hi k (by omega)

omit hray h3 in
/-- … and of the closing edge from the last point back to the pivot -/
theorem hullD_closing : ∀ k, k < n → 0 ≤ ccw (pt (n - 1)) (pt 0) (pt k) := by
  intro k hk
  rw [ccw_rot]
  exact wang_le hw (show k ≤ n - 1 by omega) (by omega)

/-- every point of the sequence is a chain vertex or not extreme -/
theorem hullD_keep : ∀ k, k < n → k ∈ hullD pt n ∨ NotExt pt n k := by
  intro k hk
  rcases dStack_keep hw hray (n - 3) (by omega) k (by omega) with h | h
  · exact Or.inl (List.mem_reverse.2 h)
  · exact Or.inr h

end DegPos

theorem graham_fold_map_d (a b c : P2 × Nat) (more : List (P2 × Nat)) : ∀ j, j ≤ more.length →
    (more.take j).foldl (fun st p => p :: popGraham p.1 st) [c, b, a] =
      (dStack (gPt (a :: b :: c :: more)) j).map (gAt (a :: b :: c :: more))
  | 0, _ => by simp [dStack, gAt]
  | j + 1, hj => by
    have ih := graham_fold_map_d a b c more j (by omega)
    have hj' : j < more.length := by omega
    have hg : gAt (a :: b :: c :: more) (j + 3) = more[j] := by simp [gAt, hj']
    rw [List.take_add_one, List.foldl_append, ih, List.getElem?_eq_getElem hj']
    simp only [Option.toList_some, List.foldl_cons, List.foldl_nil]
    rw [dStack_succ, List.map_cons, ← hg, popGraham_map]

theorem grahamCore_eq_d (L : List (P2 × Nat)) (h3 : 3 ≤ L.length) :
    grahamCore L = (hullD (gPt L) L.length).map (fun k => (gAt L k).2) := by
  match L, h3 with
  | a :: b :: c :: more, _ =>
    have := graham_fold_map_d a b c more more.length (Nat.le_refl _)
    rw [List.take_length] at this
    rw [grahamCore, this, hullD]
    simp [List.map_reverse]

/-- the facts about the scan sequence `L = p0 :: sorted` that the C18H theorems need -/
structure GrahamSeqD (pts : List P2) (L : List (P2 × Nat)) : Prop where
  perm : L.Perm (pts.zip (List.range pts.length))
  lexmin : ∀ q ∈ pts.zip (List.range pts.length), LexLe (gAt L 0).1 q.1
  hw : ∀ i j, 1 ≤ i → i < j → j < L.length → 0 ≤ ccw (gPt L 0) (gPt L i) (gPt L j)
  hray : ∀ i j, 1 ≤ i → i < j → j < L.length → ccw (gPt L 0) (gPt L i) (gPt L j) = 0 →
    RayExt (gPt L 0) (gPt L i) (gPt L j)
  eq : grahamScan pts = (hullD (gPt L) L.length).map (fun k => (gAt L k).2)

theorem rayExt_reflect {o x y : P2} (h : RayExt o x y) :
    RayExt (o.1, -o.2) (x.1, -x.2) (y.1, -y.2) := by
  obtain ⟨t, ht, e1, e2⟩ := h
  exact ⟨t, ht, e1, by simp only; rw [e2]; ring⟩

theorem grahamScan_struct_d (pts : List P2) (hnd : pts.Nodup) (h3 : 3 ≤ pts.length) :
    ∃ L, GrahamSeqD pts L := by
  have hlen : (pts.zip (List.range pts.length)).length = pts.length := by simp
  cases hp0 : lexMin (pts.zip (List.range pts.length)) with
  | none =>
    have := lexMin_eq_none _ hp0
    rw [this] at hlen
    simp at hlen
    omega
  | some p0 =>
    have h0 := lexMin_mem _ _ hp0
    have hle := lexMin_le _ _ hp0
    have hperm := ip_perm_rest h0
    have hrest : ∀ q, q ∈ (pts.zip (List.range pts.length)).filter (fun q => q.2 ≠ p0.2) →
        q ∈ pts.zip (List.range pts.length) ∧ q.2 ≠ p0.2 := by
      intro q hq
      have := List.mem_filter.1 hq
      exact ⟨this.1, by simpa using this.2⟩
    have hrnd : ((pts.zip (List.range pts.length)).filter (fun q => q.2 ≠ p0.2)).Nodup :=
      (ip_nodup pts).sublist List.filter_sublist
    generalize hr : (pts.zip (List.range pts.length)).filter (fun q => q.2 ≠ p0.2) = rest
      at hperm hrest hrnd
    have h0' := mem_ip.1 h0
    have hright : ∀ q ∈ rest, RightOf p0.1 q.1 := by
      intro q hq
      obtain ⟨hq1, hq2⟩ := hrest q hq
      have hq' := mem_ip.1 hq1
      refine (hle q hq1).rightOf ?_
      rw [← h0'.2, ← hq'.2]
      exact nodup_getD_ne hnd h0'.1 hq'.1 (Ne.symm hq2)
    have hsorted := sortAng_sorted_le p0.1 rest hright
    have hsperm := sortAng_perm p0.1 rest
    generalize hs : sortAng p0.1 rest = sorted at hsorted hsperm
    have hLperm : (p0 :: sorted).Perm (pts.zip (List.range pts.length)) :=
      (hsperm.cons p0).trans hperm.symm
    have hLlen : (p0 :: sorted).length = pts.length := by rw [hLperm.length_eq, hlen]
    have hsnd : sorted.Nodup := hsperm.nodup_iff.2 hrnd
    -- facts about two sorted positions
    have hpair : ∀ i' j', i' < j' → (hj' : j' < sorted.length) →
        ∃ x y : P2 × Nat, sorted[i']? = some x ∧ sorted[j']? = some y ∧ RightOf p0.1 x.1 ∧
          RightOf p0.1 y.1 ∧ x.1 ≠ y.1 ∧ angBefore p0.1 x.1 y.1 = true := by
      intro i' j' hij hj'
      have hi' : i' < sorted.length := by omega
      have hx : sorted[i'] ∈ rest := hsperm.mem_iff.1 (List.getElem_mem hi')
      have hy : sorted[j'] ∈ rest := hsperm.mem_iff.1 (List.getElem_mem hj')
      refine ⟨sorted[i'], sorted[j'], List.getElem?_eq_getElem hi', List.getElem?_eq_getElem hj',
        hright _ hx, hright _ hy, ?_, List.pairwise_iff_getElem.1 hsorted i' j' hi' hj' hij⟩
      have hne : sorted[i'] ≠ sorted[j'] := List.pairwise_iff_getElem.1 hsnd i' j' hi' hj' hij
      have hx1 := (hrest _ hx).1
      have hy1 := (hrest _ hy).1
      have hx' := mem_ip.1 hx1
      have hy' := mem_ip.1 hy1
      rw [← hx'.2, ← hy'.2]
      refine nodup_getD_ne hnd hx'.1 hy'.1 ?_
      intro e
      exact hne (ip_inj hx1 hy1 e)
    refine ⟨p0 :: sorted, hLperm, ?_, ?_, ?_, ?_⟩
    · simpa [gAt] using hle
    · intro i j hi hij hj
      obtain ⟨i', rfl⟩ : ∃ i', i = i' + 1 := ⟨i - 1, by omega⟩
      obtain ⟨j', rfl⟩ : ∃ j', j = j' + 1 := ⟨j - 1, by omega⟩
      obtain ⟨x, y, ex, ey, _, _, _, hb⟩ := hpair i' j' (by omega) (by simpa using hj)
      rw [ccw_gPt]
      simp only [gAt, List.getElem?_cons_zero, List.getElem?_cons_succ, Option.getD_some, ex, ey]
      rw [angBefore_iff'] at hb
      rcases hb with hb | ⟨hb, _⟩ <;> linarith
    · intro i j hi hij hj hz
      obtain ⟨i', rfl⟩ : ∃ i', i = i' + 1 := ⟨i - 1, by omega⟩
      obtain ⟨j', rfl⟩ : ∃ j', j = j' + 1 := ⟨j - 1, by omega⟩
      obtain ⟨x, y, ex, ey, hx, hy, hne, hb⟩ := hpair i' j' (by omega) (by simpa using hj)
      rw [ccw_gPt] at hz
      simp only [gAt, List.getElem?_cons_zero, List.getElem?_cons_succ, Option.getD_some, ex, ey]
        at hz
      simp only [gPt, reflY, gAt, List.getElem?_cons_zero, List.getElem?_cons_succ,
        Option.getD_some, ex, ey]
      exact rayExt_reflect (rayExt_of_tie hx hy hne hb (by linarith))
    · rw [grahamScan_eq_core, hp0]
      simp only
      rw [hr, hs]
      exact grahamCore_eq_d _ (by omega)

/-! ### points on a common line -/

theorem line_param {o e x : P2} (hne : o ≠ e) (h : ccw o e x = 0) :
    ∃ l : Rat, x.1 = o.1 + l * (e.1 - o.1) ∧ x.2 = o.2 + l * (e.2 - o.2) := by
  unfold ccw at h
  by_cases h1 : e.1 - o.1 = 0
  · have h2 : e.2 - o.2 ≠ 0 := by
      intro h2
      exact hne (Prod.ext (by linarith) (by linarith))
    rw [h1] at h
    have hx : x.1 - o.1 = 0 := by
      simp at h
      rcases h with h | h
      · exact h
      · exact absurd h h2
    refine ⟨(x.2 - o.2) / (e.2 - o.2), ?_, ?_⟩
    · rw [h1]; linarith
    · field_simp; ring
  · refine ⟨(x.1 - o.1) / (e.1 - o.1), ?_, ?_⟩
    · field_simp; ring
    · field_simp; linarith

/-- three points on the line through two distinct points are collinear -/
theorem collinear3 {o e x y z : P2} (hne : o ≠ e) (hx : ccw o e x = 0) (hy : ccw o e y = 0)
    (hz : ccw o e z = 0) : ccw x y z = 0 := by
  obtain ⟨l1, a1, a2⟩ := line_param hne hx
  obtain ⟨l2, b1, b2⟩ := line_param hne hy
  obtain ⟨l3, c1, c2⟩ := line_param hne hz
  unfold ccw
  rw [a1, a2, b1, b2, c1, c2]; ring

theorem ccw_flip (a b c : P2) : ccw b a c = -ccw a b c := by unfold ccw; ring

namespace GrahamSeqD
variable {pts : List P2} {L : List (P2 × Nat)} (hs : GrahamSeqD pts L)
include hs

theorem length_eq : L.length = pts.length := by
  rw [hs.perm.length_eq]; simp

theorem gAt_spec {k : Nat} (hk : k < L.length) :
    (gAt L k).2 < pts.length ∧ pts[(gAt L k).2]?.getD (0, 0) = (gAt L k).1 := by
  have : gAt L k ∈ L := by
    simp only [gAt, List.getElem?_eq_getElem hk, Option.getD_some]
    exact List.getElem_mem hk
  exact mem_ip.1 (hs.perm.mem_iff.1 this)

theorem exists_pos {k : Nat} (hk : k < pts.length) :
    ∃ k', k' < L.length ∧ gAt L k' = (pts[k]?.getD (0, 0), k) := by
  have : (pts[k]?.getD (0, 0), k) ∈ L := hs.perm.mem_iff.2 (mem_ip.2 ⟨hk, rfl⟩)
  obtain ⟨k', hk', e⟩ := List.getElem_of_mem this
  refine ⟨k', hk', ?_⟩
  simp [gAt, List.getElem?_eq_getElem hk', e]

theorem length_scan : (grahamScan pts).length = (hullD (gPt L) L.length).length := by
  rw [hs.eq, List.length_map]

/-- the index at output position `i` is the index of the scan-sequence entry at chain position `i` -/
theorem index {i : Nat} (hi : i < (grahamScan pts).length) :
    (grahamScan pts)[i]?.getD 0 = (gAt L ((hullD (gPt L) L.length)[i]?.getD 0)).2 := by
  have hi' : i < (hullD (gPt L) L.length).length := by rwa [← hs.length_scan]
  simp only [hs.eq, List.getElem?_map, List.getElem?_eq_getElem hi', Option.map_some,
    Option.getD_some]

/-- the point at output position `i` is the scan-sequence point at chain position `i` -/
theorem point (h3 : 3 ≤ L.length) {i : Nat} (hi : i < (grahamScan pts).length) :
    pts[(grahamScan pts)[i]?.getD 0]?.getD (0, 0) =
      (gAt L ((hullD (gPt L) L.length)[i]?.getD 0)).1 := by
  have hi' : i < (hullD (gPt L) L.length).length := by rwa [← hs.length_scan]
  have hlt := hullD_mem_lt hs.hw hs.hray h3 i hi'
  rw [hs.index hi]
  exact (hs.gAt_spec hlt).2

end GrahamSeqD

end Knee

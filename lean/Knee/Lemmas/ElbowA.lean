import Knee.Model.Elbow
import Knee.Lemmas.Argmax
import Knee.Lemmas.Detectors
import Knee.Props.C09
import Knee.Props.C16
import Knee.Props.C17
/-!
Helper lemmas for `Props/C03A.lean`: on an exact two-slope elbow (`IsElbow`) the exact criteria of
the curvature, Menger and L-method detectors single out the corner.
-/
namespace Knee

/-! ## 1. Three-point formulas on a line and at a corner -/

/-- the parabola through three collinear points has second derivative `0` -/
theorem secondD_collinear (a s x1 x2 x3 y1 y2 y3 : Rat)
    (h12 : x1 ≠ x2) (h13 : x1 ≠ x3) (h23 : x2 ≠ x3)
    (e1 : y1 = a + s * x1) (e2 : y2 = a + s * x2) (e3 : y3 = a + s * x3) :
    secondD x1 x2 x3 y1 y2 y3 = 0 := by
  have d12 : x1 - x2 ≠ 0 := sub_ne_zero.mpr h12
  have d13 : x1 - x3 ≠ 0 := sub_ne_zero.mpr h13
  have d23 : x2 - x3 ≠ 0 := sub_ne_zero.mpr h23
  have d21 : x2 - x1 ≠ 0 := sub_ne_zero.mpr h12.symm
  have d31 : x3 - x1 ≠ 0 := sub_ne_zero.mpr h13.symm
  have d32 : x3 - x2 ≠ 0 := sub_ne_zero.mpr h23.symm
  subst e1 e2 e3
  unfold secondD
  field_simp
  ring

/-- the parabola through three collinear points has first derivative `s` everywhere -/
theorem lagrangeD_collinear (xe a s x1 x2 x3 y1 y2 y3 : Rat)
    (h12 : x1 ≠ x2) (h13 : x1 ≠ x3) (h23 : x2 ≠ x3)
    (e1 : y1 = a + s * x1) (e2 : y2 = a + s * x2) (e3 : y3 = a + s * x3) :
    lagrangeD xe x1 x2 x3 y1 y2 y3 = s := by
  have d12 : x1 - x2 ≠ 0 := sub_ne_zero.mpr h12
  have d13 : x1 - x3 ≠ 0 := sub_ne_zero.mpr h13
  have d23 : x2 - x3 ≠ 0 := sub_ne_zero.mpr h23
  have d21 : x2 - x1 ≠ 0 := sub_ne_zero.mpr h12.symm
  have d31 : x3 - x1 ≠ 0 := sub_ne_zero.mpr h13.symm
  have d32 : x3 - x2 ≠ 0 := sub_ne_zero.mpr h23.symm
  subst e1 e2 e3
  unfold lagrangeD
  field_simp
  ring

/-- second derivative at a corner: slope `s1` before, `s2` after the middle point -/
theorem secondD_corner (s1 s2 x1 x2 x3 y1 y2 y3 : Rat) (h12 : x1 < x2) (h23 : x2 < x3)
    (e1 : y1 = y2 + s1 * (x1 - x2)) (e3 : y3 = y2 + s2 * (x3 - x2)) :
    secondD x1 x2 x3 y1 y2 y3 = 2 * (s2 - s1) / (x3 - x1) := by
  have d12 : x1 - x2 ≠ 0 := ne_of_lt (by linarith)
  have d13 : x1 - x3 ≠ 0 := ne_of_lt (by linarith)
  have d23 : x2 - x3 ≠ 0 := ne_of_lt (by linarith)
  have d21 : x2 - x1 ≠ 0 := ne_of_gt (by linarith)
  have d31 : x3 - x1 ≠ 0 := ne_of_gt (by linarith)
  have d32 : x3 - x2 ≠ 0 := ne_of_gt (by linarith)
  subst e1 e3
  unfold secondD
  field_simp
  ring

theorem secondD_corner_ne (s1 s2 x1 x2 x3 y1 y2 y3 : Rat) (h12 : x1 < x2) (h23 : x2 < x3)
    (hs : s1 ≠ s2)
    (e1 : y1 = y2 + s1 * (x1 - x2)) (e3 : y3 = y2 + s2 * (x3 - x2)) :
    secondD x1 x2 x3 y1 y2 y3 ≠ 0 := by
  rw [secondD_corner s1 s2 x1 x2 x3 y1 y2 y3 h12 h23 e1 e3]
  have d31 : x3 - x1 ≠ 0 := ne_of_gt (by linarith)
  have hs' : s2 - s1 ≠ 0 := sub_ne_zero.mpr hs.symm
  exact div_ne_zero (mul_ne_zero (by norm_num) hs') d31

/-- a chord from the first arm to the second arm misses the corner -/
theorem off_chord (s1 s2 x1 x2 x3 y1 y2 y3 m b : Rat) (h12 : x1 < x2) (h23 : x2 < x3)
    (hs : s1 ≠ s2)
    (e1 : y1 = y2 + s1 * (x1 - x2)) (e3 : y3 = y2 + s2 * (x3 - x2))
    (f1 : x1 * m + b = y1) (f3 : x3 * m + b = y3) : y2 ≠ x2 * m + b := by
  intro f2
  apply hs
  have g1 : (x1 - x2) * (m - s1) = 0 := by rw [e1] at f1; linarith
  have g3 : (x3 - x2) * (m - s2) = 0 := by rw [e3] at f3; linarith
  have k1 : m - s1 = 0 := by
    rcases mul_eq_zero.mp g1 with h | h
    · exfalso; linarith
    · exact h
  have k3 : m - s2 = 0 := by
    rcases mul_eq_zero.mp g3 with h | h
    · exfalso; linarith
    · exact h
  linarith

/-- a line that passes through two points of the line `y = a + s x` is that line -/
theorem on_chord (a s x1 x3 y1 y3 m b : Rat) (h13 : x1 ≠ x3)
    (e1 : y1 = a + s * x1) (e3 : y3 = a + s * x3)
    (f1 : x1 * m + b = y1) (f3 : x3 * m + b = y3) : m = s ∧ b = a := by
  have g : (x1 - x3) * (m - s) = 0 := by rw [e1] at f1; rw [e3] at f3; linarith
  have k : m - s = 0 := by
    rcases mul_eq_zero.mp g with h | h
    · exact absurd h (sub_ne_zero.mpr h13)
    · exact h
  have hm : m = s := by linarith
  subst hm
  refine ⟨rfl, ?_⟩
  rw [e1] at f1
  linarith

/-! ## 2. A unique positive entry is the argmax; a unique zero among positives is the argmin -/

theorem argmaxIdx_unique_pos {l : List Rat} {k : Nat}
    (h0 : ∀ j, j < l.length → j ≠ k → l[j]?.getD 0 = 0) (hk : 0 < l[k]?.getD 0)
    (hkl : k < l.length) : argmaxIdx l = k := by
  have hne : l ≠ [] := by intro e; rw [e] at hkl; simp at hkl
  have hm := argmaxIdx_lt_length hne
  have hge := argmaxIdx_ge (l := l) k hkl
  by_contra hcon
  have := h0 _ hm hcon
  rw [this] at hge
  exact absurd hk (not_lt.mpr hge)

theorem argminIdx_unique_zero {l : List Rat} {k : Nat}
    (h0 : ∀ j, j < l.length → j ≠ k → 0 < l[j]?.getD 0) (hk : l[k]?.getD 0 = 0)
    (hkl : k < l.length) : argminIdx l = k := by
  have hne : l ≠ [] := by intro e; rw [e] at hkl; simp at hkl
  have hm := argminIdx_lt_length hne
  have hle := argminIdx_le (l := l) k hkl
  by_contra hcon
  have := h0 _ hm hcon
  rw [hk] at hle
  exact absurd this (not_lt.mpr hle)

theorem map_range_getD (f : Nat → Rat) (n k : Nat) (hk : k < n) :
    ((List.range n).map f)[k]?.getD 0 = f k := by
  simp [hk]

/-! ## 3. The two arms of an elbow as lines `y = a + s x` -/

section elbow
variable {x y : Nat → Rat} {n c : Nat} {s1 s2 : Rat}

theorem IsElbow.lt (h : IsElbow x y n c s1 s2) {i j : Nat} (hij : i < j) (hj : j < n) :
    x i < x j := h.xinc i j hij hj

theorem IsElbow.ne (h : IsElbow x y n c s1 s2) {i j : Nat} (hij : i < j) (hj : j < n) :
    x i ≠ x j := ne_of_lt (h.xinc i j hij hj)

theorem IsElbow.cn (h : IsElbow x y n c s1 s2) : c < n := by have := h.arm2; omega

theorem IsElbow.left_line (h : IsElbow x y n c s1 s2) (i : Nat) (hi : i ≤ c) :
    y i = (y 0 - s1 * x 0) + s1 * x i := by
  rw [h.left i hi]; ring

theorem IsElbow.right_line (h : IsElbow x y n c s1 s2) (i : Nat) (hi : c ≤ i) (hn : i < n) :
    y i = (y c - s2 * x c) + s2 * x i := by
  rw [h.right i hi hn]; ring

/-- left points relative to the corner -/
theorem IsElbow.left_corner (h : IsElbow x y n c s1 s2) (i : Nat) (hi : i ≤ c) :
    y i = y c + s1 * (x i - x c) := by
  rw [h.left i hi, h.left c (Nat.le_refl c)]; ring

/-! ## 4. Curvature criterion -/

/-- second derivative of a consecutive triple that lies on one arm -/
theorem IsElbow.secondD_arm (h : IsElbow x y n c s1 s2) (j : Nat) (hj1 : 1 ≤ j) (hjn : j + 1 < n)
    (hjc : j ≠ c) :
    secondD (x (j - 1)) (x j) (x (j + 1)) (y (j - 1)) (y j) (y (j + 1)) = 0 := by
  have n12 := h.ne (i := j - 1) (j := j) (by omega) (by omega)
  have n13 := h.ne (i := j - 1) (j := j + 1) (by omega) hjn
  have n23 := h.ne (i := j) (j := j + 1) (by omega) hjn
  rcases Nat.lt_or_gt_of_ne hjc with hlt | hgt
  · exact secondD_collinear _ s1 _ _ _ _ _ _ n12 n13 n23
      (h.left_line _ (by omega)) (h.left_line _ (by omega)) (h.left_line _ (by omega))
  · exact secondD_collinear _ s2 _ _ _ _ _ _ n12 n13 n23
      (h.right_line _ (by omega) (by omega)) (h.right_line _ (by omega) (by omega))
      (h.right_line _ (by omega) hjn)

theorem IsElbow.csd_off (h : IsElbow x y n c s1 s2) (i : Nat) (hi : i < n) (hic : i ≠ c) :
    csdQ x y n i = 0 := by
  have h1 := h.arm1
  have h2 := h.arm2
  unfold csdQ
  by_cases h0 : i = 0
  · simp only [h0, if_true]
    exact h.secondD_arm 1 (by omega) (by omega) (by omega)
  · by_cases hl : i + 1 = n
    · simp only [h0, hl, if_false, if_true]
      exact h.secondD_arm (n - 2) (by omega) (by omega) (by omega)
    · simp only [h0, hl, if_false]
      exact h.secondD_arm i (by omega) (by omega) hic

theorem IsElbow.csd_corner (h : IsElbow x y n c s1 s2) : csdQ x y n c ≠ 0 := by
  have h1 := h.arm1
  have h2 := h.arm2
  unfold csdQ
  have h0 : c ≠ 0 := by omega
  have hl : c + 1 ≠ n := by omega
  simp only [h0, hl, if_false]
  exact secondD_corner_ne s1 s2 _ _ _ _ _ _ (h.lt (by omega) (by omega))
    (h.lt (by omega) (by omega)) h.slopes (h.left_corner _ (by omega))
    (h.right _ (by omega) (by omega))

theorem IsElbow.curvCrit_off (h : IsElbow x y n c s1 s2) (i : Nat) (hi : i < n) (hic : i ≠ c) :
    curvCritSq x y n i = 0 := by
  unfold curvCritSq
  simp only [h.csd_off i hi hic, mul_zero, zero_div]

theorem IsElbow.curvCrit_corner (h : IsElbow x y n c s1 s2) : 0 < curvCritSq x y n c := by
  unfold curvCritSq
  have hg := h.csd_corner
  apply div_pos
  · exact mul_self_pos.mpr hg
  · have : 0 < 1 + cfdQ x y n c * cfdQ x y n c := by
      have := mul_self_nonneg (cfdQ x y n c); linarith
    exact mul_pos (mul_pos this this) this

/-- off the corner the first-derivative model returns the slope of the arm (not needed for the
argmax, recorded for completeness) -/
theorem IsElbow.cfd_left (h : IsElbow x y n c s1 s2) (i : Nat) (hi : i < c) :
    cfdQ x y n i = s1 := by
  have h1 := h.arm1
  have h2 := h.arm2
  unfold cfdQ
  by_cases h0 : i = 0
  · simp only [h0, if_true]
    exact lagrangeD_collinear _ _ s1 _ _ _ _ _ _ (h.ne (by omega) (by omega))
      (h.ne (by omega) (by omega)) (h.ne (by omega) (by omega))
      (h.left_line _ (by omega)) (h.left_line _ (by omega)) (h.left_line _ (by omega))
  · have hl : i + 1 ≠ n := by omega
    simp only [h0, hl, if_false]
    exact lagrangeD_collinear _ _ s1 _ _ _ _ _ _ (h.ne (by omega) (by omega))
      (h.ne (by omega) (by omega)) (h.ne (by omega) (by omega))
      (h.left_line _ (by omega)) (h.left_line _ (by omega)) (h.left_line _ (by omega))

theorem IsElbow.cfd_right (h : IsElbow x y n c s1 s2) (i : Nat) (hi : c < i) (hn : i < n) :
    cfdQ x y n i = s2 := by
  have h1 := h.arm1
  have h2 := h.arm2
  unfold cfdQ
  have h0 : i ≠ 0 := by omega
  by_cases hl : i + 1 = n
  · simp only [h0, hl, if_false, if_true]
    exact lagrangeD_collinear _ _ s2 _ _ _ _ _ _ (h.ne (by omega) (by omega))
      (h.ne (by omega) (by omega)) (h.ne (by omega) (by omega))
      (h.right_line _ (by omega) (by omega)) (h.right_line _ (by omega) (by omega))
      (h.right_line _ (by omega) (by omega))
  · simp only [h0, hl, if_false]
    exact lagrangeD_collinear _ _ s2 _ _ _ _ _ _ (h.ne (by omega) (by omega))
      (h.ne (by omega) (by omega)) (h.ne (by omega) (by omega))
      (h.right_line _ (by omega) (by omega)) (h.right_line _ (by omega) (by omega))
      (h.right_line _ (by omega) (by omega))

/-! ## 5. Menger criterion -/

theorem IsElbow.menger_off (h : IsElbow x y n c s1 s2) (i : Nat) (hi1 : 1 ≤ i) (hin : i + 1 < n)
    (hic : i ≠ c) : mengerAt x y i = 0 := by
  unfold mengerAt
  apply mengerSq_collinear
  simp only [cross, sub]
  rcases Nat.lt_or_gt_of_ne hic with hlt | hgt
  · rw [h.left_line (i - 1) (by omega), h.left_line i (by omega), h.left_line (i + 1) (by omega)]
    ring
  · rw [h.right_line (i - 1) (by omega) (by omega), h.right_line i (by omega) (by omega),
      h.right_line (i + 1) (by omega) hin]
    ring

theorem IsElbow.menger_corner (h : IsElbow x y n c s1 s2) : 0 < mengerAt x y c := by
  have h1 := h.arm1
  have h2 := h.arm2
  have l12 := h.lt (i := c - 1) (j := c) (by omega) (by omega)
  have l23 := h.lt (i := c) (j := c + 1) (by omega) (by omega)
  have hnn := mengerSq_nonneg (x c, y c) (x (c - 1), y (c - 1)) (x (c + 1), y (c + 1))
  unfold mengerAt
  rcases lt_or_eq_of_le hnn with hpos | hz
  · exact hpos
  · exfalso
    have hfg : ((x c, y c) : P2) ≠ (x (c - 1), y (c - 1)) := by
      intro e; have := congrArg Prod.fst e; simp only at this; linarith
    have hgh : ((x (c - 1), y (c - 1)) : P2) ≠ (x (c + 1), y (c + 1)) := by
      intro e; have := congrArg Prod.fst e; simp only at this; linarith
    have hhf : ((x (c + 1), y (c + 1)) : P2) ≠ (x c, y c) := by
      intro e; have := congrArg Prod.fst e; simp only at this; linarith
    have hc := (mengerSq_zero_iff _ _ _ hfg hgh hhf).mp hz.symm
    simp only [cross, sub] at hc
    rw [h.left_corner (c - 1) (by omega), h.right (c + 1) (by omega) (by omega)] at hc
    have hfac : (x c - x (c - 1)) * (x (c + 1) - x c) * (s1 - s2) = 0 := by
      linarith [hc]
    have ha : x c - x (c - 1) ≠ 0 := ne_of_gt (by linarith)
    have hb : x (c + 1) - x c ≠ 0 := ne_of_gt (by linarith)
    have hs : s1 - s2 ≠ 0 := sub_ne_zero.mpr h.slopes
    exact mul_ne_zero (mul_ne_zero ha hb) hs hfac

/-! ## 6. Residual sums of squares against a line, for index lists -/

theorem rss_line_zero_of_collinear (x y : Nat → Rat) (m b : Rat) :
    ∀ L : List Nat, (∀ k ∈ L, y k = x k * m + b) →
      rssQ (L.map y) (lineQ (L.map x) (b, m)) = 0 := by
  intro L
  induction L with
  | nil => intro _; simp [rssQ, lineQ]
  | cons a L ih =>
    intro hL
    have ha := hL a (by simp)
    have hr := ih (fun k hk => hL k (by simp [hk]))
    simp only [rssQ, lineQ, List.map_cons, List.zipWith_cons_cons, List.sum_cons] at hr ⊢
    simp only [List.map_map] at hr ⊢
    rw [hr, ha]
    ring

theorem rss_pos_of_off_line (x y : Nat → Rat) (m b : Rat) :
    ∀ L : List Nat, (∃ k ∈ L, y k ≠ x k * m + b) →
      0 < rssQ (L.map y) (lineQ (L.map x) (b, m)) := by
  intro L
  induction L with
  | nil => intro ⟨k, hk, _⟩; simp at hk
  | cons a L ih =>
    intro ⟨k, hk, hne⟩
    have hnn := rss_nonneg (L.map y) (lineQ (L.map x) (b, m))
    have hsq := mul_self_nonneg (y a - (x a * m + b))
    have hsplit : rssQ ((a :: L).map y) (lineQ ((a :: L).map x) (b, m)) =
        (y a - (x a * m + b)) * (y a - (x a * m + b)) +
          rssQ (L.map y) (lineQ (L.map x) (b, m)) := by
      simp [rssQ, lineQ]
    rw [hsplit]
    rcases List.mem_cons.mp hk with hka | hkL
    · subst hka
      have : 0 < (y k - (x k * m + b)) * (y k - (x k * m + b)) :=
        mul_self_pos.mpr (sub_ne_zero.mpr hne)
      linarith
    · have := ih ⟨k, hkL, hne⟩
      linarith

/-- RSS of the end-point fit over the points indexed by `L = i0 :: … :: il` -/
theorem rss_fit_zero (x y : Nat → Rat) (a s : Rat) (L : List Nat) (i0 il : Nat)
    (hh : L.head? = some i0) (hl : L.getLast? = some il) (hne : x i0 ≠ x il)
    (hline : ∀ k ∈ L, y k = a + s * x k) :
    rssQ (L.map y) (lineQ (L.map x) (fitQ (L.map x) (L.map y))) = 0 := by
  have hf := fit_through_ends (L.map x) (L.map y) (x i0) (x il) (y i0) (y il)
    (by simp [hh]) (by simp [hl]) (by simp [hh]) (by simp [hl]) hne
  simp only at hf
  have hi0 : i0 ∈ L := List.mem_of_mem_head? hh
  have hil : il ∈ L := List.mem_of_mem_getLast? hl
  obtain ⟨hm, hb⟩ := on_chord a s (x i0) (x il) (y i0) (y il) _ _ hne
    (hline i0 hi0) (hline il hil) hf.1 hf.2
  have : fitQ (L.map x) (L.map y) = ((fitQ (L.map x) (L.map y)).1, (fitQ (L.map x) (L.map y)).2) :=
    rfl
  rw [this]
  apply rss_line_zero_of_collinear
  intro k hk
  rw [hm, hb, hline k hk]
  ring

theorem rss_fit_pos (x y : Nat → Rat) (s1 s2 : Rat) (L : List Nat) (i0 il k : Nat)
    (hh : L.head? = some i0) (hl : L.getLast? = some il) (hk : k ∈ L)
    (h1 : x i0 < x k) (h2 : x k < x il) (hs : s1 ≠ s2)
    (e1 : y i0 = y k + s1 * (x i0 - x k)) (e3 : y il = y k + s2 * (x il - x k)) :
    0 < rssQ (L.map y) (lineQ (L.map x) (fitQ (L.map x) (L.map y))) := by
  have hne : x i0 ≠ x il := ne_of_lt (by linarith)
  have hf := fit_through_ends (L.map x) (L.map y) (x i0) (x il) (y i0) (y il)
    (by simp [hh]) (by simp [hl]) (by simp [hh]) (by simp [hl]) hne
  simp only at hf
  have hoff := off_chord s1 s2 (x i0) (x k) (x il) (y i0) (y k) (y il) _ _ h1 h2 hs e1 e3
    hf.1 hf.2
  have : fitQ (L.map x) (L.map y) = ((fitQ (L.map x) (L.map y)).1, (fitQ (L.map x) (L.map y)).2) :=
    rfl
  rw [this]
  exact rss_pos_of_off_line x y _ _ L ⟨k, hk, hoff⟩

/-! ## 7. The L-method error on an elbow -/

/-- the split error written over index lists -/
theorem lmErrRss_eq (x y : Nat → Rat) (n i : Nat) (hi : i < n) :
    lmErrRss x y n i =
      rssQ ((List.range (i + 1)).map y)
          (lineQ ((List.range (i + 1)).map x)
            (fitQ ((List.range (i + 1)).map x) ((List.range (i + 1)).map y))) *
        ((x i - x 0) / (x (n - 1) - x 0)) +
      rssQ ((List.range' i (n - i)).map y)
          (lineQ ((List.range' i (n - i)).map x)
            (fitQ ((List.range' i (n - i)).map x) ((List.range' i (n - i)).map y))) *
        ((x (n - 1) - x i) / (x (n - 1) - x 0)) := by
  have ht : (List.range n).take (i + 1) = List.range (i + 1) := by
    rw [List.take_range, Nat.min_eq_left (by omega)]
  have hd : (List.range n).drop i = List.range' i (n - i) := by
    rw [List.range_eq_range', List.drop_range']; simp
  unfold lmErrRss
  simp only [← List.map_take, ← List.map_drop, ht, hd]

theorem IsElbow.lmErr_corner (h : IsElbow x y n c s1 s2) : lmErrRss x y n c = 0 := by
  have h1 := h.arm1
  have h2 := h.arm2
  rw [lmErrRss_eq x y n c h.cn]
  have hL := rss_fit_zero x y (y 0 - s1 * x 0) s1 (List.range (c + 1)) 0 c
    (by simp [List.head?_range]) (by simp [List.getLast?_range])
    (h.ne (by omega) (by omega))
    (fun k hk => h.left_line k (by have := List.mem_range.mp hk; omega))
  have hR := rss_fit_zero x y (y c - s2 * x c) s2 (List.range' c (n - c)) c (n - 1)
    (by rw [List.head?_range', if_neg (by omega)])
    (by rw [List.getLast?_range', if_neg (by omega)]; congr 1; omega)
    (h.ne (by omega) (by omega))
    (fun k hk => by
      have := List.mem_range'_1.mp hk
      exact h.right_line k (by omega) (by omega))
  rw [hL, hR]
  ring

theorem IsElbow.lmErr_off (h : IsElbow x y n c s1 s2) (i : Nat) (hi2 : 2 ≤ i) (hin : i + 3 ≤ n)
    (hic : i ≠ c) : 0 < lmErrRss x y n i := by
  have h1 := h.arm1
  have h2 := h.arm2
  rw [lmErrRss_eq x y n i (by omega)]
  have hlen : 0 < x (n - 1) - x 0 := by
    have := h.lt (i := 0) (j := n - 1) (by omega) (by omega); linarith
  have hwl : 0 < (x i - x 0) / (x (n - 1) - x 0) := by
    apply div_pos _ hlen
    have := h.lt (i := 0) (j := i) (by omega) (by omega); linarith
  have hwr : 0 < (x (n - 1) - x i) / (x (n - 1) - x 0) := by
    apply div_pos _ hlen
    have := h.lt (i := i) (j := n - 1) (by omega) (by omega); linarith
  have hnl := rss_nonneg ((List.range (i + 1)).map y)
    (lineQ ((List.range (i + 1)).map x)
      (fitQ ((List.range (i + 1)).map x) ((List.range (i + 1)).map y)))
  have hnr := rss_nonneg ((List.range' i (n - i)).map y)
    (lineQ ((List.range' i (n - i)).map x)
      (fitQ ((List.range' i (n - i)).map x) ((List.range' i (n - i)).map y)))
  rcases Nat.lt_or_gt_of_ne hic with hlt | hgt
  · -- the corner is strictly inside the right part
    have hR := rss_fit_pos x y s1 s2 (List.range' i (n - i)) i (n - 1) c
      (by rw [List.head?_range', if_neg (by omega)])
      (by rw [List.getLast?_range', if_neg (by omega)]; congr 1; omega)
      (List.mem_range'_1.mpr (by omega))
      (h.lt hlt (by omega)) (h.lt (by omega) (by omega)) h.slopes
      (h.left_corner i (by omega)) (h.right (n - 1) (by omega) (by omega))
    have := mul_pos hR hwr
    have := mul_nonneg hnl hwl.le
    linarith
  · -- the corner is strictly inside the left part
    have hL := rss_fit_pos x y s1 s2 (List.range (i + 1)) 0 i c
      (by simp [List.head?_range]) (by simp [List.getLast?_range])
      (List.mem_range.mpr (by omega))
      (h.lt (by omega) (by omega)) (h.lt hgt (by omega)) h.slopes
      (h.left_corner 0 (by omega)) (h.right i (by omega) (by omega))
    have := mul_pos hL hwl
    have := mul_nonneg hnr hwr.le
    linarith

end elbow

end Knee

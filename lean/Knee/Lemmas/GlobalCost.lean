import Knee.Model.GlobalCost
import Knee.Lemmas.Metrics
import Mathlib.Tactic.Ring
import Mathlib.Tactic.Linarith
import Mathlib.Tactic.Positivity
import Mathlib.Tactic.FieldSimp
import Mathlib.Tactic.NormNum
import Mathlib.Algebra.Order.Field.Basic
/-!
Helper lemmas for `Props/C15.lean` (global reconstruction cost, shared cache, global RMSE / MIP).
-/
namespace Knee

/-! ### the cache state machine -/

theorem cacheOK_nil (segErr : Nat → Nat → Rat) : CacheOK segErr [] := by
  intro e he; simp at he

theorem cacheGet_some_of_ok {segErr : Nat → Nat → Rat} {c : Cache} (h : CacheOK segErr c)
    {k : Nat × Nat} {v : Rat} (hv : cacheGet c k = some v) : v = segErrG segErr k.1 k.2 := by
  unfold cacheGet at hv
  cases hf : c.find? (fun e => e.1 == k) with
  | none => rw [hf] at hv; simp at hv
  | some e =>
    rw [hf] at hv
    simp only [Option.map_some, Option.some.injEq] at hv
    have hmem := List.mem_of_find?_eq_some hf
    have hk := List.find?_some hf
    have hk' : e.1 = k := by simpa using hk
    rw [← hv, ← hk']
    exact h e hmem

theorem lookupSeg_ok_aux {segErr : Nat → Nat → Rat} {c : Cache} (h : CacheOK segErr c)
    (k : Nat × Nat) :
    (lookupSeg segErr c k).1 = segErrG segErr k.1 k.2 ∧ CacheOK segErr (lookupSeg segErr c k).2 := by
  unfold lookupSeg
  cases hg : cacheGet c k with
  | some v => exact ⟨cacheGet_some_of_ok h hg, h⟩
  | none =>
    refine ⟨rfl, ?_⟩
    intro e he
    rcases List.mem_cons.1 he with rfl | he
    · rfl
    · exact h e he

theorem evalSegs_ok_aux {segErr : Nat → Nat → Rat} :
    ∀ (ks : List (Nat × Nat)) {c : Cache}, CacheOK segErr c →
      (evalSegs segErr ks c).1 = ks.map (fun p => segErrG segErr p.1 p.2)
        ∧ CacheOK segErr (evalSegs segErr ks c).2 := by
  intro ks
  induction ks with
  | nil => intro c h; exact ⟨rfl, h⟩
  | cons k ks ih =>
    intro c h
    obtain ⟨h1, h2⟩ := lookupSeg_ok_aux h k
    obtain ⟨h3, h4⟩ := ih h2
    simp only [evalSegs, List.map_cons]
    exact ⟨by rw [h1, h3], h4⟩

/-! ### `pairsOf` -/

theorem pairsOf_length : ∀ l : List Nat, (pairsOf l).length = l.length - 1
  | [] => rfl
  | [_] => rfl
  | a :: b :: t => by
    simp only [pairsOf, List.length_cons, pairsOf_length (b :: t)]
    omega

/-- every pair of `pairsOf [a, a+1, …, a+m-1]` is `(i, i+1)` -/
theorem pairsOf_range'_succ : ∀ (m a : Nat) (p : Nat × Nat),
    p ∈ pairsOf (List.range' a m) → p.2 = p.1 + 1
  | 0, _, p, h => by simp [pairsOf] at h
  | 1, _, p, h => by simp [List.range', pairsOf] at h
  | m + 2, a, p, h => by
    simp only [List.range', pairsOf, List.mem_cons] at h
    rcases h with rfl | h
    · rfl
    · exact pairsOf_range'_succ (m + 1) (a + 1) p (by simpa [List.range'] using h)

theorem sum_map_eq_zero {α : Type} (f : α → Rat) :
    ∀ l : List α, (∀ a ∈ l, f a = 0) → (l.map f).sum = 0
  | [], _ => rfl
  | a :: l, h => by
    simp only [List.map_cons, List.sum_cons]
    rw [h a (by simp), sum_map_eq_zero f l (fun b hb => h b (by simp [hb]))]
    simp

theorem sum_map_nonneg {α : Type} (f : α → Rat) :
    ∀ l : List α, (∀ a ∈ l, 0 ≤ f a) → 0 ≤ (l.map f).sum
  | [], _ => by simp
  | a :: l, h => by
    simp only [List.map_cons, List.sum_cons]
    have h1 := h a (by simp)
    have h2 := sum_map_nonneg f l (fun b hb => h b (by simp [hb]))
    linarith

/-! ### Layer N terms -/

theorem rmspe_term_nonneg (a b : Rat) :
    0 ≤ ((a - b) / (a + epsM)) * ((a - b) / (a + epsM)) := mul_self_nonneg _

/-! ### insertion sort -/

theorem insertRat_perm (x : Rat) : ∀ l : List Rat, (insertRat x l).Perm (x :: l)
  | [] => List.Perm.refl _
  | y :: ys => by
    unfold insertRat
    split
    · exact List.Perm.refl _
    · exact ((insertRat_perm x ys).cons y).trans (List.Perm.swap x y ys)

theorem sortRat_perm_aux : ∀ l : List Rat, (sortRat l).Perm l
  | [] => List.Perm.refl _
  | x :: l => by
    show (insertRat x (sortRat l)).Perm (x :: l)
    exact (insertRat_perm x _).trans ((sortRat_perm_aux l).cons x)

theorem insertRat_sorted (x : Rat) : ∀ l : List Rat, l.Pairwise (· ≤ ·) →
    (insertRat x l).Pairwise (· ≤ ·)
  | [], _ => by simp [insertRat]
  | y :: ys, h => by
    unfold insertRat
    split
    · rename_i hxy
      refine List.Pairwise.cons ?_ h
      intro z hz
      rcases List.mem_cons.1 hz with rfl | hz
      · exact hxy
      · exact le_trans hxy (List.rel_of_pairwise_cons h hz)
    · rename_i hxy
      have hyx : y ≤ x := le_of_lt (not_le.1 hxy)
      refine List.Pairwise.cons ?_ (insertRat_sorted x ys (List.Pairwise.of_cons h))
      intro z hz
      have := (insertRat_perm x ys).mem_iff.1 hz
      rcases List.mem_cons.1 this with rfl | hz
      · exact hyx
      · exact List.rel_of_pairwise_cons h hz

theorem sortRat_sorted_aux : ∀ l : List Rat, (sortRat l).Pairwise (· ≤ ·)
  | [] => List.Pairwise.nil
  | x :: l => by
    show (insertRat x (sortRat l)).Pairwise (· ≤ ·)
    exact insertRat_sorted x _ (sortRat_sorted_aux l)

theorem sortRat_length_aux (l : List Rat) : (sortRat l).length = l.length :=
  (sortRat_perm_aux l).length_eq

theorem sortRat_getD_mem (l : List Rat) (i : Nat) (hi : i < (sortRat l).length) :
    (sortRat l)[i]?.getD 0 ∈ l := by
  rw [List.getElem?_eq_getElem hi, Option.getD_some]
  exact (sortRat_perm_aux l).mem_iff.1 (List.getElem_mem hi)

theorem sortRat_getD_le (l : List Rat) (i j : Nat) (hij : i ≤ j) (hj : j < (sortRat l).length) :
    (sortRat l)[i]?.getD 0 ≤ (sortRat l)[j]?.getD 0 := by
  have hi : i < (sortRat l).length := lt_of_le_of_lt hij hj
  rw [List.getElem?_eq_getElem hi, List.getElem?_eq_getElem hj, Option.getD_some, Option.getD_some]
  rcases Nat.eq_or_lt_of_le hij with rfl | hlt
  · exact le_refl _
  · exact List.pairwise_iff_getElem.1 (sortRat_sorted_aux l) i j hi hj hlt

theorem medianQ_nil : medianQ [] = 0 := rfl

theorem medianQ_mem_range_aux (l : List Rat) (hne : l ≠ []) :
    ∃ a ∈ l, ∃ b ∈ l, a ≤ medianQ l ∧ medianQ l ≤ b := by
  have hlen : 0 < (sortRat l).length := by
    rw [sortRat_length_aux]; exact List.length_pos_iff.2 hne
  unfold medianQ
  simp only
  rw [if_neg (by omega)]
  split
  · exact ⟨_, sortRat_getD_mem l _ (by omega), _, sortRat_getD_mem l _ (by omega),
      le_refl _, le_refl _⟩
  · have h1 : (sortRat l).length / 2 - 1 < (sortRat l).length := by omega
    have h2 : (sortRat l).length / 2 < (sortRat l).length := by omega
    have hle := sortRat_getD_le l ((sortRat l).length / 2 - 1) ((sortRat l).length / 2)
      (by omega) h2
    refine ⟨_, sortRat_getD_mem l _ h1, _, sortRat_getD_mem l _ h2, ?_, ?_⟩
    · linarith
    · linarith

theorem medianQ_nonneg_of_forall (l : List Rat) (h : ∀ a ∈ l, 0 ≤ a) : 0 ≤ medianQ l := by
  by_cases hne : l = []
  · rw [hne, medianQ_nil]
  · obtain ⟨a, ha, _, _, hle, _⟩ := medianQ_mem_range_aux l hne
    exact le_trans (h a ha) hle

end Knee

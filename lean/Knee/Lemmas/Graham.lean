import Mathlib.Tactic.Ring
import Mathlib.Tactic.Linarith
import Knee.Lemmas.Hull
/-!
Helper lemmas for C18G (`graham_scan` on point sets in general position).

Plan: `graham_scan` = the counter-clockwise chain scan `hullLower` run on the x-axis reflection of
`p0 :: sorted` (pivot followed by the angularly sorted points).  The chain scan is correct not only
for x-sorted curves (`Lemmas/Hull.lean`) but also for sequences sorted by angle about their first
point (`Ang` section below); the orientation identities are the same ones with the x-differences
replaced by orientation determinants about the pivot.
-/
namespace Knee

/-! ### orientation identities about a pivot `o` -/

theorem ccw_rot (a b c : P2) : ccw a b c = ccw b c a := by unfold ccw; ring
theorem ccw_swap (a b c : P2) : ccw a c b = -ccw a b c := by unfold ccw; ring
theorem ccw_self_left (a b : P2) : ccw a a b = 0 := by unfold ccw; ring

/-- pop justification, points angularly between `a` and the popped vertex `b` -/
theorem ccw_pop_left_ang (o a b i k : P2) (hab : 0 < ccw o a b) (hai : 0 ≤ ccw o a i)
    (hak : 0 ≤ ccw o a k) (h1 : 0 ≤ ccw a b k) (h2 : ccw a b i ≤ 0) : 0 ≤ ccw a i k := by
  have key : ccw a i k * ccw o a b = ccw a b k * ccw o a i + (-ccw a b i) * ccw o a k := by
    unfold ccw; ring
  refine nonneg_of_mul_nonneg_left (b := ccw o a b) ?_ hab
  rw [key]
  exact add_nonneg (mul_nonneg h1 hai) (mul_nonneg (by linarith) hak)

/-- pop justification, points angularly between the popped vertex `b` and the new point `i` -/
theorem ccw_pop_right_ang (o a b i k : P2) (hbi : 0 < ccw o b i) (hai : 0 ≤ ccw o a i)
    (hki : 0 ≤ ccw o k i) (h1 : 0 ≤ ccw b i k) (h2 : ccw a b i ≤ 0) : 0 ≤ ccw a i k := by
  have key : ccw a i k * ccw o b i = ccw b i k * ccw o a i + (-ccw a b i) * ccw o k i := by
    unfold ccw; ring
  refine nonneg_of_mul_nonneg_left (b := ccw o b i) ?_ hbi
  rw [key]
  exact add_nonneg (mul_nonneg h1 hai) (mul_nonneg (by linarith) hki)

/-- a point left of edge `a b` and angularly before `b` is left of the next edge `b c` -/
theorem ccw_prop_right_ang (o a b c p : P2) (hab : 0 < ccw o a b) (hbc : 0 ≤ ccw o b c)
    (hp : 0 ≤ ccw o p b) (h1 : 0 ≤ ccw a b p) (h2 : 0 ≤ ccw a b c) : 0 ≤ ccw b c p := by
  have key : ccw b c p * ccw o a b = ccw a b p * ccw o b c + ccw a b c * ccw o p b := by
    unfold ccw; ring
  refine nonneg_of_mul_nonneg_left (b := ccw o a b) ?_ hab
  rw [key]
  exact add_nonneg (mul_nonneg h1 hbc) (mul_nonneg h2 hp)

/-- a point left of edge `b c` and angularly after `b` is left of the previous edge `a b` -/
theorem ccw_prop_left_ang (o a b c p : P2) (hab : 0 ≤ ccw o a b) (hbc : 0 < ccw o b c)
    (hp : 0 ≤ ccw o b p) (h1 : 0 ≤ ccw b c p) (h2 : 0 ≤ ccw a b c) : 0 ≤ ccw a b p := by
  have key : ccw a b p * ccw o b c = ccw b c p * ccw o a b + ccw a b c * ccw o b p := by
    unfold ccw; ring
  refine nonneg_of_mul_nonneg_left (b := ccw o b c) ?_ hbc
  rw [key]
  exact add_nonneg (mul_nonneg h1 hab) (mul_nonneg h2 hp)

/-! ### the chain scan on an angularly sorted sequence -/

section Ang
variable {pt : Nat → P2} {n : Nat}
  (hang : ∀ i j, 1 ≤ i → i < j → j < n → 0 < ccw (pt 0) (pt i) (pt j))
include hang

/-- non-strict angular order, including the pivot (index 0) and equal indices -/
theorem ang_le {i j : Nat} (hij : i ≤ j) (hj : j < n) : 0 ≤ ccw (pt 0) (pt i) (pt j) := by
  rcases Nat.eq_zero_or_pos i with rfl | hi
  · rw [ccw_self_left]
  · rcases Nat.lt_or_eq_of_le hij with h | rfl
    · exact le_of_lt (hang i j hi h hj)
    · rw [ccw_self_right]

/-- the first sorted point is never popped -/
theorem ang_no_pop_one {b i : Nat} (hb : 1 ≤ b) (hbi : b < i) (hi : i < n) :
    ¬ ccw (pt 0) (pt b) (pt i) ≤ 0 := not_le.2 (hang b i hb hbi hi)

/-- a point angularly after the second stack vertex and left of the top edge is left of every edge
of a convex stack -/
theorem above_of_top_ang (p : Nat) (hp : p < n) : ∀ (b a : Nat) (rest : List Nat),
    (b :: a :: rest).Pairwise (· > ·) → b < p → ConvexL pt (b :: a :: rest) →
    0 ≤ ccw (pt a) (pt b) (pt p) →
    Adj2 (fun b a => 0 ≤ ccw (pt a) (pt b) (pt p)) (b :: a :: rest)
  | b, a, [], _, _, _, h => ⟨h, trivial⟩
  | b, a, a' :: rest, hpw, hb, hc, h => by
    have hab : a < b := (List.pairwise_cons.1 hpw).1 a (by simp)
    have hpw' := (List.pairwise_cons.1 hpw).2
    have ha'a : a' < a := (List.pairwise_cons.1 hpw').1 a' (by simp)
    refine ⟨h, above_of_top_ang p hp a a' rest hpw' (by omega) (Adj3.tail hc) ?_⟩
    exact ccw_prop_left_ang (pt 0) (pt a') (pt a) (pt b) (pt p) (ang_le hang (by omega) (by omega))
      (hang a b (by omega) hab (by omega)) (ang_le hang (by omega) hp) h (le_of_lt hc.1)

/-- the support property carried through the pops before pushing `m + 1` -/
def PopAboveA (pt : Nat → P2) (m : Nat) (st : List Nat) : Prop :=
  st.Pairwise (· > ·) ∧ (∀ x ∈ st, x ≤ m) ∧ st.getLast? = some 0 ∧ AboveL pt m st ∧
    ∃ t rest, st = t :: rest ∧ 1 ≤ t ∧ ∀ k, t ≤ k → k ≤ m + 1 → 0 ≤ ccw (pt t) (pt (m + 1)) (pt k)

theorem popLower_popAboveA (m : Nat) (hm : m + 1 < n) (st : List Nat) (h : PopAboveA pt m st) :
    PopAboveA pt m (popLower pt (m + 1) st) := by
  refine popLower_invariant pt (m + 1) (PopAboveA pt m) ?_ st h
  rintro b a rest hc ⟨hp, hmem, hl, hab, t, rest', hst, ht1, ht⟩
  simp only [List.cons.injEq] at hst
  obtain ⟨rfl, rfl⟩ := hst
  have hlt : a < b := (List.pairwise_cons.1 hp).1 a (by simp)
  have hbm : b ≤ m := hmem b (by simp)
  have ha1 : 1 ≤ a := by
    rcases Nat.eq_zero_or_pos a with rfl | h
    · exact absurd hc (ang_no_pop_one hang ht1 (by omega) hm)
    · exact h
  refine ⟨(List.pairwise_cons.1 hp).2, fun x hx' => hmem x (List.mem_cons_of_mem _ hx'), ?_,
    Adj2.tail hab, a, rest, rfl, ha1, ?_⟩
  · rwa [List.getLast?_cons_cons] at hl
  intro k hak hkm
  have hai : 0 ≤ ccw (pt 0) (pt a) (pt (m + 1)) := ang_le hang (by omega) hm
  by_cases hkb : k ≤ b
  · exact ccw_pop_left_ang (pt 0) (pt a) (pt b) (pt (m + 1)) (pt k) (hang a b ha1 hlt (by omega)) hai
      (ang_le hang hak (by omega)) (hab.1 k (by omega)) hc
  · exact ccw_pop_right_ang (pt 0) (pt a) (pt b) (pt (m + 1)) (pt k) (hang b (m + 1) ht1 (by omega) hm)
      hai (ang_le hang hkm hm) (ht k (by omega) hkm) hc

theorem aboveL_step_ang (m : Nat) (hm1 : 1 ≤ m) (hm : m + 1 < n) (st : List Nat) (hidx : IdxInv m st)
    (hcv : ConvexL pt st) (hab : AboveL pt m st) :
    AboveL pt (m + 1) ((m + 1) :: popLower pt (m + 1) st) := by
  have hpi := popLower_popIdx pt (m + 1) st hidx.popIdx
  have hc : ConvexL pt (popLower pt (m + 1) st) :=
    popLower_invariant pt (m + 1) (ConvexL pt) (fun _ _ _ _ h => Adj3.tail h) st hcv
  have hpa : PopAboveA pt m (popLower pt (m + 1) st) := by
    refine popLower_popAboveA hang m hm st ⟨hidx.1, hidx.lt, hidx.2.2.1, hab, ?_⟩
    obtain ⟨hp, hh, _, _⟩ := hidx
    match st, hh with
    | t :: rest, hh =>
      simp only [List.head?_cons, Option.some.injEq] at hh
      subst hh
      refine ⟨t, rest, rfl, hm1, ?_⟩
      intro k h1 h2
      have : k = t ∨ k = t + 1 := by omega
      rcases this with rfl | rfl
      · rw [ccw_self_mid]
      · rw [ccw_self_right]
  have htop := popLower_top pt (m + 1) st
  revert hpi hc hpa htop
  generalize popLower pt (m + 1) st = r
  rintro ⟨hp, _, _, hlt⟩ hc ⟨_, hmem, hl, habv, t, rest, rfl, ht1, ht⟩ htop
  match rest, hp, hl, hlt, hc, hmem, habv, htop with
  | [], _, hl, _, _, _, _, _ =>
    simp only [List.getLast?_singleton, Option.some.injEq] at hl
    omega
  | a :: rest, hp, _, hlt, hc, hmem, habv, htop =>
    have hturn := htop t a rest rfl
    have hat : a < t := (List.pairwise_cons.1 hp).1 a (by simp)
    have htm : t ≤ m := hmem t (by simp)
    refine ⟨?_, ?_⟩
    · intro k hk
      by_cases hkt : t ≤ k
      · exact ht k hkt hk
      · rcases Nat.eq_zero_or_pos k with rfl | hk1
        · rw [← ccw_rot]
          exact le_of_lt (hang t (m + 1) ht1 (by omega) hm)
        · have hsup : 0 ≤ ccw (pt a) (pt t) (pt k) := habv.1 k (by omega)
          rcases Nat.eq_zero_or_pos a with rfl | ha1
          · have := hang k t hk1 (by omega) (by omega)
            rw [ccw_swap] at hsup
            linarith
          · exact ccw_prop_right_ang (pt 0) (pt a) (pt t) (pt (m + 1)) (pt k) (hang a t ha1 hat (by omega))
              (ang_le hang (by omega) hm) (ang_le hang (by omega) (by omega)) hsup (le_of_lt hturn)
    · have hnew := above_of_top_ang hang (m + 1) hm t a rest hp (by omega) hc (le_of_lt hturn)
      refine Adj2.and ?_ _ habv hnew
      intro b a hold hnew k hk
      rcases Nat.lt_or_eq_of_le hk with h | rfl
      · exact hold k (by omega)
      · exact hnew

theorem lowerStack_above_ang (j : Nat) (hj : j + 2 ≤ n) : AboveL pt (j + 1) (lowerStack pt j) := by
  have := foldl_range_inv (fun st k => (k + 2) :: popLower pt (k + 2) st)
    (fun k st => IdxInv (k + 1) st ∧ ConvexL pt st ∧ AboveL pt (k + 1) st) [1, 0] j
    ⟨idxInv_init, trivial, ?_, trivial⟩ ?_ j (Nat.le_refl _)
  · exact this.2.2
  · intro k hk
    have : k = 0 ∨ k = 1 := by omega
    rcases this with rfl | rfl
    · rw [ccw_self_mid]
    · rw [ccw_self_right]
  · rintro k st hk ⟨h1, h2, h3⟩
    exact ⟨idxInv_step pt k st h1, convexL_step pt (k + 2) st h2,
      aboveL_step_ang hang (k + 1) (by omega) (by omega) st h1 h2 h3⟩

/-- the pivot and the first sorted point stay at the bottom of the stack -/
theorem popLower_keep10 (i : Nat) (h1 : 1 < i) (hi : i < n) (st : List Nat) (h : [1, 0] <:+ st) :
    [1, 0] <:+ popLower pt i st := by
  refine popLower_invariant pt i (fun st => [1, 0] <:+ st) ?_ st h
  intro b a rest hc h
  rcases List.suffix_cons_iff.1 h with h | h
  · simp only [List.cons.injEq] at h
    obtain ⟨rfl, rfl, _⟩ := h
    exact absurd hc (ang_no_pop_one hang (Nat.le_refl 1) h1 hi)
  · exact h

theorem lowerStack_keep10 (j : Nat) (hj : j + 2 ≤ n) : [1, 0] <:+ lowerStack pt j :=
  foldl_range_inv (fun st k => (k + 2) :: popLower pt (k + 2) st) (fun _ st => [1, 0] <:+ st) [1, 0] j
    (List.suffix_refl _)
    (fun k st hk h => (popLower_keep10 hang (k + 2) (by omega) (by omega) st h).trans
      (List.suffix_cons _ _)) j (Nat.le_refl _)

/-- from the third point on, the stack holds at least three vertices -/
theorem lowerStack_length_ang (j : Nat) (hj1 : 1 ≤ j) (hj : j + 2 ≤ n) : 3 ≤ (lowerStack pt j).length := by
  obtain ⟨pre, hpre⟩ := lowerStack_keep10 hang j hj
  have hh := (lowerStack_idx pt j).2.1
  rw [← hpre] at hh ⊢
  match pre, hh with
  | [], hh => simp at hh; omega
  | _ :: _, _ => simp

theorem lowerStack_one (h3 : 3 ≤ n) : lowerStack pt 1 = [2, 1, 0] := by
  have := ang_no_pop_one hang (Nat.le_refl 1) (by omega : 1 < 2) (by omega : 2 < n)
  simp [lowerStack, List.range_succ, popLower, this]

end Ang

/-! ### the angular comparator on the right half-plane of the pivot -/

/-- lexicographic order `(x, y)` on points -/
def LexLe (a b : P2) : Prop := a.1 < b.1 ∨ (a.1 = b.1 ∧ a.2 ≤ b.2)

/-- `q` lies in the closed right half-plane of `p0`, above `p0` when on its vertical -/
def RightOf (p0 q : P2) : Prop := p0.1 < q.1 ∨ (p0.1 = q.1 ∧ p0.2 < q.2)

theorem LexLe.refl (a : P2) : LexLe a a := Or.inr ⟨rfl, le_refl _⟩

theorem LexLe.trans {a b c : P2} (h1 : LexLe a b) (h2 : LexLe b c) : LexLe a c := by
  unfold LexLe at *
  rcases h1 with h1 | ⟨h1, h1'⟩ <;> rcases h2 with h2 | ⟨h2, h2'⟩
  · exact Or.inl (lt_trans h1 h2)
  · exact Or.inl (by rw [← h2]; exact h1)
  · exact Or.inl (by rw [h1]; exact h2)
  · exact Or.inr ⟨h1.trans h2, le_trans h1' h2'⟩

theorem LexLe.of_not {a b : P2} (h : ¬ LexLe a b) : LexLe b a := by
  unfold LexLe at *
  rcases lt_trichotomy a.1 b.1 with h1 | h1 | h1
  · exact absurd (Or.inl h1) h
  · refine Or.inr ⟨h1.symm, ?_⟩
    by_contra h2
    exact h (Or.inr ⟨h1, le_of_lt (not_le.1 h2)⟩)
  · exact Or.inl h1

theorem LexLe.rightOf {a b : P2} (h : LexLe a b) (hne : a ≠ b) : RightOf a b := by
  rcases h with h | ⟨h1, h2⟩
  · exact Or.inl h
  · refine Or.inr ⟨h1, lt_of_le_of_ne h2 ?_⟩
    intro h3
    exact hne (Prod.ext h1 h3)

theorem cross_trans (ax ay bx by' cx cy : Rat) (ha : 0 < ax ∨ (ax = 0 ∧ 0 < ay))
    (hb : 0 < bx ∨ (bx = 0 ∧ 0 < by')) (hc : 0 < cx ∨ (cx = 0 ∧ 0 < cy))
    (h1 : ax * by' - bx * ay < 0) (h2 : bx * cy - cx * by' < 0) : ax * cy - cx * ay < 0 := by
  have hax : 0 ≤ ax := by rcases ha with h | ⟨h, _⟩ <;> linarith
  have hcx : 0 ≤ cx := by rcases hc with h | ⟨h, _⟩ <;> linarith
  have hbx : 0 < bx := by
    rcases hb with h | ⟨h, hy⟩
    · exact h
    · subst h
      have := mul_nonneg hax (le_of_lt hy)
      linarith
  have key : (ax * cy - cx * ay) * bx = (ax * by' - bx * ay) * cx + (bx * cy - cx * by') * ax := by ring
  rcases ha with ha | ⟨ha, hay⟩
  · by_contra hcon
    have h3 := mul_nonneg (not_lt.1 hcon) (le_of_lt hbx)
    have h4 : (ax * by' - bx * ay) * cx ≤ 0 := mul_nonpos_of_nonpos_of_nonneg (le_of_lt h1) hcx
    have h5 : (bx * cy - cx * by') * ax < 0 := mul_neg_of_neg_of_pos h2 ha
    linarith
  · subst ha
    have hcx' : 0 < cx := by
      rcases hc with h | ⟨h, hy⟩
      · exact h
      · subst h
        have := mul_pos hbx hy
        linarith
    have := mul_pos hcx' hay
    linarith

/-- on the right half-plane of the pivot "strictly clockwise of" is transitive -/
theorem ang_trans (p0 a b c : P2) (ha : RightOf p0 a) (hb : RightOf p0 b) (hc : RightOf p0 c)
    (h1 : ccw p0 a b < 0) (h2 : ccw p0 b c < 0) : ccw p0 a c < 0 := by
  have conv : ∀ q : P2, RightOf p0 q → (0 < q.1 - p0.1 ∨ (q.1 - p0.1 = 0 ∧ 0 < q.2 - p0.2)) := by
    intro q hq
    rcases hq with h | ⟨h, h'⟩
    · exact Or.inl (by linarith)
    · exact Or.inr ⟨by linarith, by linarith⟩
  unfold ccw at *
  exact cross_trans _ _ _ _ _ _ (conv a ha) (conv b hb) (conv c hc) h1 h2

theorem angBefore_iff (p0 a b : P2) (h : ccw p0 a b ≠ 0) : angBefore p0 a b = true ↔ ccw p0 a b < 0 := by
  simp [angBefore, h]

/-- the strict angular order on indexed points: `b` is strictly clockwise of `a` about `p0` -/
def AngLt (p0 : P2) (a b : P2 × Nat) : Prop := ccw p0 a.1 b.1 < 0

theorem insertAng_pairwise (p0 : P2) (x : P2 × Nat) (hx : RightOf p0 x.1) : ∀ l : List (P2 × Nat),
    l.Pairwise (AngLt p0) → (∀ q ∈ l, RightOf p0 q.1) → (∀ y ∈ l, ccw p0 y.1 x.1 ≠ 0) →
    (insertAng p0 x l).Pairwise (AngLt p0)
  | [], _, _, _ => by simp [insertAng]
  | y :: ys, hp, hr, hne => by
    have hyx := hne y (by simp)
    have hpy := List.pairwise_cons.1 hp
    rw [insertAng]
    split
    · rename_i hb
      have hlt : ccw p0 y.1 x.1 < 0 := (angBefore_iff p0 y.1 x.1 hyx).1 hb
      refine List.pairwise_cons.2 ⟨?_, insertAng_pairwise p0 x hx ys hpy.2
        (fun q hq => hr q (List.mem_cons_of_mem _ hq)) (fun q hq => hne q (List.mem_cons_of_mem _ hq))⟩
      intro z hz
      rcases List.mem_cons.1 ((insertAng_perm p0 x ys).mem_iff.1 hz) with rfl | hz
      · exact hlt
      · exact hpy.1 z hz
    · rename_i hb
      have hgt : ccw p0 x.1 y.1 < 0 := by
        have h1 : ¬ ccw p0 y.1 x.1 < 0 := fun h => hb ((angBefore_iff p0 y.1 x.1 hyx).2 h)
        have h2 : 0 < ccw p0 y.1 x.1 := lt_of_le_of_ne (not_lt.1 h1) (Ne.symm hyx)
        rw [ccw_swap]
        linarith
      refine List.pairwise_cons.2 ⟨?_, hp⟩
      intro z hz
      rcases List.mem_cons.1 hz with rfl | hz
      · exact hgt
      · exact ang_trans p0 x.1 y.1 z.1 hx (hr y (by simp)) (hr z (List.mem_cons_of_mem _ hz)) hgt
          (hpy.1 z hz)

theorem sortAng_foldl_pairwise (p0 : P2) : ∀ (l acc : List (P2 × Nat)),
    acc.Pairwise (AngLt p0) → (∀ q ∈ acc, RightOf p0 q.1) → (∀ q ∈ l, RightOf p0 q.1) →
    l.Pairwise (fun a b => ccw p0 a.1 b.1 ≠ 0) → (∀ x ∈ l, ∀ y ∈ acc, ccw p0 y.1 x.1 ≠ 0) →
    (l.foldl (fun acc x => insertAng p0 x acc) acc).Pairwise (AngLt p0)
  | [], acc, h, _, _, _, _ => by simpa using h
  | x :: l, acc, hp, hra, hrl, hpl, hne => by
    rw [List.foldl_cons]
    have hpl' := List.pairwise_cons.1 hpl
    have hmem : ∀ q, q ∈ insertAng p0 x acc → q = x ∨ q ∈ acc := fun q hq =>
      List.mem_cons.1 ((insertAng_perm p0 x acc).mem_iff.1 hq)
    refine sortAng_foldl_pairwise p0 l (insertAng p0 x acc)
      (insertAng_pairwise p0 x (hrl x (by simp)) acc hp hra (hne x (by simp))) ?_
      (fun q hq => hrl q (List.mem_cons_of_mem _ hq)) hpl'.2 ?_
    · intro q hq
      rcases hmem q hq with rfl | hq
      · exact hrl _ (by simp)
      · exact hra q hq
    · intro x' hx' y hy
      rcases hmem y hy with rfl | hy
      · exact hpl'.1 x' hx'
      · exact hne x' (List.mem_cons_of_mem _ hx') y hy

/-- **sorted.** On the right half-plane of the pivot and with no two points collinear with the
pivot, the angular sort returns a list that is pairwise strictly clockwise. -/
theorem sortAng_pairwise (p0 : P2) (l : List (P2 × Nat)) (hr : ∀ q ∈ l, RightOf p0 q.1)
    (hne : l.Pairwise (fun a b => ccw p0 a.1 b.1 ≠ 0)) : (sortAng p0 l).Pairwise (AngLt p0) :=
  sortAng_foldl_pairwise p0 l [] List.Pairwise.nil (by simp) hr hne (by simp)

/-! ### `lexMin` -/

theorem lexMin_eq_none : ∀ l : List (P2 × Nat), lexMin l = none → l = []
  | [], _ => rfl
  | x :: t, h => by
    rw [lexMin] at h
    split at h
    · simp at h
    · split at h <;> simp at h

theorem lexMin_le : ∀ (l : List (P2 × Nat)) (a : P2 × Nat), lexMin l = some a → ∀ q ∈ l, LexLe a.1 q.1
  | [], a, h => by simp [lexMin] at h
  | x :: t, a, h => by
    rw [lexMin] at h
    split at h
    · rename_i hn
      have := lexMin_eq_none t hn
      subst this
      simp only [Option.some.injEq] at h; subst h
      intro q hq
      simp only [List.mem_singleton] at hq
      subst hq
      exact LexLe.refl _
    · rename_i b hb
      have ih := lexMin_le t b hb
      split at h
      · rename_i hc
        simp only [Option.some.injEq] at h; subst h
        intro q hq
        rcases List.mem_cons.1 hq with rfl | hq
        · exact LexLe.refl _
        · exact LexLe.trans hc (ih q hq)
      · rename_i hc
        simp only [Option.some.injEq] at h; subst h
        intro q hq
        rcases List.mem_cons.1 hq with rfl | hq
        · exact LexLe.of_not hc
        · exact ih q hq

/-! ### `grahamScan` = the chain scan on the reflected scan sequence -/

def grahamCore : List (P2 × Nat) → List Nat
  | a :: b :: c :: more => ((more.foldl (fun st p => p :: popGraham p.1 st) [c, b, a]).reverse).map (·.2)
  | _ => []

/-- entry `k` of the scan sequence `p0 :: sorted` -/
def gAt (L : List (P2 × Nat)) (k : Nat) : P2 × Nat := L[k]?.getD ((0, 0), 0)

/-- the scan sequence as a curve, reflected in the x-axis (clockwise becomes counter-clockwise) -/
def gPt (L : List (P2 × Nat)) : Nat → P2 := reflY (fun k => (gAt L k).1)

theorem ccw_gPt (L : List (P2 × Nat)) (a b c : Nat) :
    ccw (gPt L a) (gPt L b) (gPt L c) = -ccw (gAt L a).1 (gAt L b).1 (gAt L c).1 :=
  ccw_reflY _ a b c

theorem popGraham_map (L : List (P2 × Nat)) (i : Nat) : ∀ st : List Nat,
    popGraham (gAt L i).1 (st.map (gAt L)) = (popLower (gPt L) i st).map (gAt L)
  | [] => by simp [popGraham, popLower]
  | [_] => by simp [popGraham, popLower]
  | b :: a :: rest => by
    have ih := popGraham_map L i (a :: rest)
    simp only [List.map_cons] at ih ⊢
    rw [popGraham, popLower, ccw_gPt]
    by_cases h : 0 ≤ ccw (gAt L a).1 (gAt L b).1 (gAt L i).1
    · rw [if_pos h, if_pos (by linarith), ih]
    · rw [if_neg h, if_neg (by linarith)]
      simp

theorem lowerStack_succ (pt : Nat → P2) (j : Nat) :
    lowerStack pt (j + 1) = (j + 2) :: popLower pt (j + 2) (lowerStack pt j) := by
  simp [lowerStack, List.range_succ]

theorem graham_fold_map (a b c : P2 × Nat) (more : List (P2 × Nat))
    (h1 : lowerStack (gPt (a :: b :: c :: more)) 1 = [2, 1, 0]) : ∀ j, j ≤ more.length →
    (more.take j).foldl (fun st p => p :: popGraham p.1 st) [c, b, a] =
      (lowerStack (gPt (a :: b :: c :: more)) (j + 1)).map (gAt (a :: b :: c :: more))
  | 0, _ => by simp [h1, gAt]
  | j + 1, hj => by
    have ih := graham_fold_map a b c more h1 j (by omega)
    have hj' : j < more.length := by omega
    have hg : gAt (a :: b :: c :: more) (j + 3) = more[j] := by simp [gAt, hj']
    rw [List.take_add_one, List.foldl_append, ih, List.getElem?_eq_getElem hj']
    simp only [Option.toList_some, List.foldl_cons, List.foldl_nil]
    rw [lowerStack_succ _ (j + 1), List.map_cons, ← hg, popGraham_map]

theorem grahamCore_eq (L : List (P2 × Nat)) (h3 : 3 ≤ L.length)
    (hang : ∀ i j, 1 ≤ i → i < j → j < L.length → 0 < ccw (gPt L 0) (gPt L i) (gPt L j)) :
    grahamCore L = (hullLower (gPt L) L.length).map (fun k => (gAt L k).2) := by
  match L, h3, hang with
  | a :: b :: c :: more, _, hang =>
    have h1 := lowerStack_one hang (by simp)
    have := graham_fold_map a b c more h1 more.length (Nat.le_refl _)
    rw [List.take_length] at this
    rw [grahamCore, this, hullLower_eq]
    simp [List.map_reverse]

theorem grahamScan_eq_core (pts : List P2) : grahamScan pts =
    match lexMin (pts.zip (List.range pts.length)) with
    | none => []
    | some p0 => grahamCore (p0 :: sortAng p0.1 ((pts.zip (List.range pts.length)).filter fun q => q.2 ≠ p0.2)) := by
  unfold grahamScan
  simp only
  cases lexMin (pts.zip (List.range pts.length)) with
  | none => rfl
  | some p0 =>
    simp only
    generalize sortAng p0.1 _ = s
    match s with
    | [] => rfl
    | [_] => rfl
    | _ :: _ :: _ => rfl

/-! ### the indexed input `pts.zip (range n)` -/

/-- general position: no three distinct input points are collinear -/
def GenPos (pts : List P2) : Prop :=
  ∀ i j k, i < pts.length → j < pts.length → k < pts.length → i ≠ j → i ≠ k → j ≠ k →
    ccw (pts[i]?.getD (0, 0)) (pts[j]?.getD (0, 0)) (pts[k]?.getD (0, 0)) ≠ 0

theorem zip_range_eq_zipIdx (pts : List P2) : pts.zip (List.range pts.length) = pts.zipIdx := by
  rw [List.zipIdx_eq_zip_range', List.range_eq_range']

theorem mem_ip {pts : List P2} {q : P2 × Nat} :
    q ∈ pts.zip (List.range pts.length) ↔ q.2 < pts.length ∧ pts[q.2]?.getD (0, 0) = q.1 := by
  rw [zip_range_eq_zipIdx, List.mem_zipIdx_iff_getElem?, List.getElem?_eq_some_iff]
  constructor
  · rintro ⟨h, e⟩
    exact ⟨h, by simp [h, e]⟩
  · rintro ⟨h, e⟩
    exact ⟨h, by simpa [h] using e⟩

theorem ip_inj {pts : List P2} {q r : P2 × Nat} (hq : q ∈ pts.zip (List.range pts.length))
    (hr : r ∈ pts.zip (List.range pts.length)) (h : q.2 = r.2) : q = r := by
  have h1 := (mem_ip.1 hq).2
  have h2 := (mem_ip.1 hr).2
  rw [h] at h1
  exact Prod.ext (h1.symm.trans h2) h

theorem ip_pairwise (pts : List P2) :
    (pts.zip (List.range pts.length)).Pairwise (fun a b => a.2 ≠ b.2) := by
  have h : ((pts.zip (List.range pts.length)).map Prod.snd).Nodup := by
    rw [List.map_snd_zip (by simp)]; exact List.nodup_range
  exact List.pairwise_map.1 h

theorem ip_nodup (pts : List P2) : (pts.zip (List.range pts.length)).Nodup :=
  (ip_pairwise pts).imp (fun h e => h (by rw [e]))

theorem nodup_getD_ne {pts : List P2} (hnd : pts.Nodup) {i j : Nat} (hi : i < pts.length)
    (hj : j < pts.length) (hij : i ≠ j) : pts[i]?.getD (0, 0) ≠ pts[j]?.getD (0, 0) := by
  have h := List.pairwise_iff_getElem.1 hnd
  simp only [List.getElem?_eq_getElem hi, List.getElem?_eq_getElem hj, Option.getD_some]
  rcases Nat.lt_or_gt_of_ne hij with h' | h'
  · exact h i j hi hj h'
  · exact (h j i hj hi h').symm

/-- the rest of the points (everything but the pivot), as the model computes it -/
theorem ip_perm_rest {pts : List P2} {p0 : P2 × Nat} (h0 : p0 ∈ pts.zip (List.range pts.length)) :
    (pts.zip (List.range pts.length)).Perm
      (p0 :: (pts.zip (List.range pts.length)).filter fun q => q.2 ≠ p0.2) := by
  have e : (pts.zip (List.range pts.length)).filter (fun q => q.2 ≠ p0.2) =
      (pts.zip (List.range pts.length)).erase p0 := by
    rw [(ip_nodup pts).erase_eq_filter]
    refine List.filter_congr ?_
    intro q hq
    by_cases h : q.2 = p0.2
    · have := ip_inj hq h0 h
      subst this
      simp
    · have : q ≠ p0 := fun e => h (by rw [e])
      simp [h, this]
  rw [e]
  exact List.perm_cons_erase h0

/-! ### the structure of `grahamScan` in general position -/

/-- the facts about the scan sequence `L = p0 :: sorted` that the headline theorems need -/
structure GrahamSeq (pts : List P2) (L : List (P2 × Nat)) : Prop where
  perm : L.Perm (pts.zip (List.range pts.length))
  lexmin : ∀ q ∈ pts.zip (List.range pts.length), LexLe (gAt L 0).1 q.1
  hang : ∀ i j, 1 ≤ i → i < j → j < L.length → 0 < ccw (gPt L 0) (gPt L i) (gPt L j)
  eq : grahamScan pts = (hullLower (gPt L) L.length).map (fun k => (gAt L k).2)

theorem grahamScan_struct (pts : List P2) (hnd : pts.Nodup) (h3 : 3 ≤ pts.length) (hgp : GenPos pts) :
    ∃ L, GrahamSeq pts L := by
  have hlen : (pts.zip (List.range pts.length)).length = pts.length := by simp
  cases hp0 : lexMin (pts.zip (List.range pts.length)) with
  | none =>
    have := lexMin_eq_none _ hp0
    rw [this] at hlen
    simp at hlen
    omega
  | some p0 =>
    have h0 := lexMin_mem _ _ hp0
    have hle := lexMin_le _ _ hp0
    have hperm := ip_perm_rest h0
    have hrest : ∀ q, q ∈ (pts.zip (List.range pts.length)).filter (fun q => q.2 ≠ p0.2) →
        q ∈ pts.zip (List.range pts.length) ∧ q.2 ≠ p0.2 := by
      intro q hq
      have := List.mem_filter.1 hq
      exact ⟨this.1, by simpa using this.2⟩
    generalize hr : (pts.zip (List.range pts.length)).filter (fun q => q.2 ≠ p0.2) = rest at hperm hrest
    have h0' := mem_ip.1 h0
    -- the rest lies in the right half-plane
    have hright : ∀ q ∈ rest, RightOf p0.1 q.1 := by
      intro q hq
      obtain ⟨hq1, hq2⟩ := hrest q hq
      have hq' := mem_ip.1 hq1
      refine (hle q hq1).rightOf ?_
      rw [← h0'.2, ← hq'.2]
      exact nodup_getD_ne hnd h0'.1 hq'.1 (Ne.symm hq2)
    -- no two of the rest are collinear with the pivot
    have hne : rest.Pairwise (fun a b => ccw p0.1 a.1 b.1 ≠ 0) := by
      have hsub : rest.Pairwise (fun a b => a.2 ≠ b.2) := by
        rw [← hr]; exact (ip_pairwise pts).sublist List.filter_sublist
      refine hsub.imp_of_mem ?_
      intro a b ha hb hab
      obtain ⟨ha1, ha2⟩ := hrest a ha
      obtain ⟨hb1, hb2⟩ := hrest b hb
      have ha' := mem_ip.1 ha1
      have hb' := mem_ip.1 hb1
      rw [← h0'.2, ← ha'.2, ← hb'.2]
      exact hgp _ _ _ h0'.1 ha'.1 hb'.1 (Ne.symm ha2) (Ne.symm hb2) hab
    have hsorted := sortAng_pairwise p0.1 rest hright hne
    have hsperm := sortAng_perm p0.1 rest
    generalize hs : sortAng p0.1 rest = sorted at hsorted hsperm
    have hLperm : (p0 :: sorted).Perm (pts.zip (List.range pts.length)) :=
      (hsperm.cons p0).trans hperm.symm
    have hLlen : (p0 :: sorted).length = pts.length := by rw [hLperm.length_eq, hlen]
    have hang : ∀ i j, 1 ≤ i → i < j → j < (p0 :: sorted).length →
        0 < ccw (gPt (p0 :: sorted) 0) (gPt (p0 :: sorted) i) (gPt (p0 :: sorted) j) := by
      intro i j hi hij hj
      obtain ⟨i', rfl⟩ : ∃ i', i = i' + 1 := ⟨i - 1, by omega⟩
      obtain ⟨j', rfl⟩ : ∃ j', j = j' + 1 := ⟨j - 1, by omega⟩
      have hj' : j' < sorted.length := by simpa using hj
      have hi' : i' < sorted.length := by omega
      have := List.pairwise_iff_getElem.1 hsorted i' j' hi' hj' (by omega)
      rw [ccw_gPt]
      simp only [gAt, List.getElem?_cons_zero, List.getElem?_cons_succ, Option.getD_some,
        List.getElem?_eq_getElem hi', List.getElem?_eq_getElem hj']
      unfold AngLt at this
      linarith
    refine ⟨p0 :: sorted, hLperm, ?_, hang, ?_⟩
    · simpa [gAt] using hle
    · rw [grahamScan_eq_core, hp0]
      simp only
      rw [hr, hs]
      exact grahamCore_eq _ (by omega) hang


/-! ### support of the chain scan on an angularly sorted sequence, by position -/

theorem hullLower_supports_ang (pt : Nat → P2) (n : Nat) (hn : 2 ≤ n)
    (hang : ∀ i j, 1 ≤ i → i < j → j < n → 0 < ccw (pt 0) (pt i) (pt j)) :
    ∀ k, k < n → ∀ i, i + 1 < (hullLower pt n).length →
      0 ≤ ccw (pt ((hullLower pt n)[i]?.getD 0)) (pt ((hullLower pt n)[i + 1]?.getD 0)) (pt k) := by
  intro k hk i hi
  have h := lowerStack_above_ang hang (n - 2) (by omega)
  exact Adj2.reverse_getD (R := fun b a => ∀ k, k ≤ n - 2 + 1 → 0 ≤ ccw (pt a) (pt b) (pt k)) _
    h i hi k (by omega)

theorem hullLower_closing_ang (pt : Nat → P2) (n : Nat)
    (hang : ∀ i j, 1 ≤ i → i < j → j < n → 0 < ccw (pt 0) (pt i) (pt j)) :
    ∀ k, k < n → 0 ≤ ccw (pt (n - 1)) (pt 0) (pt k) := by
  intro k hk
  rw [ccw_rot]
  exact ang_le hang (show k ≤ n - 1 by omega) (by omega)

theorem hullLower_length_ang (pt : Nat → P2) (n : Nat) (hn : 3 ≤ n)
    (hang : ∀ i j, 1 ≤ i → i < j → j < n → 0 < ccw (pt 0) (pt i) (pt j)) :
    3 ≤ (hullLower pt n).length := by
  rw [hullLower_eq, List.length_reverse]
  exact lowerStack_length_ang hang (n - 2) (by omega) (by omega)

theorem hullLower_mem_lt (pt : Nat → P2) (n : Nat) (hn : 2 ≤ n) (i : Nat)
    (hi : i < (hullLower pt n).length) : (hullLower pt n)[i]?.getD 0 < n := by
  have h := lowerStack_idx pt (n - 2)
  have hmem : (hullLower pt n)[i]?.getD 0 ∈ lowerStack pt (n - 2) := by
    rw [List.getElem?_eq_getElem hi, Option.getD_some]
    have : (hullLower pt n)[i] ∈ (lowerStack pt (n - 2)).reverse := List.getElem_mem hi
    exact List.mem_reverse.1 this
  have := h.lt _ hmem
  omega

/-! ### consequences for `grahamScan` -/

namespace GrahamSeq
variable {pts : List P2} {L : List (P2 × Nat)} (hs : GrahamSeq pts L)
include hs

theorem length_eq : L.length = pts.length := by
  rw [hs.perm.length_eq]; simp

theorem gAt_spec {k : Nat} (hk : k < L.length) :
    (gAt L k).2 < pts.length ∧ pts[(gAt L k).2]?.getD (0, 0) = (gAt L k).1 := by
  have : gAt L k ∈ L := by
    simp only [gAt, List.getElem?_eq_getElem hk, Option.getD_some]
    exact List.getElem_mem hk
  exact mem_ip.1 (hs.perm.mem_iff.1 this)

theorem exists_pos {k : Nat} (hk : k < pts.length) :
    ∃ k', k' < L.length ∧ (gAt L k').1 = pts[k]?.getD (0, 0) := by
  have : (pts[k]?.getD (0, 0), k) ∈ L := hs.perm.mem_iff.2 (mem_ip.2 ⟨hk, rfl⟩)
  obtain ⟨k', hk', e⟩ := List.getElem_of_mem this
  refine ⟨k', hk', ?_⟩
  simp [gAt, List.getElem?_eq_getElem hk', e]

theorem length_scan : (grahamScan pts).length = (hullLower (gPt L) L.length).length := by
  rw [hs.eq, List.length_map]

/-- the point at output position `i` is the scan-sequence point at chain position `i` -/
theorem point (h2 : 2 ≤ L.length) {i : Nat} (hi : i < (grahamScan pts).length) :
    pts[(grahamScan pts)[i]?.getD 0]?.getD (0, 0) =
      (gAt L ((hullLower (gPt L) L.length)[i]?.getD 0)).1 := by
  have hi' : i < (hullLower (gPt L) L.length).length := by rwa [← hs.length_scan]
  have hlt := hullLower_mem_lt (gPt L) L.length h2 i hi'
  have e : (grahamScan pts)[i]?.getD 0 = (gAt L ((hullLower (gPt L) L.length)[i]?.getD 0)).2 := by
    simp only [hs.eq, List.getElem?_map, List.getElem?_eq_getElem hi', Option.map_some,
      Option.getD_some]
  rw [e]
  exact (hs.gAt_spec hlt).2

end GrahamSeq

/-! ### the closed vertex cycle -/

/-- the closed vertex cycle `H ++ [H[0]]`, by position -/
theorem cycle_getD (H : List Nat) (i : Nat) (hi : i + 1 < (H ++ [H[0]?.getD 0]).length) :
    (H ++ [H[0]?.getD 0])[i]?.getD 0 = H[i]?.getD 0 ∧
      ((i + 1 < H.length ∧ (H ++ [H[0]?.getD 0])[i + 1]?.getD 0 = H[i + 1]?.getD 0) ∨
       (i + 1 = H.length ∧ (H ++ [H[0]?.getD 0])[i + 1]?.getD 0 = H[0]?.getD 0)) := by
  have hlen : i < H.length := by simpa using hi
  refine ⟨by rw [List.getElem?_append_left hlen], ?_⟩
  by_cases h : i + 1 < H.length
  · exact Or.inl ⟨h, by rw [List.getElem?_append_left h]⟩
  · have e : i + 1 = H.length := by omega
    refine Or.inr ⟨e, ?_⟩
    rw [List.getElem?_append_right (by omega), e]
    simp

theorem nodup_getD_ne_nat {H : List Nat} (hnd : H.Nodup) {i j : Nat} (hi : i < H.length)
    (hj : j < H.length) (hij : i ≠ j) : H[i]?.getD 0 ≠ H[j]?.getD 0 := by
  have h := List.pairwise_iff_getElem.1 hnd
  simp only [List.getElem?_eq_getElem hi, List.getElem?_eq_getElem hj, Option.getD_some]
  rcases Nat.lt_or_gt_of_ne hij with h' | h'
  · exact h i j hi hj h'
  · exact (h j i hj hi h').symm

theorem getD_mem_nat {H : List Nat} {i : Nat} (hi : i < H.length) : H[i]?.getD 0 ∈ H := by
  rw [List.getElem?_eq_getElem hi, Option.getD_some]
  exact List.getElem_mem hi

/-- general position implies distinct points (given at least three points) -/
theorem GenPos.nodup {pts : List P2} (hgp : GenPos pts) (h3 : 3 ≤ pts.length) : pts.Nodup := by
  refine List.pairwise_iff_getElem.2 ?_
  intro i j hi hj hij e
  obtain ⟨k, hk, hki, hkj⟩ : ∃ k, k < pts.length ∧ i ≠ k ∧ j ≠ k := by
    by_cases h0 : i ≠ 0 ∧ j ≠ 0
    · exact ⟨0, by omega, h0.1, h0.2⟩
    · by_cases h1 : i ≠ 1 ∧ j ≠ 1
      · exact ⟨1, by omega, h1.1, h1.2⟩
      · exact ⟨2, by omega, by omega, by omega⟩
  have := hgp i j k hi hj hk (by omega) hki hkj
  simp only [List.getElem?_eq_getElem hi, List.getElem?_eq_getElem hj, Option.getD_some, e] at this
  exact this (ccw_self_left _ _)

end Knee

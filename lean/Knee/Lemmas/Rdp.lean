import Knee.Model.Rdp
import Knee.Lemmas.Basic
import Knee.Lemmas.Mapping
/-! Lemmas for the threshold-RDP loop (C01, C04): chain invariant and potential. -/
namespace Knee

/-- split index is strictly interior as soon as the range has ≥ 3 points -/
theorem splitOf_interior {d : List Rat} (h : 3 ≤ d.length) : 1 ≤ splitOf d ∧ splitOf d + 2 ≤ d.length := by
  have h1 := argmaxIdx_lt_length (interior_ne_nil h)
  rw [interior_length] at h1
  unfold splitOf
  omega

/-- `IsChain a n segs`: the half-open ranges in `segs` tile `[a, n)` sharing end points:
each has ≥ 2 points, starts where the previous one ended (its last index), the last ends at `n`. -/
def IsChain (n : Nat) : Nat → List (Nat × Nat) → Prop
  | a, [] => a + 1 = n
  | a, (l, r) :: rest => l = a ∧ l + 2 ≤ r ∧ IsChain n (r - 1) rest

theorem IsChain_append {n : Nat} : ∀ (xs ys : List (Nat × Nat)) (a : Nat),
    IsChain n a (xs ++ ys) ↔ ∃ b, IsChain (b + 1) a xs ∧ IsChain n b ys := by
  intro xs
  induction xs with
  | nil =>
    intro ys a
    simp only [List.nil_append, IsChain]
    constructor
    · intro h; exact ⟨a, rfl, h⟩
    · rintro ⟨b, hb, h⟩; have : a = b := by omega
      subst this; exact h
  | cons x xs ih =>
    intro ys a
    obtain ⟨l, r⟩ := x
    simp only [List.cons_append, IsChain, ih]
    constructor
    · rintro ⟨h1, h2, b, h3, h4⟩; exact ⟨b, ⟨h1, h2, h3⟩, h4⟩
    · rintro ⟨b, ⟨h1, h2, h3⟩, h4⟩; exact ⟨h1, h2, b, h3, h4⟩

/-- potential: a range of m points costs at most 2m-3 iterations -/
def pot : List (Nat × Nat) → Nat
  | [] => 0
  | (l, r) :: st => (2 * (r - l) - 3) + pot st

/-- curved ranges have at least 3 points when the threshold is in the stated domain -/
theorem curved_len (isR2 : Bool) (t : Rat) (cst : Nat → Nat → Rat) (l r : Nat)
    (ht : if isR2 then t ≤ 1 else 0 < t)
    (hc : curved isR2 t (segCost isR2 cst l r) = true) : 3 ≤ r - l := by
  apply Nat.le_of_not_lt
  intro hlt
  have h2 : r - l ≤ 2 := by omega
  unfold segCost curved at hc
  rw [if_pos h2] at hc
  cases isR2 with
  | true =>
    simp only [if_true] at hc ht
    have := of_decide_eq_true hc
    grind
  | false =>
    simp only [Bool.false_eq_true, if_false] at hc ht
    have := of_decide_eq_true hc
    grind

end Knee

namespace Knee

theorem pot_cons (l r : Nat) (st : List (Nat × Nat)) : pot ((l, r) :: st) = (2 * (r - l) - 3) + pot st := rfl

/-- Main invariant of the threshold-RDP loop: accepted segments (oldest first) followed by the
work stack always tile `[0, n)`; the potential pays for every iteration. -/
theorem rdpLoop_spec (isR2 : Bool) (t : Rat) (cst : Nat → Nat → Rat) (dst : Nat → Nat → List Rat) (n : Nat)
    (ht : if isR2 then t ≤ 1 else 0 < t) (hd : ∀ l r, (dst l r).length = r - l) :
    ∀ (fuel : Nat) (st out : List (Nat × Nat)), IsChain n 0 (out.reverse ++ st) → pot st + 1 ≤ fuel →
      ∃ res, rdpLoop isR2 t cst dst fuel st out = some res ∧ IsChain n 0 res.reverse := by
  intro fuel
  induction fuel with
  | zero => intro st out _ h; omega
  | succ f ih =>
    intro st out hc hp
    match st with
    | [] => exact ⟨out, rfl, by simpa using hc⟩
    | (l, r) :: st' =>
      obtain ⟨b, hb1, hb2⟩ := (IsChain_append _ _ _).mp hc
      obtain ⟨hlb, hlr, hrest⟩ := hb2
      simp only [rdpLoop]
      split
      · rename_i hcur
        have hm := curved_len isR2 t cst l r ht hcur
        have hsp := splitOf_interior (d := dst l r) (by rw [hd]; exact hm)
        rw [hd] at hsp
        generalize splitOf (dst l r) = i at hsp
        apply ih
        · apply (IsChain_append _ _ _).mpr
          refine ⟨b, hb1, hlb, by omega, ?_, by omega, ?_⟩
          · omega
          · have : r - 1 = r - 1 := rfl
            exact hrest
        · simp only [pot_cons] at hp ⊢
          omega
      · apply ih
        · simpa using hc
        · simp only [pot_cons] at hp
          omega

/-- what a tiling chain says about `(reduced, removed)` -/
theorem chain_result (n : Nat) : ∀ (segs : List (Nat × Nat)) (a : Nat), IsChain n a segs →
    (∃ T, segs.map (·.1) ++ [n - 1] = a :: T) ∧
    (segs.map (·.1) ++ [n - 1]).Pairwise (· < ·) ∧
    computeRemoved (segs.map (·.1) ++ [n - 1]) = segs.map (fun s => (s.1, s.2 - s.1 - 2)) := by
  intro segs
  induction segs with
  | nil =>
    intro a h
    simp only [IsChain] at h
    refine ⟨⟨[], ?_⟩, by simp, by simp [computeRemoved]⟩
    simp; omega
  | cons s rest ih =>
    intro a h
    obtain ⟨l, r⟩ := s
    obtain ⟨hla, hlr, hrest⟩ := h
    obtain ⟨⟨T, hT⟩, hpw, hcr⟩ := ih (r - 1) hrest
    refine ⟨⟨_, by simp [hla]; rfl⟩, ?_, ?_⟩
    · simp only [List.map_cons, List.cons_append]
      refine List.Pairwise.cons ?_ hpw
      intro x hx
      rw [hT] at hx hpw
      rcases List.mem_cons.mp hx with rfl | hx
      · omega
      · have := List.rel_of_pairwise_cons hpw hx
        omega
    · simp only [List.map_cons, List.cons_append]
      rw [hT] at hcr ⊢
      simp only [computeRemoved, hcr]
      congr 2
      omega

theorem rdpSteps_le (isR2 : Bool) (t : Rat) (cst : Nat → Nat → Rat) (dst : Nat → Nat → List Rat)
    (ht : if isR2 then t ≤ 1 else 0 < t) (hd : ∀ l r, (dst l r).length = r - l) :
    ∀ (fuel : Nat) (st : List (Nat × Nat)), (∀ p ∈ st, p.1 + 2 ≤ p.2) →
      rdpSteps isR2 t cst dst fuel st ≤ pot st := by
  intro fuel
  induction fuel with
  | zero => intro st _; simp [rdpSteps]
  | succ f ih =>
    intro st hst
    match st with
    | [] => simp [rdpSteps]
    | (l, r) :: st' =>
      have hlr : l + 2 ≤ r := hst (l, r) List.mem_cons_self
      have hst' : ∀ p ∈ st', p.1 + 2 ≤ p.2 := fun p hp => hst p (List.mem_cons_of_mem _ hp)
      simp only [rdpSteps]
      split
      · rename_i hcur
        have hm := curved_len isR2 t cst l r ht hcur
        have hsp := splitOf_interior (d := dst l r) (by rw [hd]; exact hm)
        rw [hd] at hsp
        generalize splitOf (dst l r) = i at hsp
        have := ih ((l, l + i + 1) :: (l + i, r) :: st') (by
          intro p hp
          simp only [List.mem_cons] at hp
          rcases hp with rfl | rfl | hp
          · simp; omega
          · simp; omega
          · exact hst' p hp)
        simp only [pot_cons] at this ⊢
        omega
      · have := ih st' hst'
        simp only [pot_cons]
        omega

end Knee

import Mathlib.Tactic.Ring
import Mathlib.Tactic.Linarith
import Knee.Model.Hull
/-! Helper lemmas for C18 (monotone-chain hull scans). Stacks: head = top. -/
namespace Knee

/-! ### adjacency predicates on stacks -/

/-- `R top below` for every adjacent pair of the stack -/
def Adj2 (R : Nat → Nat → Prop) : List Nat → Prop
  | b :: a :: rest => R b a ∧ Adj2 R (a :: rest)
  | _ => True

/-- `R top mid below` for every adjacent triple of the stack -/
def Adj3 (R : Nat → Nat → Nat → Prop) : List Nat → Prop
  | c :: b :: a :: rest => R c b a ∧ Adj3 R (b :: a :: rest)
  | _ => True

theorem Adj2.tail {R : Nat → Nat → Prop} : ∀ {x : Nat} {l : List Nat}, Adj2 R (x :: l) → Adj2 R l
  | _, [], _ => trivial
  | _, _ :: _, h => h.2

theorem Adj3.tail {R : Nat → Nat → Nat → Prop} : ∀ {x : Nat} {l : List Nat}, Adj3 R (x :: l) → Adj3 R l
  | _, [], _ => trivial
  | _, [_], _ => trivial
  | _, _ :: _ :: _, h => h.2

theorem Adj2.mono {R S : Nat → Nat → Prop} (hRS : ∀ b a, R b a → S b a) :
    ∀ l : List Nat, Adj2 R l → Adj2 S l
  | [], _ => trivial
  | [_], _ => trivial
  | b :: a :: rest, h => ⟨hRS b a h.1, Adj2.mono hRS (a :: rest) h.2⟩

theorem Adj2.getD {R : Nat → Nat → Prop} : ∀ (l : List Nat), Adj2 R l → ∀ i, i + 1 < l.length →
    R (l[i]?.getD 0) (l[i + 1]?.getD 0)
  | [], _, i, hi => by simp at hi
  | [_], _, i, hi => by simp at hi
  | b :: a :: rest, h, 0, _ => by simpa using h.1
  | b :: a :: rest, h, i + 1, hi => by
    have := Adj2.getD (a :: rest) h.2 i (by simpa using hi)
    simpa using this

theorem Adj3.getD {R : Nat → Nat → Nat → Prop} : ∀ (l : List Nat), Adj3 R l → ∀ i, i + 2 < l.length →
    R (l[i]?.getD 0) (l[i + 1]?.getD 0) (l[i + 2]?.getD 0)
  | [], _, i, hi => by simp at hi
  | [_], _, i, hi => by simp at hi
  | [_, _], _, i, hi => by simp at hi
  | c :: b :: a :: rest, h, 0, _ => by simpa using h.1
  | c :: b :: a :: rest, h, i + 1, hi => by
    have := Adj3.getD (b :: a :: rest) h.2 i (by simpa using hi)
    simpa using this

/-- adjacent pairs of the reversed stack, by position -/
theorem Adj2.reverse_getD {R : Nat → Nat → Prop} (st : List Nat) (h : Adj2 R st) (i : Nat)
    (hi : i + 1 < st.reverse.length) :
    R (st.reverse[i + 1]?.getD 0) (st.reverse[i]?.getD 0) := by
  rw [List.length_reverse] at hi
  rw [List.getElem?_reverse (by omega), List.getElem?_reverse (by omega)]
  have := Adj2.getD st h (st.length - 1 - (i + 1)) (by omega)
  have e : st.length - 1 - (i + 1) + 1 = st.length - 1 - i := by omega
  rwa [e] at this

/-- adjacent triples of the reversed stack, by position -/
theorem Adj3.reverse_getD {R : Nat → Nat → Nat → Prop} (st : List Nat) (h : Adj3 R st) (i : Nat)
    (hi : i + 2 < st.reverse.length) :
    R (st.reverse[i + 2]?.getD 0) (st.reverse[i + 1]?.getD 0) (st.reverse[i]?.getD 0) := by
  rw [List.length_reverse] at hi
  rw [List.getElem?_reverse (by omega), List.getElem?_reverse (by omega),
    List.getElem?_reverse (by omega)]
  have := Adj3.getD st h (st.length - 1 - (i + 2)) (by omega)
  have e1 : st.length - 1 - (i + 2) + 1 = st.length - 1 - (i + 1) := by omega
  have e2 : st.length - 1 - (i + 2) + 2 = st.length - 1 - i := by omega
  rwa [e1, e2] at this

/-! ### generic fold invariant -/

theorem foldl_range_inv {α : Type} (f : α → Nat → α) (Q : Nat → α → Prop) (init : α) (m : Nat)
    (h0 : Q 0 init) (hs : ∀ k st, k < m → Q k st → Q (k + 1) (f st k)) :
    ∀ j, j ≤ m → Q j ((List.range j).foldl f init) := by
  intro j
  induction j with
  | zero => intro _; simpa using h0
  | succ j ih =>
    intro hj
    rw [List.range_succ, List.foldl_append]
    exact hs j _ (by omega) (ih (by omega))

/-! ### `popLower` -/

/-- a property preserved by each single pop holds for the popped stack -/
theorem popLower_invariant (pt : Nat → P2) (i : Nat) (P : List Nat → Prop)
    (step : ∀ b a rest, ccw (pt a) (pt b) (pt i) ≤ 0 → P (b :: a :: rest) → P (a :: rest)) :
    ∀ st, P st → P (popLower pt i st)
  | [], h => by simpa [popLower] using h
  | [_], h => by simpa [popLower] using h
  | b :: a :: rest, h => by
    rw [popLower]
    split
    · exact popLower_invariant pt i P step (a :: rest) (step b a rest ‹_› h)
    · exact h

/-- after popping, the top edge turns strictly counter-clockwise towards `i` -/
theorem popLower_top (pt : Nat → P2) (i : Nat) : ∀ st b a rest,
    popLower pt i st = b :: a :: rest → 0 < ccw (pt a) (pt b) (pt i)
  | [], b, a, rest, h => by simp [popLower] at h
  | [_], b, a, rest, h => by simp [popLower] at h
  | b' :: a' :: rest', b, a, rest, h => by
    rw [popLower] at h
    split at h
    · exact popLower_top pt i (a' :: rest') b a rest h
    · rename_i hc
      simp only [List.cons.injEq] at h
      obtain ⟨rfl, rfl, _⟩ := h
      exact lt_of_not_ge hc

theorem popLower_ne_nil (pt : Nat → P2) (i : Nat) (st : List Nat) (h : st ≠ []) :
    popLower pt i st ≠ [] :=
  popLower_invariant pt i (· ≠ []) (fun _ _ _ _ _ => by simp) st h

/-! ### index invariant -/

/-- the stack is strictly decreasing from the last processed index `m` down to `0` -/
def IdxInv (m : Nat) (st : List Nat) : Prop :=
  st.Pairwise (· > ·) ∧ st.head? = some m ∧ st.getLast? = some 0 ∧ 2 ≤ st.length

theorem IdxInv.lt {m : Nat} {st : List Nat} (h : IdxInv m st) : ∀ x ∈ st, x ≤ m := by
  obtain ⟨hp, hh, _, _⟩ := h
  match st, hp, hh with
  | t :: rest, hp, hh =>
    simp only [List.head?_cons, Option.some.injEq] at hh
    subst hh
    intro x hx
    rcases List.mem_cons.1 hx with rfl | hx
    · exact Nat.le_refl _
    · exact Nat.le_of_lt ((List.pairwise_cons.1 hp).1 x hx)

/-- the part of the index invariant preserved while popping -/
def PopIdx (i : Nat) (st : List Nat) : Prop :=
  st.Pairwise (· > ·) ∧ st.getLast? = some 0 ∧ st ≠ [] ∧ ∀ x ∈ st, x < i

theorem popLower_popIdx (pt : Nat → P2) (i : Nat) (st : List Nat) (h : PopIdx i st) :
    PopIdx i (popLower pt i st) := by
  refine popLower_invariant pt i (PopIdx i) ?_ st h
  rintro b a rest _ ⟨hp, hl, _, hm⟩
  refine ⟨(List.pairwise_cons.1 hp).2, ?_, by simp, fun x hx => hm x (List.mem_cons_of_mem _ hx)⟩
  rwa [List.getLast?_cons_cons] at hl

theorem IdxInv.popIdx {m : Nat} {st : List Nat} (h : IdxInv m st) : PopIdx (m + 1) st := by
  refine ⟨h.1, h.2.2.1, ?_, fun x hx => Nat.lt_succ_of_le (h.lt x hx)⟩
  have := h.2.2.2
  intro e; subst e; simp at this

theorem PopIdx.push {i : Nat} {st : List Nat} (h : PopIdx i st) : IdxInv i (i :: st) := by
  obtain ⟨hp, hl, hne, hm⟩ := h
  refine ⟨List.pairwise_cons.2 ⟨fun x hx => hm x hx, hp⟩, by simp, ?_, ?_⟩
  · match st, hne with
    | t :: rest, _ => rwa [List.getLast?_cons_cons]
  · match st, hne with
    | t :: rest, _ => simp

theorem idxInv_step (pt : Nat → P2) (k : Nat) (st : List Nat) (h : IdxInv (k + 1) st) :
    IdxInv (k + 2) ((k + 2) :: popLower pt (k + 2) st) :=
  (popLower_popIdx pt (k + 2) st h.popIdx).push

theorem idxInv_init : IdxInv (0 + 1) [1, 0] := by
  refine ⟨by simp, by simp, by simp, by simp⟩

/-- the scan, before the final reversal -/
def lowerStack (pt : Nat → P2) (j : Nat) : List Nat :=
  (List.range j).foldl (fun st k => (k + 2) :: popLower pt (k + 2) st) [1, 0]

theorem hullLower_eq (pt : Nat → P2) (n : Nat) : hullLower pt n = (lowerStack pt (n - 2)).reverse := rfl

theorem lowerStack_idx (pt : Nat → P2) (j : Nat) : IdxInv (j + 1) (lowerStack pt j) :=
  foldl_range_inv _ (fun k st => IdxInv (k + 1) st) [1, 0] j idxInv_init
    (fun k st _ h => idxInv_step pt k st h) j (Nat.le_refl _)

/-! ### strict turns -/

/-- every adjacent triple `c :: b :: a` of the stack turns strictly counter-clockwise -/
def ConvexL (pt : Nat → P2) (st : List Nat) : Prop :=
  Adj3 (fun c b a => 0 < ccw (pt a) (pt b) (pt c)) st

theorem convexL_step (pt : Nat → P2) (i : Nat) (st : List Nat) (h : ConvexL pt st) :
    ConvexL pt (i :: popLower pt i st) := by
  have hc : ConvexL pt (popLower pt i st) :=
    popLower_invariant pt i (ConvexL pt) (fun _ _ _ _ h => Adj3.tail h) st h
  match hst : popLower pt i st with
  | [] => trivial
  | [_] => trivial
  | b :: a :: rest =>
    rw [hst] at hc
    exact ⟨popLower_top pt i st b a rest hst, hc⟩

theorem lowerStack_convex (pt : Nat → P2) (j : Nat) : ConvexL pt (lowerStack pt j) :=
  foldl_range_inv _ (fun _ st => ConvexL pt st) [1, 0] j trivial
    (fun k st _ h => convexL_step pt (k + 2) st h) j (Nat.le_refl _)

/-! ### orientation identities -/

theorem ccw_self_right (a b : P2) : ccw a b b = 0 := by unfold ccw; ring
theorem ccw_self_mid (a b : P2) : ccw a b a = 0 := by unfold ccw; ring

/-- pop justification, points left of the popped vertex -/
theorem ccw_pop_left (a b i k : P2) (hab : a.1 < b.1) (hai : a.1 ≤ i.1) (hak : a.1 ≤ k.1)
    (h1 : 0 ≤ ccw a b k) (h2 : ccw a b i ≤ 0) : 0 ≤ ccw a i k := by
  have key : ccw a i k * (b.1 - a.1) = ccw a b k * (i.1 - a.1) + (-ccw a b i) * (k.1 - a.1) := by
    unfold ccw; ring
  refine nonneg_of_mul_nonneg_left (b := b.1 - a.1) ?_ (by linarith)
  rw [key]
  exact add_nonneg (mul_nonneg h1 (by linarith)) (mul_nonneg (by linarith) (by linarith))

/-- pop justification, points right of the popped vertex -/
theorem ccw_pop_right (a b i k : P2) (hbi : b.1 < i.1) (hai : a.1 ≤ i.1) (hki : k.1 ≤ i.1)
    (h1 : 0 ≤ ccw b i k) (h2 : ccw a b i ≤ 0) : 0 ≤ ccw a i k := by
  have key : ccw a i k * (i.1 - b.1) = ccw b i k * (i.1 - a.1) + (-ccw a b i) * (i.1 - k.1) := by
    unfold ccw; ring
  refine nonneg_of_mul_nonneg_left (b := i.1 - b.1) ?_ (by linarith)
  rw [key]
  exact add_nonneg (mul_nonneg h1 (by linarith)) (mul_nonneg (by linarith) (by linarith))

/-- a point above edge `a b` and left of `b` is above the next edge `b c` of a convex chain -/
theorem ccw_prop_right (a b c p : P2) (hab : a.1 < b.1) (hbc : b.1 ≤ c.1) (hp : p.1 ≤ b.1)
    (h1 : 0 ≤ ccw a b p) (h2 : 0 ≤ ccw a b c) : 0 ≤ ccw b c p := by
  have key : ccw b c p * (b.1 - a.1) = ccw a b p * (c.1 - b.1) + ccw a b c * (b.1 - p.1) := by
    unfold ccw; ring
  refine nonneg_of_mul_nonneg_left (b := b.1 - a.1) ?_ (by linarith)
  rw [key]
  exact add_nonneg (mul_nonneg h1 (by linarith)) (mul_nonneg h2 (by linarith))

/-- a point above edge `b c` and right of `b` is above the previous edge `a b` of a convex chain -/
theorem ccw_prop_left (a b c p : P2) (hab : a.1 ≤ b.1) (hbc : b.1 < c.1) (hp : b.1 ≤ p.1)
    (h1 : 0 ≤ ccw b c p) (h2 : 0 ≤ ccw a b c) : 0 ≤ ccw a b p := by
  have key : ccw a b p * (c.1 - b.1) = ccw b c p * (b.1 - a.1) + ccw a b c * (p.1 - b.1) := by
    unfold ccw; ring
  refine nonneg_of_mul_nonneg_left (b := c.1 - b.1) ?_ (by linarith)
  rw [key]
  exact add_nonneg (mul_nonneg h1 (by linarith)) (mul_nonneg h2 (by linarith))

theorem Adj2.and {R S T : Nat → Nat → Prop} (hRST : ∀ b a, R b a → S b a → T b a) :
    ∀ l : List Nat, Adj2 R l → Adj2 S l → Adj2 T l
  | [], _, _ => trivial
  | [_], _, _ => trivial
  | b :: a :: rest, h, h' => ⟨hRST b a h.1 h'.1, Adj2.and hRST (a :: rest) h.2 h'.2⟩

/-! ### support invariant -/

section Support
variable {pt : Nat → P2} {n : Nat} (hx : ∀ i j, i < j → j < n → (pt i).1 < (pt j).1)
include hx

theorem hull_x_le {i j : Nat} (hij : i ≤ j) (hj : j < n) : (pt i).1 ≤ (pt j).1 := by
  rcases Nat.lt_or_eq_of_le hij with h | rfl
  · exact le_of_lt (hx i j h hj)
  · exact le_refl _

/-- a point right of the second stack vertex and above the top edge is above every edge of a
convex stack -/
theorem above_of_top (p : P2) : ∀ (b a : Nat) (rest : List Nat), (b :: a :: rest).Pairwise (· > ·) →
    b < n → ConvexL pt (b :: a :: rest) → 0 ≤ ccw (pt a) (pt b) p → (pt a).1 ≤ p.1 →
    Adj2 (fun b a => 0 ≤ ccw (pt a) (pt b) p) (b :: a :: rest)
  | b, a, [], _, _, _, h, _ => ⟨h, trivial⟩
  | b, a, a' :: rest, hp, hb, hc, h, hpx => by
    have hab : a < b := (List.pairwise_cons.1 hp).1 a (by simp)
    have hp' := (List.pairwise_cons.1 hp).2
    have ha'a : a' < a := (List.pairwise_cons.1 hp').1 a' (by simp)
    have hxa : (pt a').1 ≤ (pt a).1 := le_of_lt (hx a' a ha'a (by omega))
    refine ⟨h, above_of_top p a a' rest hp' (by omega) (Adj3.tail hc) ?_ (le_trans hxa hpx)⟩
    exact ccw_prop_left (pt a') (pt a) (pt b) p hxa (hx a b hab hb) hpx h (le_of_lt hc.1)

/-- every point `k ≤ m` is on or above (the line through) every stack edge -/
def AboveL (pt : Nat → P2) (m : Nat) (st : List Nat) : Prop :=
  Adj2 (fun b a => ∀ k, k ≤ m → 0 ≤ ccw (pt a) (pt b) (pt k)) st

/-- the support property carried through the pops before pushing `m + 1` -/
def PopAbove (pt : Nat → P2) (m : Nat) (st : List Nat) : Prop :=
  st.Pairwise (· > ·) ∧ (∀ x ∈ st, x ≤ m) ∧ AboveL pt m st ∧
    ∃ t rest, st = t :: rest ∧ ∀ k, t ≤ k → k ≤ m + 1 → 0 ≤ ccw (pt t) (pt (m + 1)) (pt k)

theorem popLower_popAbove (m : Nat) (hm : m + 1 < n) (st : List Nat) (h : PopAbove pt m st) :
    PopAbove pt m (popLower pt (m + 1) st) := by
  refine popLower_invariant pt (m + 1) (PopAbove pt m) ?_ st h
  rintro b a rest hc ⟨hp, hmem, hab, t, rest', hst, ht⟩
  simp only [List.cons.injEq] at hst
  obtain ⟨rfl, rfl⟩ := hst
  have hlt : a < b := (List.pairwise_cons.1 hp).1 a (by simp)
  have hbm : b ≤ m := hmem b (by simp)
  refine ⟨(List.pairwise_cons.1 hp).2, fun x hx' => hmem x (List.mem_cons_of_mem _ hx'),
    Adj2.tail hab, a, rest, rfl, ?_⟩
  intro k hak hkm
  have hai : (pt a).1 ≤ (pt (m + 1)).1 := hull_x_le hx (by omega) hm
  by_cases hkb : k ≤ b
  · exact ccw_pop_left (pt a) (pt b) (pt (m + 1)) (pt k) (hx a b hlt (by omega)) hai
      (hull_x_le hx hak (by omega)) (hab.1 k (by omega)) hc
  · exact ccw_pop_right (pt a) (pt b) (pt (m + 1)) (pt k) (hx b (m + 1) (by omega) hm) hai
      (hull_x_le hx hkm hm) (ht k (by omega) hkm) hc

theorem aboveL_step (m : Nat) (hm : m + 1 < n) (st : List Nat) (hidx : IdxInv m st)
    (hcv : ConvexL pt st) (hab : AboveL pt m st) :
    AboveL pt (m + 1) ((m + 1) :: popLower pt (m + 1) st) := by
  have hpi := popLower_popIdx pt (m + 1) st hidx.popIdx
  have hc : ConvexL pt (popLower pt (m + 1) st) :=
    popLower_invariant pt (m + 1) (ConvexL pt) (fun _ _ _ _ h => Adj3.tail h) st hcv
  have hpa : PopAbove pt m (popLower pt (m + 1) st) := by
    refine popLower_popAbove hx m hm st ⟨hidx.1, hidx.lt, hab, ?_⟩
    obtain ⟨hp, hh, _, _⟩ := hidx
    match st, hh with
    | t :: rest, hh =>
      simp only [List.head?_cons, Option.some.injEq] at hh
      subst hh
      refine ⟨t, rest, rfl, ?_⟩
      intro k h1 h2
      have : k = t ∨ k = t + 1 := by omega
      rcases this with rfl | rfl
      · rw [ccw_self_mid]
      · rw [ccw_self_right]
  have htop := popLower_top pt (m + 1) st
  revert hpi hc hpa htop
  generalize popLower pt (m + 1) st = r
  rintro ⟨hp, hl, _, hlt⟩ hc ⟨_, hmem, habv, t, rest, rfl, ht⟩ htop
  match rest, hp, hl, hlt, hc, hmem, habv, htop with
  | [], _, hl, _, _, _, _, _ =>
    simp only [List.getLast?_singleton, Option.some.injEq] at hl
    subst hl
    exact ⟨fun k hk => ht k (Nat.zero_le _) hk, trivial⟩
  | a :: rest, hp, _, hlt, hc, hmem, habv, htop =>
    have hturn := htop t a rest rfl
    have hat : a < t := (List.pairwise_cons.1 hp).1 a (by simp)
    have htm : t ≤ m := hmem t (by simp)
    refine ⟨?_, ?_⟩
    · intro k hk
      by_cases hkt : t ≤ k
      · exact ht k hkt hk
      · exact ccw_prop_right (pt a) (pt t) (pt (m + 1)) (pt k) (hx a t hat (by omega))
          (hull_x_le hx (by omega) hm) (hull_x_le hx (by omega) (by omega)) (habv.1 k (by omega)) (le_of_lt hturn)
    · have hnew := above_of_top hx (pt (m + 1)) t a rest hp (by omega) hc (le_of_lt hturn)
        (hull_x_le hx (by omega) hm)
      refine Adj2.and ?_ _ habv hnew
      intro b a hold hnew k hk
      rcases Nat.lt_or_eq_of_le hk with h | rfl
      · exact hold k (by omega)
      · exact hnew

theorem lowerStack_above (j : Nat) (hj : j + 2 ≤ n) : AboveL pt (j + 1) (lowerStack pt j) := by
  have := foldl_range_inv (fun st k => (k + 2) :: popLower pt (k + 2) st)
    (fun k st => IdxInv (k + 1) st ∧ ConvexL pt st ∧ AboveL pt (k + 1) st) [1, 0] j
    ⟨idxInv_init, trivial, ?_, trivial⟩ ?_ j (Nat.le_refl _)
  · exact this.2.2
  · intro k hk
    have : k = 0 ∨ k = 1 := by omega
    rcases this with rfl | rfl
    · rw [ccw_self_mid]
    · rw [ccw_self_right]
  · rintro k st hk ⟨h1, h2, h3⟩
    exact ⟨idxInv_step pt k st h1, convexL_step pt (k + 2) st h2,
      aboveL_step hx (k + 1) (by omega) st h1 h2 h3⟩

end Support

/-! ### upper chain = lower chain of the curve reflected in the x-axis -/

/-- the curve reflected in the x-axis -/
def reflY (pt : Nat → P2) : Nat → P2 := fun k => ((pt k).1, -(pt k).2)

theorem ccw_reflY (pt : Nat → P2) (a b c : Nat) :
    ccw (reflY pt a) (reflY pt b) (reflY pt c) = -ccw (pt a) (pt b) (pt c) := by
  unfold ccw reflY; ring

theorem ccw_upper_eq (pt : Nat → P2) (a b i : Nat) :
    ccw (pt i) (pt b) (pt a) = ccw (reflY pt a) (reflY pt b) (reflY pt i) := by
  unfold ccw reflY; ring

theorem popUpper_eq_popLower (pt : Nat → P2) (i : Nat) : ∀ st, popUpper pt i st = popLower (reflY pt) i st
  | [] => by simp [popUpper, popLower]
  | [_] => by simp [popUpper, popLower]
  | b :: a :: rest => by
    rw [popUpper, popLower, ccw_upper_eq, popUpper_eq_popLower pt i (a :: rest)]

theorem hullUpper_eq_hullLower (pt : Nat → P2) (n : Nat) : hullUpper pt n = hullLower (reflY pt) n := by
  simp only [hullUpper, hullLower, popUpper_eq_popLower]

/-! ### `grahamScan` sanity -/

theorem popGraham_suffix (p : P2) : ∀ st, popGraham p st <:+ st
  | [] => by simp [popGraham]
  | [_] => by simp [popGraham]
  | b :: a :: rest => by
    rw [popGraham]
    split
    · exact (popGraham_suffix p (a :: rest)).trans (List.suffix_cons _ _)
    · exact List.suffix_refl _

theorem popGraham_ne_nil (p : P2) : ∀ st, st ≠ [] → popGraham p st ≠ []
  | [], h => absurd rfl h
  | [_], _ => by simp [popGraham]
  | b :: a :: rest, _ => by
    rw [popGraham]
    split
    · exact popGraham_ne_nil p (a :: rest) (by simp)
    · simp

theorem insertAng_perm (p0 : P2) (x : P2 × Nat) : ∀ l, (insertAng p0 x l).Perm (x :: l)
  | [] => by simp [insertAng]
  | y :: ys => by
    rw [insertAng]
    split
    · exact ((insertAng_perm p0 x ys).cons y).trans (List.Perm.swap x y ys)
    · exact List.Perm.refl _

theorem sortAng_foldl_perm (p0 : P2) : ∀ (l acc : List (P2 × Nat)),
    (l.foldl (fun acc x => insertAng p0 x acc) acc).Perm (l ++ acc)
  | [], acc => by simp
  | x :: l, acc => by
    rw [List.foldl_cons]
    refine (sortAng_foldl_perm p0 l (insertAng p0 x acc)).trans ?_
    refine ((insertAng_perm p0 x acc).append_left l).trans ?_
    exact List.perm_middle

theorem sortAng_perm (p0 : P2) (l : List (P2 × Nat)) : (sortAng p0 l).Perm l := by
  simpa [sortAng] using sortAng_foldl_perm p0 l []

theorem lexMin_mem : ∀ (l : List (P2 × Nat)) (a : P2 × Nat), lexMin l = some a → a ∈ l
  | [], a, h => by simp [lexMin] at h
  | x :: t, a, h => by
    rw [lexMin] at h
    split at h
    · simp only [Option.some.injEq] at h; subst h; simp
    · rename_i b hb
      split at h
      · simp only [Option.some.injEq] at h; subst h; simp
      · simp only [Option.some.injEq] at h; subst h
        exact List.mem_cons_of_mem _ (lexMin_mem t b hb)

theorem graham_fold_sublist : ∀ (more st pre : List (P2 × Nat)), st.reverse.Sublist pre →
    (more.foldl (fun st p => p :: popGraham p.1 st) st).reverse.Sublist (pre ++ more)
  | [], st, pre, h => by simpa using h
  | p :: more, st, pre, h => by
    rw [List.foldl_cons]
    have := graham_fold_sublist more (p :: popGraham p.1 st) (pre ++ [p]) (by
      rw [List.reverse_cons]
      refine List.Sublist.append ?_ (List.Sublist.refl _)
      exact (List.reverse_prefix.2 (popGraham_suffix p.1 st)).sublist.trans h)
    simpa using this

theorem grahamScan_sound (pts : List P2) :
    (grahamScan pts).Nodup ∧ ∀ i ∈ grahamScan pts, i < pts.length := by
  unfold grahamScan
  simp only
  split
  · simp
  · rename_i p0 hp0
    have hmem0 := lexMin_mem _ _ hp0
    have hsnd : ((pts.zip (List.range pts.length)).map Prod.snd) = List.range pts.length :=
      List.map_snd_zip (by simp)
    have hnd : ((pts.zip (List.range pts.length)).map Prod.snd).Nodup := by
      rw [hsnd]; exact List.nodup_range
    have hbd : ∀ q ∈ pts.zip (List.range pts.length), q.2 < pts.length := by
      intro q hq
      have : q.2 ∈ (pts.zip (List.range pts.length)).map Prod.snd := List.mem_map_of_mem hq
      rw [hsnd] at this
      exact List.mem_range.1 this
    generalize pts.zip (List.range pts.length) = ip at *
    generalize hrest : ip.filter (fun q => q.2 ≠ p0.2) = rest
    have hL : ((p0 :: sortAng p0.1 rest).map Prod.snd).Nodup := by
      have hperm : ((p0 :: sortAng p0.1 rest).map Prod.snd).Perm ((p0 :: rest).map Prod.snd) :=
        ((sortAng_perm p0.1 rest).cons p0).map _
      rw [hperm.nodup_iff, List.map_cons, List.nodup_cons]
      refine ⟨?_, ?_⟩
      · intro h
        obtain ⟨q, hq, hq2⟩ := List.mem_map.1 h
        rw [← hrest] at hq
        have := (List.mem_filter.1 hq).2
        simp [hq2] at this
      · rw [← hrest]
        exact hnd.sublist (List.filter_sublist.map _)
    have hLb : ∀ q ∈ p0 :: sortAng p0.1 rest, q.2 < pts.length := by
      intro q hq
      rcases List.mem_cons.1 hq with rfl | hq
      · exact hbd _ hmem0
      · have : q ∈ rest := (sortAng_perm p0.1 rest).mem_iff.1 hq
        rw [← hrest] at this
        exact hbd q (List.mem_filter.1 this).1
    generalize p0 :: sortAng p0.1 rest = L at hL hLb
    split
    · rename_i a b c more
      have hsub := graham_fold_sublist more [c, b, a] [a, b, c] (by simp)
      simp only [List.cons_append, List.nil_append] at hsub
      refine ⟨hL.sublist (hsub.map _), ?_⟩
      intro i hi
      obtain ⟨q, hq, rfl⟩ := List.mem_map.1 hi
      exact hLb q (hsub.subset hq)
    · simp

end Knee

import Knee.Props.C02
import Knee.Props.C09
/-!
Lemmas for C02D: the multi-knee loop only ever calls the detector on ranges with more than `t2`
points, so (1) two detectors that agree on those ranges give the same run, (2) a detector contract
that only holds on those ranges is as good as `DetOK`, via the guarded detector `guard t2 det`,
and (3) the five bundled detectors, as `det` functions over criterion oracles, satisfy their
contract on large ranges.  Core tactics only.
-/
namespace Knee

/-! ### 1. congruence on large ranges -/

/-- the work-stack loop only looks at the detector on ranges with more than `t2` points -/
theorem multiKneeLoop_congr_large {det det' : Nat → Nat → Option Nat} (gate : Nat → Nat → Bool)
    {t2 : Nat} (h : ∀ l r, r - l > t2 → det l r = det' l r) :
    ∀ (f : Nat) (st : List (Nat × Nat)) (acc : List Nat),
      multiKneeLoop det gate t2 f st acc = multiKneeLoop det' gate t2 f st acc := by
  intro f
  induction f with
  | zero => intro st acc; rfl
  | succ f ih =>
    intro st acc
    match st with
    | [] => rfl
    | (l, r) :: st' =>
      simp only [multiKneeLoop]
      split
      · rename_i hg
        rw [← h l r hg.1]
        cases det l r with
        | none => exact ih _ _
        | some k => exact ih _ _
      · exact ih _ _

/-- so does the in-order recursion -/
theorem multiKneeRec_congr_large {det det' : Nat → Nat → Option Nat} (gate : Nat → Nat → Bool)
    {t2 : Nat} (h : ∀ l r, r - l > t2 → det l r = det' l r) :
    ∀ (f l r : Nat), multiKneeRec det gate t2 f l r = multiKneeRec det' gate t2 f l r := by
  intro f
  induction f with
  | zero => intro l r; rfl
  | succ f ih =>
    intro l r
    rw [multiKneeRec_succ, multiKneeRec_succ]
    split
    · rename_i hg
      rw [← h l r hg.1]
      cases det l r with
      | none => rfl
      | some k => simp only [ih]
    · rfl

/-! ### 2. the guarded detector -/

/-- the detector restricted to the ranges on which `multi_knee` calls it -/
def guard (t2 : Nat) (det : Nat → Nat → Option Nat) : Nat → Nat → Option Nat :=
  fun l r => if r - l > t2 then det l r else none

theorem guard_of_large {t2 : Nat} {det : Nat → Nat → Option Nat} {l r : Nat} (h : r - l > t2) :
    guard t2 det l r = det l r := by
  simp only [guard, if_pos h]

theorem guard_of_small {t2 : Nat} {det : Nat → Nat → Option Nat} {l r : Nat} (h : r - l ≤ t2) :
    guard t2 det l r = none := by
  simp only [guard, if_neg (show ¬ r - l > t2 by omega)]

theorem guard_eq_some {t2 : Nat} {det : Nat → Nat → Option Nat} {l r k : Nat}
    (h : guard t2 det l r = some k) : r - l > t2 ∧ det l r = some k := by
  simp only [guard] at h
  split at h
  · exact ⟨by assumption, h⟩
  · cases h

/-- Detector contract on the ranges that matter (more than `t2` points). -/
def DetOKLarge (t2 : Nat) (det : Nat → Nat → Option Nat) : Prop :=
  ∀ l r k, r - l > t2 → det l r = some k → k + 2 ≤ r - l

/-- Strict detector contract on the ranges that matter (more than `t2` points). -/
def DetInteriorLarge (t2 : Nat) (det : Nat → Nat → Option Nat) : Prop :=
  ∀ l r k, r - l > t2 → det l r = some k → 1 ≤ k ∧ k + 2 ≤ r - l

theorem DetInteriorLarge.detOKLarge {t2 : Nat} {det : Nat → Nat → Option Nat}
    (h : DetInteriorLarge t2 det) : DetOKLarge t2 det :=
  fun l r k hl hk => (h l r k hl hk).2

theorem DetOK.detOKLarge {det : Nat → Nat → Option Nat} (h : DetOK det) (t2 : Nat) :
    DetOKLarge t2 det :=
  fun l r k _ hk => h l r k hk

theorem DetInterior.detInteriorLarge {det : Nat → Nat → Option Nat} (h : DetInterior det)
    (t2 : Nat) : DetInteriorLarge t2 det :=
  fun l r k _ hk => h l r k hk

theorem detOK_guard_aux {t2 : Nat} {det : Nat → Nat → Option Nat} (h : DetOKLarge t2 det) :
    DetOK (guard t2 det) := by
  intro l r k hk
  obtain ⟨hl, hd⟩ := guard_eq_some hk
  exact h l r k hl hd

theorem detInterior_guard_aux {t2 : Nat} {det : Nat → Nat → Option Nat}
    (h : DetInteriorLarge t2 det) : DetInterior (guard t2 det) := by
  intro l r k hk
  obtain ⟨hl, hd⟩ := guard_eq_some hk
  exact h l r k hl hd

/-- guarding does not change the work-stack loop -/
theorem multiKneeLoop_guard (det : Nat → Nat → Option Nat) (gate : Nat → Nat → Bool) (t2 : Nat)
    (f : Nat) (st : List (Nat × Nat)) (acc : List Nat) :
    multiKneeLoop (guard t2 det) gate t2 f st acc = multiKneeLoop det gate t2 f st acc :=
  multiKneeLoop_congr_large gate (fun _ _ h => guard_of_large h) f st acc

/-- guarding does not change `multiKnee` -/
theorem multiKnee_guard_aux (det : Nat → Nat → Option Nat) (gate : Nat → Nat → Bool) (t2 n : Nat) :
    multiKnee (guard t2 det) gate t2 n = multiKnee det gate t2 n := by
  simp only [multiKnee, multiKneeLoop_guard]

/-- guarding does not change the in-order recursion -/
theorem multiKneeRec_guard_aux (det : Nat → Nat → Option Nat) (gate : Nat → Nat → Bool)
    (t2 f l r : Nat) :
    multiKneeRec (guard t2 det) gate t2 f l r = multiKneeRec det gate t2 f l r :=
  multiKneeRec_congr_large gate (fun _ _ h => guard_of_large h) f l r

/-! ### 3. the bundled detectors as `det` functions over criterion oracles -/

/-- curvature: `crit l r` = the criterion array of `points[l:r]` -/
def detCurv (crit : Nat → Nat → List Rat) : Nat → Nat → Option Nat :=
  fun l r => some (curvKnee (crit l r))

/-- Menger: `mc l r` = the Menger curvatures of the consecutive triples of `points[l:r]` -/
def detMenger (mc : Nat → Nat → List Rat) : Nat → Nat → Option Nat :=
  fun l r => some (mengerKnee (mc l r))

/-- DFDT: `diffs l r c` = `|gradient[c:] - isodata(gradient[c:])|` on `points[l:r]` -/
def detDfdt (diffs : Nat → Nat → Nat → List Rat) : Nat → Nat → Option Nat :=
  fun l r => some (dfdtKnee (diffs l r) (r - l))

/-- L-method: `errs l r len` = fitting errors of the splits `2 … len-3` on the first `len` points
of `points[l:r]` -/
def detLmethod (errs : Nat → Nat → Nat → List Rat) (mode : Refinement) (limit : Nat) :
    Nat → Nat → Option Nat :=
  fun l r => lmethodKnee (errs l r) mode (r - l) limit

/-- Kneedle: `dd l r` = the difference curve of `points[l:r]` -/
def detKneedle (dd : Nat → Nat → List Rat) : Nat → Nat → Option Nat :=
  fun l r => kneedleKnee (dd l r)

theorem detCurv_large_aux {crit : Nat → Nat → List Rat} {t2 : Nat}
    (hc : ∀ l r, (crit l r).length = r - l) (ht : 2 ≤ t2) : DetInteriorLarge t2 (detCurv crit) := by
  intro l r k hl hk
  simp only [detCurv, Option.some.injEq] at hk
  have := curvKnee_range (crit := crit l r) (by rw [hc]; omega)
  rw [hc] at this
  omega

theorem detMenger_large_aux {mc : Nat → Nat → List Rat} {t2 : Nat}
    (hc : ∀ l r, (mc l r).length = r - l - 2) (ht : 2 ≤ t2) : DetOKLarge t2 (detMenger mc) := by
  intro l r k hl hk
  simp only [detMenger, Option.some.injEq] at hk
  have := mengerKnee_range (mc l r)
  rw [hc] at this
  omega

theorem detDfdt_large_aux {diffs : Nat → Nat → Nat → List Rat} {t2 : Nat}
    (hd : ∀ l r c, (diffs l r c).length = (r - l) - c) (ht : 2 ≤ t2) :
    DetInteriorLarge t2 (detDfdt diffs) := by
  intro l r k hl hk
  simp only [detDfdt, Option.some.injEq] at hk
  have := dfdtKnee_range (diffs := diffs l r) (n := r - l) (hd l r) (by omega)
  omega

theorem detLmethod_large_aux {errs : Nat → Nat → Nat → List Rat} {t2 limit : Nat}
    (he : ∀ l r len, (errs l r len).length = len - 4) (ht : 4 ≤ t2) (hl : 4 ≤ limit)
    (mode : Refinement) : DetInteriorLarge t2 (detLmethod errs mode limit) := by
  intro l r k hlr hk
  simp only [detLmethod] at hk
  have := lmethodKnee_range (errs := errs l r) (he l r) (n := r - l) (by omega) hl mode hk
  omega

theorem detKneedle_interior_aux {dd : Nat → Nat → List Rat}
    (hd : ∀ l r, (dd l r).length = r - l) : DetInterior (detKneedle dd) := by
  intro l r k hk
  simp only [detKneedle] at hk
  have := kneedleKnee_range hk
  rw [hd] at this
  exact this

end Knee

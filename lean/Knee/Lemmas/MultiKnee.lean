import Knee.Model.MultiKnee
import Knee.Lemmas.Refine
/-!
Lemmas for the multi-knee work-stack loop (C02): detector contract, potential, fuel independence
of the in-order recursion, the loop/recursion permutation invariant, and `sortNats`.
Core tactics only.
-/
namespace Knee

/-- Detector contract: the knee is a relative index `≤ len - 2`, so both children
`points[0..k]` and `points[k+1..]` have at least one point and are strictly shorter. -/
def DetOK (det : Nat → Nat → Option Nat) : Prop :=
  ∀ l r k, det l r = some k → k + 2 ≤ r - l

/-- Strict variant: the knee is never the first point of its range. -/
def DetInterior (det : Nat → Nat → Option Nat) : Prop :=
  ∀ l r k, det l r = some k → 1 ≤ k ∧ k + 2 ≤ r - l

theorem DetInterior.detOK {det : Nat → Nat → Option Nat} (h : DetInterior det) : DetOK det :=
  fun l r k hk => (h l r k hk).2

/-! ### 1. `sortNats` -/

theorem insertSorted_perm (x : Nat) (l : List Nat) : (insertSorted x l).Perm (x :: l) := by
  induction l with
  | nil => exact List.Perm.refl _
  | cons y ys ih =>
    simp only [insertSorted]
    split
    · exact List.Perm.refl _
    · exact (List.Perm.cons y ih).trans (List.Perm.swap x y ys)

theorem insertSorted_sorted_le (x : Nat) (l : List Nat) (h : l.Pairwise (· ≤ ·)) :
    (insertSorted x l).Pairwise (· ≤ ·) := by
  induction l with
  | nil => simp [insertSorted]
  | cons y ys ih =>
    rw [List.pairwise_cons] at h
    simp only [insertSorted]
    split
    · refine List.Pairwise.cons ?_ (List.Pairwise.cons h.1 h.2)
      intro z hz
      rcases List.mem_cons.mp hz with rfl | hz
      · assumption
      · have := h.1 z hz
        omega
    · refine List.Pairwise.cons ?_ (ih h.2)
      intro z hz
      rcases mem_insertSorted.mp hz with rfl | hz
      · omega
      · exact h.1 z hz

theorem sortNats_cons (x : Nat) (l : List Nat) : sortNats (x :: l) = insertSorted x (sortNats l) := rfl

theorem sortNats_perm (l : List Nat) : (sortNats l).Perm l := by
  induction l with
  | nil => exact List.Perm.refl _
  | cons x xs ih =>
    rw [sortNats_cons]
    exact (insertSorted_perm x _).trans (List.Perm.cons x ih)

theorem sortNats_sorted (l : List Nat) : (sortNats l).Pairwise (· ≤ ·) := by
  induction l with
  | nil => simp [sortNats]
  | cons x xs ih =>
    rw [sortNats_cons]
    exact insertSorted_sorted_le x _ ih

/-- sorting any permutation of a strictly increasing list gives that list back -/
theorem sortNats_of_perm (s l : List Nat) (hs : s.Pairwise (· < ·)) (hperm : l.Perm s) :
    sortNats l = s := by
  refine List.Perm.eq_of_pairwise (le := fun a b : Nat => a ≤ b) ?_ (sortNats_sorted l)
    (hs.imp (fun h => Nat.le_of_lt h)) ((sortNats_perm l).trans hperm)
  intro a b _ _ h1 h2
  exact Nat.le_antisymm h1 h2

/-! ### 2. the in-order recursion -/

section
variable (det : Nat → Nat → Option Nat) (gate : Nat → Nat → Bool) (t2 : Nat)

theorem multiKneeRec_succ (f l r : Nat) :
    multiKneeRec det gate t2 (f + 1) l r =
      if r - l > t2 ∧ gate l r = true then
        (match det l r with
          | some k => multiKneeRec det gate t2 f l (l + k + 1) ++ (l + k) :: multiKneeRec det gate t2 f (l + k + 1) r
          | none => [])
      else [] := rfl

/-- fuel independence: any fuel `≥` the number of points gives the same list -/
theorem multiKneeRec_fuel_aux (hc : DetOK det) : ∀ f f' l r, r - l ≤ f → r - l ≤ f' →
    multiKneeRec det gate t2 f l r = multiKneeRec det gate t2 f' l r := by
  intro f
  induction f with
  | zero =>
    intro f' l r h0 _
    cases f' with
    | zero => rfl
    | succ f' =>
      rw [multiKneeRec_succ, if_neg (by omega)]
      rfl
  | succ f ih =>
    intro f' l r hf hf'
    cases f' with
    | zero =>
      rw [multiKneeRec_succ, if_neg (by omega)]
      rfl
    | succ f' =>
      rw [multiKneeRec_succ, multiKneeRec_succ]
      split
      · cases hd : det l r with
        | none => rfl
        | some k =>
          have := hc l r k hd
          simp only
          rw [ih f' l (l + k + 1) (by omega) (by omega), ih f' (l + k + 1) r (by omega) (by omega)]
      · rfl

theorem multiKneeRec_unfold_aux (hc : DetOK det) (l r f : Nat) (hf : r - l ≤ f) :
    multiKneeRec det gate t2 f l r =
      if r - l > t2 ∧ gate l r = true then
        (match det l r with
          | some k => multiKneeRec det gate t2 f l (l + k + 1) ++ (l + k) :: multiKneeRec det gate t2 f (l + k + 1) r
          | none => [])
      else [] := by
  rw [multiKneeRec_fuel_aux det gate t2 hc f (f + 1) l r hf (by omega), multiKneeRec_succ]

/-- the recursion's output is strictly increasing and lies in `[l, r - 2]` -/
theorem multiKneeRec_sorted_range_aux (hc : DetOK det) : ∀ f l r,
    (multiKneeRec det gate t2 f l r).Pairwise (· < ·) ∧
      ∀ x ∈ multiKneeRec det gate t2 f l r, l ≤ x ∧ x + 2 ≤ r := by
  intro f
  induction f with
  | zero => intro l r; simp [multiKneeRec]
  | succ f ih =>
    intro l r
    rw [multiKneeRec_succ]
    split
    · cases hd : det l r with
      | none => simp
      | some k =>
        have hk := hc l r k hd
        obtain ⟨hL, hLr⟩ := ih l (l + k + 1)
        obtain ⟨hR, hRr⟩ := ih (l + k + 1) r
        simp only
        refine ⟨?_, ?_⟩
        · rw [List.pairwise_append, List.pairwise_cons]
          refine ⟨hL, ⟨?_, hR⟩, ?_⟩
          · intro y hy
            have := hRr y hy
            omega
          · intro x hx y hy
            have hx' := hLr x hx
            rcases List.mem_cons.mp hy with rfl | hy
            · omega
            · have := hRr y hy
              omega
        · intro x hx
          rcases List.mem_append.mp hx with hx | hx
          · have := hLr x hx
            omega
          · rcases List.mem_cons.mp hx with rfl | hx
            · omega
            · have := hRr x hx
              omega
    · simp

/-- with a strictly interior detector no knee is the first point of its range -/
theorem multiKneeRec_interior_aux (hc : DetInterior det) : ∀ f l r,
    ∀ x ∈ multiKneeRec det gate t2 f l r, l + 1 ≤ x := by
  intro f
  induction f with
  | zero => intro l r; simp [multiKneeRec]
  | succ f ih =>
    intro l r
    rw [multiKneeRec_succ]
    split
    · cases hd : det l r with
      | none => simp
      | some k =>
        have hk := hc l r k hd
        simp only
        intro x hx
        rcases List.mem_append.mp hx with hx | hx
        · exact ih l (l + k + 1) x hx
        · rcases List.mem_cons.mp hx with rfl | hx
          · omega
          · have := ih (l + k + 1) r x hx
            omega
    · simp

/-! ### 3. the work-stack loop -/

/-- potential: a range of `m ≥ 1` points costs at most `2m - 1` iterations -/
def mkPot : List (Nat × Nat) → Nat
  | [] => 0
  | (l, r) :: st => (2 * (r - l) - 1) + mkPot st

theorem mkPot_cons (l r : Nat) (st : List (Nat × Nat)) :
    mkPot ((l, r) :: st) = (2 * (r - l) - 1) + mkPot st := rfl

/-- the in-order results of every range on the stack, concatenated in stack order -/
def stackOut (N : Nat) (st : List (Nat × Nat)) : List Nat :=
  (st.map (fun p => multiKneeRec det gate t2 N p.1 p.2)).flatten

theorem stackOut_cons (N l r : Nat) (st : List (Nat × Nat)) :
    stackOut det gate t2 N ((l, r) :: st) = multiKneeRec det gate t2 N l r ++ stackOut det gate t2 N st := by
  simp [stackOut]

/-- Main invariant of the multi-knee loop.  If every range on the stack has between 1 and `N`
points and the fuel covers the potential (+1 to see the empty stack), the loop terminates with a
permutation of `acc` plus the in-order result of every stacked range. -/
theorem multiKneeLoop_spec (hc : DetOK det) (N : Nat) :
    ∀ (fuel : Nat) (st : List (Nat × Nat)) (acc : List Nat),
      (∀ p ∈ st, p.1 + 1 ≤ p.2 ∧ p.2 - p.1 ≤ N) → mkPot st + 1 ≤ fuel →
      ∃ res, multiKneeLoop det gate t2 fuel st acc = some res ∧
        res.Perm (acc ++ stackOut det gate t2 N st) := by
  intro fuel
  induction fuel with
  | zero => intro st acc _ h; omega
  | succ f ih =>
    intro st acc hst hp
    match st with
    | [] => exact ⟨acc, rfl, by simp [stackOut]⟩
    | (l, r) :: st' =>
      have hlr := hst (l, r) List.mem_cons_self
      have hst' : ∀ p ∈ st', p.1 + 1 ≤ p.2 ∧ p.2 - p.1 ≤ N :=
        fun p hp => hst p (List.mem_cons_of_mem _ hp)
      simp only at hlr
      rw [mkPot_cons] at hp
      rw [stackOut_cons, multiKneeRec_unfold_aux det gate t2 hc l r N hlr.2]
      simp only [multiKneeLoop]
      split
      · cases hd : det l r with
        | none =>
          simp only
          obtain ⟨res, h1, h2⟩ := ih st' acc hst' (by omega)
          exact ⟨res, h1, by simpa using h2⟩
        | some k =>
          have hk := hc l r k hd
          simp only
          obtain ⟨res, h1, h2⟩ := ih ((l + k + 1, r) :: (l, l + k + 1) :: st') ((l + k) :: acc)
            (by
              intro p hp
              rcases List.mem_cons.mp hp with rfl | hp
              · simp only; omega
              · rcases List.mem_cons.mp hp with rfl | hp
                · simp only; omega
                · exact hst' p hp)
            (by simp only [mkPot_cons]; omega)
          refine ⟨res, h1, h2.trans ?_⟩
          rw [stackOut_cons, stackOut_cons]
          generalize multiKneeRec det gate t2 N l (l + k + 1) = A
          generalize multiKneeRec det gate t2 N (l + k + 1) r = B
          generalize stackOut det gate t2 N st' = C
          have hx : acc ++ ((A ++ (l + k) :: B) ++ C) = (acc ++ A) ++ (l + k) :: (B ++ C) := by simp
          rw [hx]
          refine List.Perm.trans ?_ List.perm_middle.symm
          rw [List.cons_append]
          refine List.Perm.cons _ ?_
          rw [List.append_assoc]
          refine List.Perm.append_left acc ?_
          rw [← List.append_assoc, ← List.append_assoc]
          exact List.perm_append_comm.append_right C
      · obtain ⟨res, h1, h2⟩ := ih st' acc hst' (by omega)
        exact ⟨res, h1, by simpa using h2⟩

/-- more fuel never changes a successful run -/
theorem multiKneeLoop_mono : ∀ (f : Nat) (st : List (Nat × Nat)) (acc res : List Nat),
    multiKneeLoop det gate t2 f st acc = some res →
      ∀ d, multiKneeLoop det gate t2 (f + d) st acc = some res := by
  intro f
  induction f with
  | zero => intro st acc res h; simp [multiKneeLoop] at h
  | succ f ih =>
    intro st acc res h d
    rw [show f + 1 + d = (f + d) + 1 by omega]
    match st with
    | [] => simpa [multiKneeLoop] using h
    | (l, r) :: st' =>
      simp only [multiKneeLoop] at h ⊢
      split
      · rename_i hg
        rw [if_pos hg] at h
        cases hd : det l r with
        | none =>
          rw [hd] at h
          exact ih _ _ _ h d
        | some k =>
          rw [hd] at h
          exact ih _ _ _ h d
      · rename_i hg
        rw [if_neg hg] at h
        exact ih _ _ _ h d

end

end Knee

import Knee.Model.Isodata
import Knee.Model.Detectors
import Knee.Lemmas.Detectors
import Mathlib.Tactic.Ring
import Mathlib.Tactic.Linarith
import Mathlib.Tactic.Positivity
import Mathlib.Tactic.FieldSimp
import Mathlib.Algebra.Order.Field.Basic
/-!
Helper lemmas for `Props/C03B.lean`: the ISODATA threshold and the DFDT detector on the gradient
array of an exact two-slope elbow.
-/
namespace Knee

/-- gradient array of an exact two-slope elbow: `a` copies of the first slope, the corner value,
`b` copies of the second slope; the corner sits at index `a` -/
def elbowG (a : Nat) (gmid : Rat) (b : Nat) (s1 s2 : Rat) : List Rat :=
  List.replicate a s1 ++ [gmid] ++ List.replicate b s2

theorem elbowG_length (a : Nat) (gmid : Rat) (b : Nat) (s1 s2 : Rat) :
    (elbowG a gmid b s1 s2).length = a + 1 + b := by
  simp [elbowG]
  omega

/-! ## means -/

theorem sum_replicate_rat (n : Nat) (x : Rat) : (List.replicate n x).sum = (n : Rat) * x := by
  induction n with
  | zero => simp
  | succ n ih =>
    rw [List.replicate_succ, List.sum_cons, ih]
    push_cast
    ring

theorem sum_append_rat (l₁ l₂ : List Rat) : (l₁ ++ l₂).sum = l₁.sum + l₂.sum := by
  induction l₁ with
  | nil => simp
  | cons x xs ih =>
    rw [List.cons_append, List.sum_cons, List.sum_cons, ih]
    ring

theorem meanL_replicate (n : Nat) (x : Rat) (hn : 1 ≤ n) : meanL (List.replicate n x) = x := by
  unfold meanL
  rw [sum_replicate_rat, List.length_replicate]
  have : (0 : Rat) < (n : Rat) := by exact_mod_cast hn
  field_simp

theorem meanL_replicate_snoc (n : Nat) (x g : Rat) :
    meanL (List.replicate n x ++ [g]) = ((n : Rat) * x + g) / ((n : Rat) + 1) := by
  unfold meanL
  rw [sum_append_rat, sum_replicate_rat]
  simp

theorem meanL_cons_replicate (n : Nat) (x g : Rat) :
    meanL (g :: List.replicate n x) = ((n : Rat) * x + g) / ((n : Rat) + 1) := by
  unfold meanL
  rw [List.sum_cons, sum_replicate_rat]
  simp [add_comm]

theorem meanL_elbowG (a : Nat) (g : Rat) (b : Nat) (s1 s2 : Rat) :
    meanL (elbowG a g b s1 s2) =
      ((a : Rat) * s1 + g + (b : Rat) * s2) / ((a : Rat) + 1 + (b : Rat)) := by
  unfold meanL
  rw [elbowG_length]
  unfold elbowG
  rw [sum_append_rat, sum_append_rat, sum_replicate_rat, sum_replicate_rat]
  simp

/-! ## arithmetic of the ISODATA update on a three-valued array `lo < g < hi` -/

/-- the update when the corner value falls in the low class (`p` copies of `lo`) -/
def lowMid (p : Nat) (lo g hi : Rat) : Rat := (((p : Rat) * lo + g) / ((p : Rat) + 1) + hi) / 2

/-- the update when the corner value falls in the high class (`q` copies of `hi`) -/
def highMid (q : Nat) (lo g hi : Rat) : Rat := (lo + ((q : Rat) * hi + g) / ((q : Rat) + 1)) / 2

/-- `t` lies strictly between the midpoints `(lo+g)/2` and `(g+hi)/2` -/
def Mid (lo g hi t : Rat) : Prop := lo + g < 2 * t ∧ 2 * t < g + hi

theorem wmean_gt (p : Nat) (x g : Rat) (h : x < g) :
    x < ((p : Rat) * x + g) / ((p : Rat) + 1) := by
  have hp : (0 : Rat) ≤ (p : Rat) := by positivity
  rw [lt_div_iff₀ (by linarith)]
  linarith

theorem wmean_lt (p : Nat) (x g : Rat) (hp1 : 1 ≤ p) (h : x < g) :
    ((p : Rat) * x + g) / ((p : Rat) + 1) < g := by
  have hp : (1 : Rat) ≤ (p : Rat) := by exact_mod_cast hp1
  rw [div_lt_iff₀ (by linarith)]
  nlinarith

theorem wmean_lt' (p : Nat) (x g : Rat) (h : g < x) :
    ((p : Rat) * x + g) / ((p : Rat) + 1) < x := by
  have hp : (0 : Rat) ≤ (p : Rat) := by positivity
  rw [div_lt_iff₀ (by linarith)]
  linarith

theorem wmean_gt' (p : Nat) (x g : Rat) (hp1 : 1 ≤ p) (h : g < x) :
    g < ((p : Rat) * x + g) / ((p : Rat) + 1) := by
  have hp : (1 : Rat) ≤ (p : Rat) := by exact_mod_cast hp1
  rw [lt_div_iff₀ (by linarith)]
  nlinarith

theorem lowMid_mid (p : Nat) (lo g hi : Rat) (hp : 1 ≤ p) (h1 : lo < g) (h2 : g < hi) :
    Mid lo g hi (lowMid p lo g hi) := by
  have a1 := wmean_gt p lo g h1
  have a2 := wmean_lt p lo g hp h1
  unfold Mid lowMid
  constructor <;> linarith

theorem highMid_mid (q : Nat) (lo g hi : Rat) (hq : 1 ≤ q) (h1 : lo < g) (h2 : g < hi) :
    Mid lo g hi (highMid q lo g hi) := by
  have a1 := wmean_lt' q hi g h2
  have a2 := wmean_gt' q hi g hq h2
  unfold Mid highMid
  constructor <;> linarith

theorem Mid_good {lo g hi t : Rat} (h1 : lo < g) (h2 : g < hi) (h : Mid lo g hi t) :
    lo < t ∧ t < hi := by
  unfold Mid at h
  constructor <;> linarith [h.1, h.2]

theorem Mid_closer {lo g hi t : Rat} (h1 : lo < g) (h2 : g < hi) (h : Mid lo g hi t) :
    rabs (g - t) < rabs (lo - t) ∧ rabs (g - t) < rabs (hi - t) := by
  obtain ⟨ha, hb⟩ := h
  unfold rabs
  constructor <;> split_ifs <;> linarith

/-- the initial threshold (the mean) is strictly between the two slopes -/
theorem mean_good (a b : Nat) (lo g hi : Rat) (ha : 1 ≤ a) (hb : 1 ≤ b) (h1 : lo < g)
    (h2 : g < hi) :
    lo < ((a : Rat) * lo + g + (b : Rat) * hi) / ((a : Rat) + 1 + (b : Rat)) ∧
      ((a : Rat) * lo + g + (b : Rat) * hi) / ((a : Rat) + 1 + (b : Rat)) < hi := by
  have ha' : (1 : Rat) ≤ (a : Rat) := by exact_mod_cast ha
  have hb' : (1 : Rat) ≤ (b : Rat) := by exact_mod_cast hb
  have hpos : (0 : Rat) < (a : Rat) + 1 + (b : Rat) := by linarith
  rw [lt_div_iff₀ hpos, div_lt_iff₀ hpos]
  constructor <;> nlinarith

/-! ## one ISODATA step on the elbow gradient -/

theorem filter_replicate_true (n : Nat) (x : Rat) (p : Rat → Bool) (h : p x = true) :
    (List.replicate n x).filter p = List.replicate n x := by
  rw [List.filter_replicate, if_pos h]

theorem filter_replicate_false (n : Nat) (x : Rat) (p : Rat → Bool) (h : p x = false) :
    (List.replicate n x).filter p = [] := by
  rw [List.filter_replicate, if_neg (by simp [h])]

theorem replicate_isEmpty (n : Nat) (x : Rat) (hn : 1 ≤ n) :
    (List.replicate n x).isEmpty = false := by
  cases n with
  | zero => omega
  | succ n => rfl

theorem snoc_isEmpty (l : List Rat) (x : Rat) : (l ++ [x]).isEmpty = false := by
  cases l <;> rfl

/-- ascending elbow, corner value in the low class -/
theorem isoStep_up_low (a b : Nat) (g s1 s2 t : Rat) (hb : 1 ≤ b)
    (h1 : s1 < g) (ht1 : g ≤ t) (ht2 : t < s2) :
    isoStep (elbowG a g b s1 s2) t = some (lowMid a s1 g s2) := by
  have hL : (elbowG a g b s1 s2).filter (fun v => decide (v ≤ t)) = List.replicate a s1 ++ [g] := by
    unfold elbowG
    rw [List.filter_append, List.filter_append,
      filter_replicate_true a s1 _ (by simp; linarith),
      filter_replicate_false b s2 _ (by simp; linarith)]
    simp [ht1]
  have hR : (elbowG a g b s1 s2).filter (fun v => decide (t < v)) = List.replicate b s2 := by
    unfold elbowG
    rw [List.filter_append, List.filter_append,
      filter_replicate_false a s1 _ (by simp; linarith),
      filter_replicate_true b s2 _ (by simp; linarith)]
    simp [ht1]
  unfold isoStep
  simp only [hL, hR, snoc_isEmpty, replicate_isEmpty b s2 hb, Bool.or_self, Bool.false_eq_true,
    if_false, meanL_replicate_snoc, meanL_replicate b s2 hb]
  rfl

/-- ascending elbow, corner value in the high class -/
theorem isoStep_up_high (a b : Nat) (g s1 s2 t : Rat) (ha : 1 ≤ a)
    (h2 : g < s2) (ht1 : s1 ≤ t) (ht2 : t < g) :
    isoStep (elbowG a g b s1 s2) t = some (highMid b s1 g s2) := by
  have hL : (elbowG a g b s1 s2).filter (fun v => decide (v ≤ t)) = List.replicate a s1 := by
    unfold elbowG
    rw [List.filter_append, List.filter_append,
      filter_replicate_true a s1 _ (by simp; linarith),
      filter_replicate_false b s2 _ (by simp; linarith)]
    simp [ht2]
  have hR : (elbowG a g b s1 s2).filter (fun v => decide (t < v)) = g :: List.replicate b s2 := by
    unfold elbowG
    rw [List.filter_append, List.filter_append,
      filter_replicate_false a s1 _ (by simp; linarith),
      filter_replicate_true b s2 _ (by simp; linarith)]
    simp [ht2]
  unfold isoStep
  simp only [hL, hR, replicate_isEmpty a s1 ha, List.isEmpty_cons, Bool.or_self,
    Bool.false_eq_true, if_false, meanL_cons_replicate, meanL_replicate a s1 ha]
  rfl

/-- descending elbow, corner value in the low class -/
theorem isoStep_down_low (a b : Nat) (g s1 s2 t : Rat) (ha : 1 ≤ a)
    (h1 : s2 < g) (ht1 : g ≤ t) (ht2 : t < s1) :
    isoStep (elbowG a g b s1 s2) t = some (lowMid b s2 g s1) := by
  have hL : (elbowG a g b s1 s2).filter (fun v => decide (v ≤ t)) = g :: List.replicate b s2 := by
    unfold elbowG
    rw [List.filter_append, List.filter_append,
      filter_replicate_false a s1 _ (by simp; linarith),
      filter_replicate_true b s2 _ (by simp; linarith)]
    simp [ht1]
  have hR : (elbowG a g b s1 s2).filter (fun v => decide (t < v)) = List.replicate a s1 := by
    unfold elbowG
    rw [List.filter_append, List.filter_append,
      filter_replicate_true a s1 _ (by simp; linarith),
      filter_replicate_false b s2 _ (by simp; linarith)]
    simp [ht1]
  unfold isoStep
  simp only [hL, hR, replicate_isEmpty a s1 ha, List.isEmpty_cons, Bool.or_self,
    Bool.false_eq_true, if_false, meanL_cons_replicate, meanL_replicate a s1 ha]
  rfl

/-- descending elbow, corner value in the high class -/
theorem isoStep_down_high (a b : Nat) (g s1 s2 t : Rat) (hb : 1 ≤ b)
    (h2 : g < s1) (ht1 : s2 ≤ t) (ht2 : t < g) :
    isoStep (elbowG a g b s1 s2) t = some (highMid a s2 g s1) := by
  have hL : (elbowG a g b s1 s2).filter (fun v => decide (v ≤ t)) = List.replicate b s2 := by
    unfold elbowG
    rw [List.filter_append, List.filter_append,
      filter_replicate_false a s1 _ (by simp; linarith),
      filter_replicate_true b s2 _ (by simp; linarith)]
    simp [ht2]
  have hR : (elbowG a g b s1 s2).filter (fun v => decide (t < v)) = List.replicate a s1 ++ [g] := by
    unfold elbowG
    rw [List.filter_append, List.filter_append,
      filter_replicate_true a s1 _ (by simp; linarith),
      filter_replicate_false b s2 _ (by simp; linarith)]
    simp [ht2]
  unfold isoStep
  simp only [hL, hR, snoc_isEmpty, replicate_isEmpty b s2 hb, Bool.or_self, Bool.false_eq_true,
    if_false, meanL_replicate_snoc, meanL_replicate b s2 hb]
  rfl

/-! ## the loop -/

/-- generic invariant rule for `isoLoop`: if from every `Good` threshold `isoStep` produces a value
satisfying `Res`, and `Res` values are `Good`, then the loop run for at least one iteration from a
`Good` threshold returns a `Res` value -/
theorem isoLoop_inv (a : List Rat) (eps : Rat) (Good Res : Rat → Prop)
    (hstep : ∀ t, Good t → ∃ n, isoStep a t = some n ∧ Res n)
    (hRG : ∀ t, Res t → Good t) :
    ∀ (f : Nat) (t : Rat), Good t → Res (isoLoop a eps (f + 1) t) := by
  intro f
  induction f with
  | zero =>
    intro t ht
    obtain ⟨n, hn, hr⟩ := hstep t ht
    rw [isoLoop, hn]
    simp only
    split
    · exact hr
    · rw [isoLoop]; exact hr
  | succ f ih =>
    intro t ht
    obtain ⟨n, hn, hr⟩ := hstep t ht
    rw [isoLoop, hn]
    simp only
    split
    · exact hr
    · exact ih n (hRG n hr)

/-! ## unique interior minimum -/

theorem dfdtInner_unique_min {d : List Rat} (h3 : 3 ≤ d.length) (k : Nat) (hk1 : 1 ≤ k)
    (hk2 : k + 1 < d.length)
    (hmin : ∀ j, 1 ≤ j → j + 1 < d.length → j ≠ k → d[k]?.getD 0 < d[j]?.getD 0) :
    dfdtInner d = k := by
  have hr := interior_argmin_range h3
  have hle := interior_argmin_le h3 k hk1 hk2
  unfold dfdtInner
  by_contra hne
  have := hmin (1 + argminIdx (interior d)) (by omega) (by omega) hne
  exact absurd hle (not_le.mpr this)

theorem elbowG_map (f : Rat → Rat) (a b : Nat) (g s1 s2 : Rat) :
    (elbowG a g b s1 s2).map f = elbowG a (f g) b (f s1) (f s2) := by
  simp [elbowG]

theorem elbowG_get_left (a b : Nat) (g s1 s2 : Rat) (j : Nat) (hj : j < a) :
    (elbowG a g b s1 s2)[j]?.getD 0 = s1 := by
  unfold elbowG
  rw [List.append_assoc, List.getElem?_append_left (by simpa using hj)]
  simp [hj]

theorem elbowG_get_mid (a b : Nat) (g s1 s2 : Rat) :
    (elbowG a g b s1 s2)[a]?.getD 0 = g := by
  unfold elbowG
  rw [List.append_assoc, List.getElem?_append_right (by simp)]
  simp

theorem elbowG_get_right (a b : Nat) (g s1 s2 : Rat) (j : Nat) (hj1 : a < j) (hj2 : j < a + 1 + b) :
    (elbowG a g b s1 s2)[j]?.getD 0 = s2 := by
  unfold elbowG
  rw [List.getElem?_append_right (by simp; omega)]
  rw [List.getElem?_replicate, if_pos (by simp; omega)]
  rfl

/-- a three-valued array whose middle entry is strictly the smallest: the DFDT round picks it -/
theorem dfdtInner_elbowG (a b : Nat) (M A B : Rat) (ha : 1 ≤ a) (hb : 1 ≤ b) (h1 : M < A)
    (h2 : M < B) : dfdtInner (elbowG a M b A B) = a := by
  have hlen := elbowG_length a M b A B
  apply dfdtInner_unique_min (by omega) a ha (by omega)
  intro j hj1 hj2 hne
  rw [elbowG_get_mid]
  by_cases hja : j < a
  · rw [elbowG_get_left a b M A B j hja]; exact h1
  · rw [elbowG_get_right a b M A B j (by omega) (by omega)]; exact h2

theorem elbowG_drop (a b c : Nat) (g s1 s2 : Rat) (hc : c ≤ a) :
    (elbowG a g b s1 s2).drop c = elbowG (a - c) g b s1 s2 := by
  unfold elbowG
  rw [List.append_assoc, List.drop_append, List.drop_replicate, List.length_replicate,
    List.append_assoc]
  have : c - a = 0 := by omega
  rw [this, List.drop_zero]

end Knee

import Knee.Model.ZMethod
/-!
Helper lemmas for the Z-method model (`Knee/Model/ZMethod.lean`), used by `Props/C10.lean`.
-/
namespace Knee

/-! ## `rabs` -/

theorem rabs_sub_comm (a b : Rat) : rabs (a - b) = rabs (b - a) := by
  unfold rabs; split <;> split <;> grind

theorem le_rabs_of_clear {w a b : Rat} (h : a ≤ b - w ∨ b + w ≤ a) : w ≤ rabs (b - a) := by
  unfold rabs; split <;> grind

theorem clear_of_le_rabs {w a b : Rat} (h : w ≤ rabs (b - a)) : a ≤ b - w ∨ b + w ≤ a := by
  unfold rabs at h; split at h <;> grind

/-! ## `sortByX` -/

theorem mem_insertByX {c p : Rat × Rat} {l : List (Rat × Rat)} (h : p ∈ insertByX c l) :
    p = c ∨ p ∈ l := by
  induction l with
  | nil => simpa [insertByX] using h
  | cons d ds ih =>
    simp only [insertByX] at h
    split at h
    · simpa using h
    · split at h
      · rcases List.mem_cons.1 h with h | h
        · exact Or.inl h
        · exact Or.inr (List.mem_cons_of_mem _ h)
      · rcases List.mem_cons.1 h with h | h
        · exact Or.inr (h ▸ List.mem_cons_self)
        · rcases ih h with h | h
          · exact Or.inl h
          · exact Or.inr (List.mem_cons_of_mem _ h)

theorem mem_insertByX_fst {c : Rat × Rat} {l : List (Rat × Rat)} {x : Rat} :
    x ∈ (insertByX c l).map (·.1) ↔ x = c.1 ∨ x ∈ l.map (·.1) := by
  induction l with
  | nil => simp [insertByX]
  | cons d ds ih =>
    simp only [insertByX]
    split
    · simp
    · split
      · rename_i h; simp [h]
      · simp only [List.map_cons, List.mem_cons, ih]; grind

theorem insertByX_sorted {c : Rat × Rat} {l : List (Rat × Rat)}
    (hl : l.Pairwise (fun a b => a.1 < b.1)) : (insertByX c l).Pairwise (fun a b => a.1 < b.1) := by
  induction l with
  | nil => simp [insertByX]
  | cons d ds ih =>
    rw [List.pairwise_cons] at hl
    simp only [insertByX]
    split
    · rename_i h
      refine List.pairwise_cons.2 ⟨?_, List.pairwise_cons.2 hl⟩
      intro q hq
      rcases List.mem_cons.1 hq with rfl | hq
      · exact h
      · have := hl.1 q hq; grind
    · split
      · rename_i h
        refine List.pairwise_cons.2 ⟨?_, hl.2⟩
        intro q hq
        have := hl.1 q hq; grind
      · refine List.pairwise_cons.2 ⟨?_, ih hl.2⟩
        intro q hq
        rcases mem_insertByX hq with rfl | hq
        · grind
        · exact hl.1 q hq

theorem foldl_insertByX_sorted (l acc : List (Rat × Rat))
    (hacc : acc.Pairwise (fun a b => a.1 < b.1)) :
    (l.foldl (fun acc c => insertByX c acc) acc).Pairwise (fun a b => a.1 < b.1) := by
  induction l generalizing acc with
  | nil => simpa using hacc
  | cons c cs ih => exact ih _ (insertByX_sorted hacc)

theorem foldl_insertByX_mem (l acc : List (Rat × Rat)) :
    ∀ p ∈ l.foldl (fun acc c => insertByX c acc) acc, p ∈ acc ∨ p ∈ l := by
  induction l generalizing acc with
  | nil => intro p hp; exact Or.inl hp
  | cons c cs ih =>
    intro p hp
    rcases ih _ p hp with h | h
    · rcases mem_insertByX h with rfl | h
      · exact Or.inr List.mem_cons_self
      · exact Or.inl h
    · exact Or.inr (List.mem_cons_of_mem _ h)

theorem foldl_insertByX_fst (l acc : List (Rat × Rat)) (x : Rat) :
    x ∈ (l.foldl (fun acc c => insertByX c acc) acc).map (·.1) ↔
      x ∈ acc.map (·.1) ∨ x ∈ l.map (·.1) := by
  induction l generalizing acc with
  | nil => simp
  | cons c cs ih =>
    simp only [List.foldl_cons, ih, mem_insertByX_fst, List.map_cons, List.mem_cons]
    grind

/-! ## candidates: `argminY`, `splitGaps`, `sortDescZ` -/

theorem argminY_mem {g : List P3} {b : P3} (h : argminY g = some b) : b ∈ g := by
  induction g generalizing b with
  | nil => simp [argminY] at h
  | cons p ps ih =>
    simp only [argminY] at h
    split at h
    · simp only [Option.some.injEq] at h; simp [h]
    · rename_i q hq
      split at h
      · simp only [Option.some.injEq] at h; subst h; exact List.mem_cons_of_mem _ (ih hq)
      · simp only [Option.some.injEq] at h; simp [h]

theorem argminY_isSome {g : List P3} (h : g ≠ []) : ∃ b, argminY g = some b := by
  cases g with
  | nil => exact absurd rfl h
  | cons p ps =>
    simp only [argminY]
    split
    · exact ⟨_, rfl⟩
    · split <;> exact ⟨_, rfl⟩

theorem splitGaps_flatten (w : Rat) (l : List P3) : (splitGaps w l).flatten = l := by
  fun_induction splitGaps w l with
  | case1 => rfl
  | case2 => rfl
  | case3 p q rest h ih => simp [h] at ih
  | case4 p q rest g gs h hw ih => rw [h] at ih; simpa using ih
  | case5 p q rest g gs h hw ih => rw [h] at ih; simpa using ih

theorem splitGaps_ne_nil (w : Rat) (l : List P3) : ∀ g ∈ splitGaps w l, g ≠ [] := by
  fun_induction splitGaps w l with
  | case1 => simp
  | case2 => simp
  | case3 => simp
  | case4 p q rest g gs h hw ih =>
    rw [h] at ih
    intro g' hg'
    rcases List.mem_cons.1 hg' with rfl | hg'
    · simp
    · exact ih g' hg'
  | case5 p q rest g gs h hw ih =>
    rw [h] at ih
    intro g' hg'
    rcases List.mem_cons.1 hg' with rfl | hg'
    · simp
    · exact ih g' (List.mem_cons_of_mem _ hg')

theorem mem_of_mem_splitGaps {w : Rat} {l g : List P3} {p : P3}
    (hg : g ∈ splitGaps w l) (hp : p ∈ g) : p ∈ l := by
  rw [← splitGaps_flatten w l]
  exact List.mem_flatten.2 ⟨g, hg, hp⟩
/-- groups produced by `splitGaps` are at least `w` apart in x (for ascending x) -/
theorem splitGaps_gap (w : Rat) (l : List P3) (hl : l.Pairwise (fun a b => a.1 < b.1)) :
    (splitGaps w l).Pairwise (fun g1 g2 => ∀ p ∈ g1, ∀ q ∈ g2, w ≤ q.1 - p.1) := by
  fun_induction splitGaps w l with
  | case1 => simp
  | case2 => simp
  | case3 p q rest h ih => simp
  | case4 p q rest g gs h hw ih =>
    rw [List.pairwise_cons] at hl
    have ih := ih hl.2
    rw [h] at ih
    refine List.pairwise_cons.2 ⟨?_, ih⟩
    intro g' hg' p' hp' q' hq'
    simp only [List.mem_singleton] at hp'
    subst hp'
    have hq'' : q' ∈ q :: rest := mem_of_mem_splitGaps (h ▸ hg') hq'
    rcases List.mem_cons.1 hq'' with rfl | hq''
    · exact hw
    · have := (List.pairwise_cons.1 hl.2).1 q' hq''; grind
  | case5 p q rest g gs h hw ih =>
    rw [List.pairwise_cons] at hl
    have ih := ih hl.2
    rw [h] at ih
    rw [List.pairwise_cons] at ih
    refine List.pairwise_cons.2 ⟨?_, ih.2⟩
    intro g' hg' p' hp' q' hq'
    rcases List.mem_cons.1 hp' with rfl | hp'
    · have hne : g ≠ [] := splitGaps_ne_nil w (q :: rest) g (h ▸ List.mem_cons_self)
      obtain ⟨r, hr⟩ := List.exists_mem_of_ne_nil g hne
      have h1 := ih.1 g' hg' r hr q' hq'
      have hr' : r ∈ q :: rest := mem_of_mem_splitGaps (h ▸ List.mem_cons_self) hr
      have := hl.1 r hr'
      grind
    · exact ih.1 g' hg' p' hp' q' hq'

theorem insertByZ_perm (c : P3) (l : List P3) : (insertByZ c l).Perm (c :: l) := by
  induction l with
  | nil => simp [insertByZ]
  | cons d ds ih =>
    simp only [insertByZ]
    split
    · exact List.Perm.refl _
    · exact ((List.Perm.cons d ih).trans (List.Perm.swap c d ds))

theorem foldl_insertByZ_perm (l acc : List P3) :
    (l.foldl (fun acc c => insertByZ c acc) acc).Perm (l ++ acc) := by
  induction l generalizing acc with
  | nil => simp
  | cons c cs ih =>
    simp only [List.foldl_cons]
    refine (ih _).trans ?_
    refine (List.Perm.append_left cs (insertByZ_perm c acc)).trans ?_
    simp

theorem sortDescZ_perm (l : List P3) : (sortDescZ l).Perm l := by
  unfold sortDescZ
  refine (List.reverse_perm _).trans ?_
  simpa using foldl_insertByZ_perm l []

/-! ## `removeBand` -/

theorem removeBand_sublist (w h bx by' : Rat) (pts : List P3) :
    (removeBand w h bx by' pts).Sublist pts := List.filter_sublist

/-- every remaining point is outside both bands of `(bx, by')` -/
theorem removeBand_clear (w h bx by' : Rat) (pts : List P3) :
    ∀ p ∈ removeBand w h bx by' pts,
      (p.1 ≤ bx - w ∨ bx + w ≤ p.1) ∧ (p.2.1 ≤ by' - h ∨ by' + h ≤ p.2.1) := by
  intro p hp
  simp only [removeBand, List.mem_filter, Bool.and_eq_true, Bool.or_eq_true,
    decide_eq_true_eq] at hp
  exact hp.2

/-- the selected point itself lies in its own x-band (`w > 0`), so it is removed -/
theorem removeBand_removes_self {w h : Rat} (hw : 0 < w) {bx by' : Rat} {pts : List P3}
    (hp : ∃ p ∈ pts, p.1 = bx) : (removeBand w h bx by' pts).length < pts.length := by
  obtain ⟨p, hp, rfl⟩ := hp
  unfold removeBand
  rw [List.length_filter_lt_length_iff_exists]
  refine ⟨p, hp, ?_⟩
  simp only [Bool.and_eq_true, Bool.or_eq_true, decide_eq_true_eq]
  grind

theorem removeBand_not_mem_self {w h : Rat} (hw : 0 < w) (p : P3) (pts : List P3) :
    p ∉ removeBand w h p.1 p.2.1 pts := by
  intro hp
  have := (removeBand_clear w h p.1 p.2.1 pts p hp).1
  grind
/-! ## separation invariants -/

/-- selected outliers are pairwise at least `w` apart in x and at least `h` apart in y -/
def Sep (w h : Rat) (outl : List (Rat × Rat)) : Prop :=
  outl.Pairwise (fun a b => w ≤ rabs (a.1 - b.1) ∧ h ≤ rabs (a.2 - b.2))

/-- every point of the working set lies outside both bands of every selected outlier -/
def Clear (w h : Rat) (outl : List (Rat × Rat)) (pts : List P3) : Prop :=
  ∀ o ∈ outl, ∀ p ∈ pts,
    (p.1 ≤ o.1 - w ∨ o.1 + w ≤ p.1) ∧ (p.2.1 ≤ o.2 - h ∨ o.2 + h ≤ p.2.1)

theorem Clear.sublist {w h : Rat} {outl : List (Rat × Rat)} {pts pts' : List P3}
    (hc : Clear w h outl pts) (hs : pts'.Sublist pts) : Clear w h outl pts' :=
  fun o ho p hp => hc o ho p (hs.subset hp)

theorem Sep.symm_of_mem {w h : Rat} {outl : List (Rat × Rat)} (hs : Sep w h outl)
    {a b : Rat × Rat} (ha : a ∈ outl) (hb : b ∈ outl) (hne : a ≠ b) :
    w ≤ rabs (a.1 - b.1) ∧ h ≤ rabs (a.2 - b.2) := by
  unfold Sep at hs
  induction outl with
  | nil => cases ha
  | cons o os ih =>
    rw [List.pairwise_cons] at hs
    rcases List.mem_cons.1 ha with rfl | ha' <;> rcases List.mem_cons.1 hb with rfl | hb'
    · exact absurd rfl hne
    · exact hs.1 b hb'
    · have := hs.1 a ha'
      rw [rabs_sub_comm a.1, rabs_sub_comm a.2]; exact this
    · exact ih hs.2 ha' hb'

theorem yOk_iff {h : Rat} {outl : List (Rat × Rat)} {y : Rat} :
    yOk h outl y = true ↔ ∀ o ∈ outl, h ≤ rabs (y - o.2) := by
  simp [yOk]

/-! ## `tryOutliers` -/

theorem tryOutliers_sublist (w h : Rat) (cs pts : List P3) (outl : List (Rat × Rat)) (n : Nat) :
    (tryOutliers w h cs pts outl n).1.Sublist pts := by
  induction cs generalizing pts outl n with
  | nil => simp [tryOutliers]
  | cons c cs ih =>
    simp only [tryOutliers]
    split
    · exact (ih _ _ _).trans (removeBand_sublist _ _ _ _ _)
    · exact ih _ _ _

theorem tryOutliers_outl (w h : Rat) (cs pts : List P3) (outl : List (Rat × Rat)) (n : Nat) :
    ∀ o ∈ (tryOutliers w h cs pts outl n).2.1, o ∈ outl ∨ ∃ c ∈ cs, o = (c.1, c.2.1) := by
  induction cs generalizing pts outl n with
  | nil => intro o ho; exact Or.inl (by simpa [tryOutliers] using ho)
  | cons c cs ih =>
    simp only [tryOutliers]
    split
    · intro o ho
      rcases ih _ _ _ o ho with h1 | ⟨c', hc', rfl⟩
      · rcases List.mem_append.1 h1 with h1 | h1
        · exact Or.inl h1
        · simp only [List.mem_singleton] at h1
          exact Or.inr ⟨c, List.mem_cons_self, h1⟩
      · exact Or.inr ⟨c', List.mem_cons_of_mem _ hc', rfl⟩
    · intro o ho
      rcases ih _ _ _ o ho with h1 | ⟨c', hc', rfl⟩
      · exact Or.inl h1
      · exact Or.inr ⟨c', List.mem_cons_of_mem _ hc', rfl⟩

/-- old outliers are kept -/
theorem tryOutliers_mono (w h : Rat) (cs pts : List P3) (outl : List (Rat × Rat)) (n : Nat) :
    ∀ o ∈ outl, o ∈ (tryOutliers w h cs pts outl n).2.1 := by
  induction cs generalizing pts outl n with
  | nil => intro o ho; simpa [tryOutliers] using ho
  | cons c cs ih =>
    simp only [tryOutliers]
    split
    · intro o ho; exact ih _ _ _ o (List.mem_append_left _ ho)
    · exact ih _ _ _

/-- The strengthened invariant of one round: the candidates still to be tried are pairwise `≥ w`
apart in x and each is `≥ w` away in x from every outlier selected so far (earlier rounds *and*
this round).  Then `Sep` and `Clear` are preserved. -/
theorem tryOutliers_sep {w h : Rat} (cs pts : List P3) (outl : List (Rat × Rat)) (n : Nat)
    (hsep : Sep w h outl) (hclear : Clear w h outl pts)
    (hcx : ∀ c ∈ cs, ∀ o ∈ outl, w ≤ rabs (o.1 - c.1))
    (hcs : cs.Pairwise (fun a b => w ≤ rabs (a.1 - b.1))) :
    Sep w h (tryOutliers w h cs pts outl n).2.1 ∧
      Clear w h (tryOutliers w h cs pts outl n).2.1 (tryOutliers w h cs pts outl n).1 := by
  induction cs generalizing pts outl n with
  | nil => simpa [tryOutliers] using ⟨hsep, hclear⟩
  | cons c cs ih =>
    rw [List.pairwise_cons] at hcs
    simp only [tryOutliers]
    split
    · rename_i hy
      rw [yOk_iff] at hy
      apply ih
      · -- Sep
        unfold Sep
        rw [List.pairwise_append]
        refine ⟨hsep, by simp, ?_⟩
        intro o ho o' ho'
        simp only [List.mem_singleton] at ho'
        subst ho'
        refine ⟨hcx c List.mem_cons_self o ho, ?_⟩
        have := hy o ho
        rw [rabs_sub_comm]; exact this
      · -- Clear
        intro o ho p hp
        rcases List.mem_append.1 ho with ho | ho
        · exact hclear o ho p ((removeBand_sublist _ _ _ _ _).subset hp)
        · simp only [List.mem_singleton] at ho
          subst ho
          exact removeBand_clear w h c.1 c.2.1 pts p hp
      · intro c' hc' o ho
        rcases List.mem_append.1 ho with ho | ho
        · exact hcx c' (List.mem_cons_of_mem _ hc') o ho
        · simp only [List.mem_singleton] at ho
          subst ho
          exact hcs.1 c' hc'
      · exact hcs.2
    · exact ih _ _ _ hsep hclear (fun c' hc' => hcx c' (List.mem_cons_of_mem _ hc')) hcs.2

theorem tryOutliers_length_le (w h : Rat) (cs pts : List P3) (outl : List (Rat × Rat)) (n : Nat) :
    (tryOutliers w h cs pts outl n).1.length ≤ pts.length :=
  (tryOutliers_sublist w h cs pts outl n).length_le

/-- if a candidate was selected (`added` changed), the working set got strictly smaller: the
first candidate selected in the round removes at least its own point -/
theorem tryOutliers_length_lt {w h : Rat} (hw : 0 < w) (cs pts : List P3)
    (outl : List (Rat × Rat)) (n : Nat)
    (hcs : ∀ c ∈ cs, ∃ p ∈ pts, p.1 = c.1)
    (hadd : (tryOutliers w h cs pts outl n).2.2 ≠ n) :
    (tryOutliers w h cs pts outl n).1.length < pts.length := by
  induction cs generalizing pts outl n with
  | nil => simp [tryOutliers] at hadd
  | cons c cs ih =>
    simp only [tryOutliers] at hadd ⊢
    split
    · have h1 := tryOutliers_length_le w h cs (removeBand w h c.1 c.2.1 pts)
        (outl ++ [(c.1, c.2.1)]) (n + 1)
      have h2 := removeBand_removes_self (h := h) (by' := c.2.1) hw (hcs c List.mem_cons_self)
      omega
    · rename_i hy
      simp only [hy] at hadd
      exact ih _ _ _ (fun c' hc' => hcs c' (List.mem_cons_of_mem _ hc')) hadd
/-! ## `zRound` -/

/-- One round either does nothing, or tries a candidate list `cs`; every candidate carries the
`(x, y)` of a point of the working set, and for a working set with ascending x the candidates are
pairwise `≥ w` apart in x (they come from different gap-groups). -/
theorem zRound_cases (w h thr : Rat) (pts : List P3) (outl : List (Rat × Rat)) :
    zRound w h thr pts outl = (pts, outl, 0) ∨
    ∃ cs, zRound w h thr pts outl = tryOutliers w h cs pts outl 0 ∧
      (∀ c ∈ cs, ∃ p ∈ pts, p.1 = c.1 ∧ p.2.1 = c.2.1) ∧
      (pts.Pairwise (fun a b => a.1 < b.1) → cs.Pairwise (fun a b => w ≤ rabs (a.1 - b.1))) := by
  unfold zRound
  simp only
  generalize hcand : pts.filter (fun p => decide (thr ≤ p.2.2)) = cand
  have hcsub : cand.Sublist pts := hcand ▸ List.filter_sublist
  generalize hgs : splitGaps w cand = gs
  match gs with
  | [] => exact Or.inl rfl
  | [g] =>
    simp only
    cases hb : argminY g with
    | none => exact Or.inl rfl
    | some b =>
      refine Or.inr ⟨[b], rfl, ?_, fun _ => by simp⟩
      intro c hc
      simp only [List.mem_singleton] at hc
      subst hc
      have hbg : c ∈ g := argminY_mem hb
      have : c ∈ cand := mem_of_mem_splitGaps (hgs ▸ List.mem_cons_self) hbg
      exact ⟨c, hcsub.subset this, rfl, rfl⟩
  | g1 :: g2 :: gs' =>
    simp only
    refine Or.inr ⟨_, rfl, ?_, ?_⟩
    · intro c hc
      have hc := (sortDescZ_perm _).subset hc
      simp only [List.mem_filterMap, Option.map_eq_some_iff] at hc
      obtain ⟨g, hg, b, hb, rfl⟩ := hc
      have hbg : b ∈ g := argminY_mem hb
      have : b ∈ cand := mem_of_mem_splitGaps (hgs ▸ hg) hbg
      exact ⟨b, hcsub.subset this, rfl, rfl⟩
    · intro hpts
      have hgap := splitGaps_gap w cand (hpts.sublist hcsub)
      rw [hgs] at hgap
      refine ((sortDescZ_perm _).pairwise_iff ?_).2 ?_
      · intro a b hab; rw [rabs_sub_comm]; exact hab
      · refine List.Pairwise.filterMap _ ?_ hgap
        intro ga gb hg a ha b hb
        simp only [Option.map_eq_some_iff] at ha hb
        obtain ⟨pa, hpa, rfl⟩ := ha
        obtain ⟨pb, hpb, rfl⟩ := hb
        have := hg pa (argminY_mem hpa) pb (argminY_mem hpb)
        simp only
        rw [rabs_sub_comm]
        unfold rabs; split <;> grind

theorem zRound_sublist (w h thr : Rat) (pts : List P3) (outl : List (Rat × Rat)) :
    (zRound w h thr pts outl).1.Sublist pts := by
  rcases zRound_cases w h thr pts outl with h1 | ⟨cs, h1, -, -⟩
  · rw [h1]; exact List.Sublist.refl _
  · rw [h1]; exact tryOutliers_sublist _ _ _ _ _ _

/-- every outlier after the round is an old one or the `(x, y)` of a point of the working set -/
theorem zRound_outl_from_pts (w h thr : Rat) (pts : List P3) (outl : List (Rat × Rat)) :
    ∀ o ∈ (zRound w h thr pts outl).2.1, o ∈ outl ∨ ∃ p ∈ pts, o = (p.1, p.2.1) := by
  rcases zRound_cases w h thr pts outl with h1 | ⟨cs, h1, hcs, -⟩
  · rw [h1]; exact fun o ho => Or.inl ho
  · rw [h1]
    intro o ho
    rcases tryOutliers_outl w h cs pts outl 0 o ho with h2 | ⟨c, hc, rfl⟩
    · exact Or.inl h2
    · obtain ⟨p, hp, hx, hy⟩ := hcs c hc
      exact Or.inr ⟨p, hp, by rw [hx, hy]⟩

theorem zRound_mono (w h thr : Rat) (pts : List P3) (outl : List (Rat × Rat)) :
    ∀ o ∈ outl, o ∈ (zRound w h thr pts outl).2.1 := by
  rcases zRound_cases w h thr pts outl with h1 | ⟨cs, h1, -, -⟩
  · rw [h1]; exact fun o ho => ho
  · rw [h1]; exact tryOutliers_mono _ _ _ _ _ _

/-- a round preserves `Sep` and `Clear` (single- and multi-group case alike) -/
theorem zRound_sep {w h : Rat} (thr : Rat) (pts : List P3) (outl : List (Rat × Rat))
    (hpts : pts.Pairwise (fun a b => a.1 < b.1))
    (hsep : Sep w h outl) (hclear : Clear w h outl pts) :
    Sep w h (zRound w h thr pts outl).2.1 ∧
      Clear w h (zRound w h thr pts outl).2.1 (zRound w h thr pts outl).1 := by
  rcases zRound_cases w h thr pts outl with h1 | ⟨cs, h1, hcs, hpw⟩
  · rw [h1]; exact ⟨hsep, hclear⟩
  · rw [h1]
    refine tryOutliers_sep cs pts outl 0 hsep hclear ?_ (hpw hpts)
    intro c hc o ho
    obtain ⟨p, hp, hx, -⟩ := hcs c hc
    rw [← hx]
    exact le_rabs_of_clear (hclear o ho p hp).1

/-- a productive round strictly shrinks the working set -/
theorem zRound_length_lt {w h : Rat} (hw : 0 < w) (thr : Rat) (pts : List P3)
    (outl : List (Rat × Rat)) (hadd : (zRound w h thr pts outl).2.2 ≠ 0) :
    (zRound w h thr pts outl).1.length < pts.length := by
  rcases zRound_cases w h thr pts outl with h1 | ⟨cs, h1, hcs, -⟩
  · rw [h1] at hadd; exact absurd rfl hadd
  · rw [h1] at hadd ⊢
    refine tryOutliers_length_lt hw cs pts outl 0 ?_ hadd
    intro c hc
    obtain ⟨p, hp, hx, -⟩ := hcs c hc
    exact ⟨p, hp, hx⟩

/-! ## `zLoop` -/

theorem zLoop_outl_from_pts_aux (w h : Rat) (zthr : Nat → Rat) (minz : Rat) (pts0 : List P3)
    (fuel k : Nat) (pts : List P3) (outl res : List (Rat × Rat))
    (hsub : pts.Sublist pts0) (hout : ∀ o ∈ outl, ∃ p ∈ pts0, o = (p.1, p.2.1))
    (hres : zLoop w h zthr minz fuel k pts outl = some res) :
    ∀ o ∈ res, ∃ p ∈ pts0, o = (p.1, p.2.1) := by
  induction fuel generalizing k pts outl with
  | zero => simp [zLoop] at hres
  | succ f ih =>
    have hout' : ∀ o ∈ (zRound w h (zthr k) pts outl).2.1, ∃ p ∈ pts0, o = (p.1, p.2.1) := by
      intro o ho
      rcases zRound_outl_from_pts w h (zthr k) pts outl o ho with h1 | ⟨p, hp, rfl⟩
      · exact hout o h1
      · exact ⟨p, hsub.subset hp, rfl⟩
    simp only [zLoop] at hres
    split at hres
    · simp only [Option.some.injEq] at hres
      subst hres
      exact hout'
    · exact ih _ _ _ ((zRound_sublist _ _ _ _ _).trans hsub) hout' hres

theorem zLoop_sep_aux {w h : Rat} (zthr : Nat → Rat) (minz : Rat)
    (fuel k : Nat) (pts : List P3) (outl res : List (Rat × Rat))
    (hpts : pts.Pairwise (fun a b => a.1 < b.1))
    (hsep : Sep w h outl) (hclear : Clear w h outl pts)
    (hres : zLoop w h zthr minz fuel k pts outl = some res) : Sep w h res := by
  induction fuel generalizing k pts outl with
  | zero => simp [zLoop] at hres
  | succ f ih =>
    have hr := zRound_sep (zthr k) pts outl hpts hsep hclear
    simp only [zLoop] at hres
    split at hres
    · simp only [Option.some.injEq] at hres
      subst hres
      exact hr.1
    · exact ih _ _ _ (hpts.sublist (zRound_sublist _ _ _ _ _)) hr.1 hr.2 hres

theorem zLoop_total_aux {w h : Rat} (hw : 0 < w) (zthr : Nat → Rat) (minz : Rat) (K : Nat)
    (hK : ∀ k, K ≤ k → zthr k ≤ minz)
    (fuel k : Nat) (pts : List P3) (outl : List (Rat × Rat))
    (hfuel : (K - k) + pts.length + 1 ≤ fuel) :
    ∃ res, zLoop w h zthr minz fuel k pts outl = some res := by
  induction fuel generalizing k pts outl with
  | zero => omega
  | succ f ih =>
    simp only [zLoop]
    split
    · exact ⟨_, rfl⟩
    · rename_i hstop
      apply ih
      have hle := (zRound_sublist w h (zthr k) pts outl).length_le
      by_cases hk : K ≤ k
      · have hz := hK k hk
        simp only [hz, decide_true, Bool.true_and, Bool.or_eq_true, beq_iff_eq, not_or] at hstop
        have := zRound_length_lt hw (zthr k) pts outl hstop.2
        omega
      · omega
/-! ## input list, indices -/

theorem zip_pairwise_fst {β} (xs : List Rat) (l : List β) (hx : xs.Pairwise (· < ·)) :
    (xs.zip l).Pairwise (fun a b => a.1 < b.1) := by
  induction xs generalizing l with
  | nil => simp
  | cons x xs ih =>
    cases l with
    | nil => simp
    | cons y l =>
      rw [List.pairwise_cons] at hx
      simp only [List.zip_cons_cons]
      refine List.pairwise_cons.2 ⟨?_, ih l hx.2⟩
      intro q hq
      exact hx.1 q.1 (List.of_mem_zip (a := q.1) (b := q.2) hq).1

/-- on a strictly increasing list `idxOf` is strictly monotone on members -/
theorem idxOf_lt_of_lt {xs : List Rat} (hx : xs.Pairwise (· < ·)) {a b : Rat}
    (ha : a ∈ xs) (hb : b ∈ xs) (hab : a < b) : xs.idxOf a < xs.idxOf b := by
  have hia := List.idxOf_lt_length_of_mem ha
  have hib := List.idxOf_lt_length_of_mem hb
  have ea : xs[xs.idxOf a] = a := List.getElem_idxOf hia
  have eb : xs[xs.idxOf b] = b := List.getElem_idxOf hib
  rw [List.pairwise_iff_getElem] at hx
  rcases Nat.lt_trichotomy (xs.idxOf a) (xs.idxOf b) with h | h | h
  · exact h
  · have : a = b := by rw [← ea, ← eb]; simp [h]
    grind
  · have := hx _ _ hib hia h
    rw [ea, eb] at this
    grind
/-! ## `zPoints` -/

theorem zPoints_cases {xs ys zs : List Rat} {w h ymin : Rat} {zthr : Nat → Rat} {fuel : Nat}
    {sel : List Rat} (hsel : zPoints xs ys zs w h ymin zthr fuel = some sel) :
    sel = [] ∨ ∃ outl, zLoop w h zthr (minZ (xs.zip (ys.zip zs))) fuel 0 (xs.zip (ys.zip zs)) []
      = some outl ∧ sel = (sweep 1 (sortByX outl)).map (·.1) := by
  unfold zPoints at hsel
  split at hsel
  · exact Or.inl (by simpa using hsel.symm)
  · split at hsel
    · exact Or.inl (by simpa using hsel.symm)
    · simp only [Option.map_eq_some_iff] at hsel
      obtain ⟨outl, h1, h2⟩ := hsel
      exact Or.inr ⟨outl, h1, h2.symm⟩

end Knee

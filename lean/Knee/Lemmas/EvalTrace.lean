import Knee.Model.EvalTrace
import Knee.Props.Invariance
import Mathlib.Tactic.Ring
import Mathlib.Tactic.Linarith
import Mathlib.Tactic.Positivity
import Mathlib.Tactic.FieldSimp
import Mathlib.Algebra.Order.Field.Basic
/-!
Helper lemmas for `Props/X03.lean`: `listMax`, the gap chain `(a, k₀), (k₀, k₁), …` (telescoping, triangle inequality),
element-wise division, and the covariance of the pieces of `accTrace` under positive affine maps of the axes.
-/
namespace Knee

/-! ### `listMax` (`ndarray.max()` / builtin `max`) -/

theorem foldl_maxle_ge : ∀ (l : List Rat) (init : Rat),
    init ≤ l.foldl (fun a b => if a ≤ b then b else a) init ∧
      ∀ v ∈ l, v ≤ l.foldl (fun a b => if a ≤ b then b else a) init := by
  intro l
  induction l with
  | nil => intro init; simp
  | cons w l ih =>
    intro init
    simp only [List.foldl_cons, List.mem_cons, forall_eq_or_imp]
    split_ifs with h
    · obtain ⟨h1, h2⟩ := ih w
      exact ⟨by linarith, h1, h2⟩
    · obtain ⟨h1, h2⟩ := ih init
      exact ⟨h1, by linarith, h2⟩

theorem foldl_maxle_mem : ∀ (l : List Rat) (init : Rat),
    l.foldl (fun a b => if a ≤ b then b else a) init = init ∨
      l.foldl (fun a b => if a ≤ b then b else a) init ∈ l := by
  intro l
  induction l with
  | nil => intro init; simp
  | cons w l ih =>
    intro init
    simp only [List.foldl_cons, List.mem_cons]
    split_ifs with h
    · rcases ih w with h1 | h1
      · exact Or.inr (Or.inl h1)
      · exact Or.inr (Or.inr h1)
    · rcases ih init with h1 | h1
      · exact Or.inl h1
      · exact Or.inr (Or.inr h1)

theorem le_listMax (l : List Rat) : ∀ v ∈ l, v ≤ listMax l := by
  intro v hv
  cases l with
  | nil => simp at hv
  | cons a l => exact (foldl_maxle_ge (a :: l) a).2 v hv

theorem listMax_mem (l : List Rat) (hl : l ≠ []) : listMax l ∈ l := by
  cases l with
  | nil => exact absurd rfl hl
  | cons a l =>
    rcases foldl_maxle_mem (a :: l) a with h | h
    · unfold listMax; simp only [List.head?_cons, Option.getD_some]; rw [h]; simp
    · exact h

theorem listMax_nil : listMax [] = 0 := rfl

/-- `listMax` is characterised by membership and domination -/
theorem listMax_eq (l : List Rat) (v : Rat) (hv : v ∈ l) (hle : ∀ w ∈ l, w ≤ v) : listMax l = v := by
  have h1 := le_listMax l v hv
  have h2 := hle _ (listMax_mem l (List.ne_nil_of_mem hv))
  linarith

theorem listMax_map_mul {k : Rat} (hk : 0 < k) (l : List Rat) :
    listMax (l.map fun v => k * v) = k * listMax l := by
  by_cases hl : l = []
  · subst hl; simp [listMax_nil]
  · apply listMax_eq
    · exact List.mem_map.2 ⟨_, listMax_mem l hl, rfl⟩
    · intro w hw
      obtain ⟨u, hu, rfl⟩ := List.mem_map.1 hw
      exact mul_le_mul_of_nonneg_left (le_listMax l u hu) hk.le

/-! ### the gap chain -/

/-- `(a, k₀), (k₀, k₁), …` -/
def chainFrom (a : Nat) (ks : List Nat) : List (Nat × Nat) := (a :: ks).zip ks

theorem chainFrom_nil (a : Nat) : chainFrom a [] = [] := rfl
theorem chainFrom_cons (a k : Nat) (ks : List Nat) : chainFrom a (k :: ks) = (a, k) :: chainFrom k ks := rfl
theorem gapsOf_eq (knees : List Nat) : gapsOf knees = chainFrom 0 knees := rfl

theorem chainFrom_length (a : Nat) (ks : List Nat) : (chainFrom a ks).length = ks.length := by
  simp [chainFrom]

theorem gapsOf_length (knees : List Nat) : (gapsOf knees).length = knees.length := chainFrom_length 0 knees

/-- last index of the chain -/
def chainLast (a : Nat) (ks : List Nat) : Nat := ks.getLast?.getD a

theorem chainLast_cons (a k : Nat) (ks : List Nat) : chainLast a (k :: ks) = chainLast k ks := by
  unfold chainLast
  cases ks with
  | nil => rfl
  | cons b t =>
    have h : (b :: t).getLast? = some ((b :: t).getLast (by simp)) := List.getLast?_eq_some_getLast (by simp)
    simp only [List.getLast?_cons_cons, h, Option.getD_some]

/-- telescoping -/
theorem chain_sum_sub (f : Nat → Rat) : ∀ (ks : List Nat) (a : Nat),
    ((chainFrom a ks).map fun g => f g.2 - f g.1).sum = f (chainLast a ks) - f a := by
  intro ks
  induction ks with
  | nil => intro a; simp [chainFrom_nil, chainLast]
  | cons k ks ih =>
    intro a
    rw [chainFrom_cons, List.map_cons, List.sum_cons, ih k, chainLast_cons]
    ring

/-- triangle inequality along the chain -/
theorem chain_sum_abs_ge (f : Nat → Rat) : ∀ (ks : List Nat) (a : Nat),
    rabs (f a - f (chainLast a ks)) ≤ ((chainFrom a ks).map fun g => rabs (f g.1 - f g.2)).sum := by
  intro ks
  induction ks with
  | nil => intro a; simp [chainFrom_nil, chainLast, rabs]
  | cons k ks ih =>
    intro a
    rw [chainFrom_cons, List.map_cons, List.sum_cons, chainLast_cons]
    have h := ih k
    have h2 : rabs (f a - f (chainLast k ks)) ≤ rabs (f a - f k) + rabs (f k - f (chainLast k ks)) := by
      unfold rabs; split_ifs <;> linarith
    simp only at h ⊢
    linarith

/-- members of the chain of a sorted list: ordered pairs of members -/
theorem chain_mem (a : Nat) (ks : List Nat) : ∀ g ∈ chainFrom a ks, (g.1 = a ∨ g.1 ∈ ks) ∧ g.2 ∈ ks := by
  induction ks generalizing a with
  | nil => intro g hg; simp [chainFrom_nil] at hg
  | cons k ks ih =>
    intro g hg
    rw [chainFrom_cons, List.mem_cons] at hg
    rcases hg with rfl | hg
    · simp
    · obtain ⟨h1, h2⟩ := ih k g hg
      refine ⟨Or.inr ?_, List.mem_cons_of_mem _ h2⟩
      rcases h1 with h1 | h1
      · rw [h1]; exact List.mem_cons_self
      · exact List.mem_cons_of_mem _ h1

theorem chain_le (a : Nat) (ks : List Nat) (h : (a :: ks).Pairwise (· ≤ ·)) : ∀ g ∈ chainFrom a ks, g.1 ≤ g.2 := by
  induction ks generalizing a with
  | nil => intro g hg; simp [chainFrom_nil] at hg
  | cons k ks ih =>
    intro g hg
    rw [chainFrom_cons, List.mem_cons] at hg
    rcases hg with rfl | hg
    · exact (List.pairwise_cons.1 h).1 k List.mem_cons_self
    · exact ih k (List.pairwise_cons.1 h).2 g hg

theorem chain_lt (a : Nat) (ks : List Nat) (h : (a :: ks).Pairwise (· < ·)) : ∀ g ∈ chainFrom a ks, g.1 < g.2 := by
  induction ks generalizing a with
  | nil => intro g hg; simp [chainFrom_nil] at hg
  | cons k ks ih =>
    intro g hg
    rw [chainFrom_cons, List.mem_cons] at hg
    rcases hg with rfl | hg
    · exact (List.pairwise_cons.1 h).1 k List.mem_cons_self
    · exact ih k (List.pairwise_cons.1 h).2 g hg

theorem gapsOf_le (knees : List Nat) (h : knees.Pairwise (· ≤ ·)) : ∀ g ∈ gapsOf knees, g.1 ≤ g.2 :=
  chain_le 0 knees (List.pairwise_cons.2 ⟨fun _ _ => Nat.zero_le _, h⟩)

theorem gapsOf_bound (n : Nat) (knees : List Nat) (hn : ∀ k ∈ knees, k < n) (hne : knees ≠ []) :
    ∀ g ∈ gapsOf knees, g.1 < n ∧ g.2 < n := by
  intro g hg
  obtain ⟨h1, h2⟩ := chain_mem 0 knees g hg
  refine ⟨?_, hn _ h2⟩
  rcases h1 with h1 | h1
  · rw [h1]
    cases knees with
    | nil => exact absurd rfl hne
    | cons k ks => exact Nat.lt_of_le_of_lt (Nat.zero_le _) (hn k List.mem_cons_self)
  · exact hn _ h1

/-! ### sums, element-wise division -/

theorem sum_map_div (d : Rat) : ∀ l : List Rat, (l.map fun a => a / d).sum = l.sum / d := by
  intro l
  induction l with
  | nil => simp
  | cons a l ih => simp only [List.map_cons, List.sum_cons, ih]; ring

theorem sum_map_congr_mem {α : Type} (f g : α → Rat) : ∀ l : List α, (∀ a ∈ l, f a = g a) → (l.map f).sum = (l.map g).sum := by
  intro l
  induction l with
  | nil => intro _; rfl
  | cons a l ih =>
    intro h
    simp only [List.map_cons, List.sum_cons]
    rw [h a List.mem_cons_self, ih fun b hb => h b (List.mem_cons_of_mem _ hb)]

theorem sum_nonneg_of_mem : ∀ l : List Rat, (∀ v ∈ l, 0 ≤ v) → 0 ≤ l.sum := by
  intro l
  induction l with
  | nil => intro _; simp
  | cons a l ih =>
    intro h
    simp only [List.sum_cons]
    have := h a List.mem_cons_self
    have := ih fun b hb => h b (List.mem_cons_of_mem _ hb)
    linarith

theorem sum_pos_of_mem : ∀ l : List Rat, (∀ v ∈ l, 0 ≤ v) → (∃ v ∈ l, 0 < v) → 0 < l.sum := by
  intro l
  induction l with
  | nil => intro _ h; obtain ⟨v, hv, _⟩ := h; simp at hv
  | cons a l ih =>
    intro h hex
    simp only [List.sum_cons]
    have ha := h a List.mem_cons_self
    have hl := sum_nonneg_of_mem l fun b hb => h b (List.mem_cons_of_mem _ hb)
    obtain ⟨v, hv, hpos⟩ := hex
    rcases List.mem_cons.1 hv with rfl | hv
    · linarith
    · have := ih (fun b hb => h b (List.mem_cons_of_mem _ hb)) ⟨v, hv, hpos⟩
      linarith

theorem divAll_eq_some {v l : List Rat} {d : Rat} (h : divAll v d = some l) : d ≠ 0 ∧ l = v.map fun a => a / d := by
  unfold divAll at h
  split_ifs at h with hd
  exact ⟨hd, (Option.some.inj h).symm⟩

theorem divAll_eq_none {v : List Rat} {d : Rat} : divAll v d = none ↔ d = 0 := by
  unfold divAll; split_ifs with h <;> simp [h]

theorem divAll_scale {k : Rat} (hk : k ≠ 0) (v : List Rat) (d : Rat) :
    divAll (v.map fun a => k * a) (k * d) = divAll v d := by
  unfold divAll
  by_cases hd : d = 0
  · simp [hd]
  · rw [if_neg hd, if_neg (mul_ne_zero hk hd), List.map_map]
    congr 1
    apply List.map_congr_left
    intro a _
    simp only [Function.comp]
    rw [mul_div_mul_left _ _ hk]

theorem mul3_nonneg : ∀ a b c : List Rat, (∀ v ∈ a, 0 ≤ v) → (∀ v ∈ b, 0 ≤ v) → (∀ v ∈ c, 0 ≤ v) →
    ∀ v ∈ mul3 a b c, 0 ≤ v := by
  intro a b c ha hb hc v hv
  unfold mul3 at hv
  obtain ⟨i, hi, rfl⟩ := List.mem_iff_getElem.1 hv
  simp only [List.getElem_zipWith]
  simp only [List.length_zipWith] at hi
  exact mul_nonneg (mul_nonneg (ha _ (List.getElem_mem _)) (hb _ (List.getElem_mem _))) (hc _ (List.getElem_mem _))

end Knee

namespace Knee

/-- the last knee (`knees[-1]`; `0` for an empty list) -/
def lastKnee (knees : List Nat) : Nat := knees.getLast?.getD 0

theorem chainLast_zero (knees : List Nat) : chainLast 0 knees = lastKnee knees := rfl

theorem lastKnee_mem (knees : List Nat) (h : knees ≠ []) : lastKnee knees ∈ knees := by
  unfold lastKnee
  rw [List.getLast?_eq_some_getLast h]
  exact List.getLast_mem h

/-- normalising a non-negative list by its maximum: entries in `[0, 1]`, and `1` is attained -/
theorem normMax_range (l r : List Rat) (hnn : ∀ v ∈ l, 0 ≤ v) (h : divAll l (listMax l) = some r) :
    (∀ v ∈ r, 0 ≤ v ∧ v ≤ 1) ∧ (1 : Rat) ∈ r := by
  obtain ⟨hd, rfl⟩ := divAll_eq_some h
  have hl : l ≠ [] := by rintro rfl; exact hd rfl
  have hmem := listMax_mem l hl
  have hpos : 0 < listMax l := lt_of_le_of_ne (hnn _ hmem) (Ne.symm hd)
  refine ⟨?_, List.mem_map.2 ⟨_, hmem, div_self hd⟩⟩
  intro v hv
  obtain ⟨u, hu, rfl⟩ := List.mem_map.1 hv
  exact ⟨div_nonneg (hnn u hu) hpos.le, (div_le_one hpos).2 (le_listMax l u hu)⟩

/-- a non-negative list has maximum `0` iff all its entries are `0` -/
theorem listMax_eq_zero_iff (l : List Rat) (hnn : ∀ v ∈ l, 0 ≤ v) : listMax l = 0 ↔ ∀ v ∈ l, v = 0 := by
  constructor
  · intro h v hv
    have := le_listMax l v hv
    have := hnn v hv
    linarith
  · intro h
    by_cases hl : l = []
    · subst hl; rfl
    · exact h _ (listMax_mem l hl)

theorem clip0_nonneg (c : Rat) : 0 ≤ clip0 c := by
  unfold clip0; split_ifs with h
  · exact le_refl 0
  · exact not_lt.1 h

theorem clip0_of_nonneg {c : Rat} (h : 0 ≤ c) : clip0 c = c := by
  unfold clip0; rw [if_neg (not_lt.2 h)]

theorem rabs_of_nonneg {a : Rat} (h : 0 ≤ a) : rabs a = a := by unfold rabs; rw [if_pos h]

theorem rabs_sub_of_le {a b : Rat} (h : a ≤ b) : rabs (a - b) = b - a := by
  unfold rabs; split_ifs with h1
  · linarith
  · ring

theorem rabs_affine_sub {k : Rat} (hk : 0 ≤ k) (c u v : Rat) : rabs ((k * u + c) - (k * v + c)) = k * rabs (u - v) := by
  rw [show (k * u + c) - (k * v + c) = k * (u - v) by ring]
  exact rabs_mul_left hk _

theorem ptAt_map (f : Rat → Rat) (v : List Rat) {i : Nat} (hi : i < v.length) : ptAt (v.map f) i = f (ptAt v i) := by
  unfold ptAt
  simp [List.getElem?_map, List.getElem?_eq_getElem hi]

theorem sliceQ_map (f : Rat → Rat) (v : List Rat) (l r : Nat) : sliceQ (v.map f) l r = (sliceQ v l r).map f := by
  unfold sliceQ
  rw [List.map_take, List.map_drop]

theorem sliceQ_ne_nil (v : List Rat) {l r : Nat} (hlr : l ≤ r) (hr : r < v.length) : sliceQ v l r ≠ [] := by
  unfold sliceQ
  intro h
  have := congrArg List.length h
  simp only [List.length_take, List.length_drop, List.length_nil] at this
  omega

theorem sliceQ_head (v : List Rat) {l r : Nat} (hlr : l ≤ r) (_hr : r < v.length) :
    (sliceQ v l r).head?.getD 0 = ptAt v l := by
  unfold sliceQ ptAt
  rw [List.head?_take, if_neg (by omega), List.head?_drop]

theorem sliceQ_getLast (v : List Rat) {l r : Nat} (hlr : l ≤ r) (hr : r < v.length) :
    (sliceQ v l r).getLast?.getD 0 = ptAt v r := by
  unfold sliceQ ptAt
  rw [List.getLast?_eq_getElem?]
  simp only [List.length_take, List.length_drop]
  rw [List.getElem?_take_of_lt (by omega), List.getElem?_drop]
  congr 2
  omega

/-- the slope of the end-point line of the slice `l … r`, in coordinates -/
theorem slice_slope (xs ys : List Rat) {l r : Nat} (hlr : l ≤ r) (hrx : r < xs.length) (hry : r < ys.length) :
    (fitQ (sliceQ xs l r) (sliceQ ys l r)).2
      = if ptAt xs l - ptAt xs r ≠ 0 then (ptAt ys l - ptAt ys r) / (ptAt xs l - ptAt xs r) else 0 := by
  unfold fitQ
  simp only [sliceQ_head xs hlr hrx, sliceQ_getLast xs hlr hrx, sliceQ_head ys hlr hry, sliceQ_getLast ys hlr hry]
  split_ifs <;> rfl

end Knee

namespace Knee

/-! ### covariance of the pieces of `accTrace` under `x ↦ a·x + c`, `y ↦ b·y + d` (`a, b > 0`) -/

theorem kneesOk_gaps {n : Nat} {knees : List Nat} (h : kneesOk n knees = true) :
    knees ≠ [] ∧ ∀ g ∈ gapsOf knees, g.1 ≤ g.2 ∧ g.1 < n ∧ g.2 < n := by
  unfold kneesOk at h
  simp only [Bool.and_eq_true, Bool.not_eq_true', List.isEmpty_eq_false_iff, List.all_eq_true, decide_eq_true_eq] at h
  obtain ⟨⟨hne, hn⟩, hle⟩ := h
  refine ⟨hne, fun g hg => ⟨hle g hg, ?_⟩⟩
  exact gapsOf_bound n knees hn hne g hg

theorem gapAbs_affine {k : Rat} (hk : 0 ≤ k) (c : Rat) (v : List Rat) (knees : List Nat)
    (hb : ∀ g ∈ gapsOf knees, g.1 < v.length ∧ g.2 < v.length) :
    gapAbs (v.map fun u => k * u + c) knees = (gapAbs v knees).map fun a => k * a := by
  unfold gapAbs
  rw [List.map_map]
  apply List.map_congr_left
  intro g hg
  obtain ⟨h1, h2⟩ := hb g hg
  simp only [Function.comp]
  rw [ptAt_map _ v h1, ptAt_map _ v h2]
  exact rabs_affine_sub hk c _ _

theorem extent_affine {k : Rat} (hk : 0 ≤ k) (c : Rat) (v : List Rat) (hv : v ≠ []) :
    extent (v.map fun u => k * u + c) = k * extent v := by
  unfold extent
  have hpos : 0 < v.length := List.length_pos_of_ne_nil hv
  rw [List.length_map, ptAt_map _ v (by omega : v.length - 1 < v.length), ptAt_map _ v hpos]
  exact rabs_affine_sub hk c _ _

theorem gapSlopes_affine {a b : Rat} (ha : 0 < a) (hb : 0 < b) (c d : Rat) (xs ys : List Rat) (knees : List Nat)
    (hlen : ys.length = xs.length)
    (hg : ∀ g ∈ gapsOf knees, g.1 ≤ g.2 ∧ g.1 < xs.length ∧ g.2 < xs.length) :
    gapSlopes (xs.map fun u => a * u + c) (ys.map fun u => b * u + d) knees
      = (gapSlopes xs ys knees).map fun s => b / a * s := by
  unfold gapSlopes
  rw [List.map_map]
  apply List.map_congr_left
  intro g hgm
  obtain ⟨hle, h1, h2⟩ := hg g hgm
  simp only [Function.comp]
  rw [slice_slope _ _ hle (by simpa using h2) (by simpa [hlen] using h2), slice_slope xs ys hle h2 (by omega)]
  rw [ptAt_map _ xs h1, ptAt_map _ xs h2, ptAt_map _ ys (by omega : g.1 < ys.length), ptAt_map _ ys (by omega : g.2 < ys.length)]
  have hba : 0 ≤ b / a := (div_pos hb ha).le
  have e1 : a * ptAt xs g.1 + c - (a * ptAt xs g.2 + c) = a * (ptAt xs g.1 - ptAt xs g.2) := by ring
  have e2 : b * ptAt ys g.1 + d - (b * ptAt ys g.2 + d) = b * (ptAt ys g.1 - ptAt ys g.2) := by ring
  rw [e1, e2]
  by_cases h0 : ptAt xs g.1 - ptAt xs g.2 = 0
  · rw [h0]; simp [rabs]
  · rw [if_pos (by simpa using mul_ne_zero ha.ne' h0), if_pos (by simpa using h0), ← rabs_mul_left hba]
    congr 1
    field_simp

end Knee

namespace Knee

/-! ### the exact R² of a gap (`coefQ`) under affine maps -/

theorem sum_sq_eq_zero (f : Rat → Rat) : ∀ l : List Rat, (l.map fun a => f a * f a).sum = 0 → ∀ a ∈ l, f a = 0 := by
  intro l
  induction l with
  | nil => intro _ a ha; simp at ha
  | cons b l ih =>
    intro h a ha
    simp only [List.map_cons, List.sum_cons] at h
    have h1 : 0 ≤ f b * f b := mul_self_nonneg _
    have h2 : 0 ≤ (l.map fun a => f a * f a).sum := map_sum_nonneg _ (fun a => mul_self_nonneg _) l
    rcases List.mem_cons.1 ha with rfl | ha
    · exact mul_self_eq_zero.1 (by linarith)
    · exact ih (by linarith) a ha

/-- a constant `y` (`tss = 0`) is fitted exactly by its own end-point line when the first and last `x` differ -/
theorem rss_fit_of_tss_zero (x y : List Rat) (ht : tssQ y = 0) (h : x.head?.getD 0 ≠ x.getLast?.getD 0) :
    rssQ y (lineQ x (fitQ x y)) = 0 := by
  have hall : ∀ a ∈ y, a = meanQ y := by
    intro a ha
    have := sum_sq_eq_zero (fun a => a - meanQ y) y ht a ha
    linarith
  have hd : x.head?.getD 0 - x.getLast?.getD 0 ≠ 0 := sub_ne_zero.2 h
  have hfit : fitQ x y = (y.head?.getD 0, 0) := by
    have hhl : y.head?.getD 0 = y.getLast?.getD 0 := by
      cases y with
      | nil => rfl
      | cons b t =>
        have e1 : (b :: t).head?.getD 0 = meanQ (b :: t) := by simpa using hall b List.mem_cons_self
        have e2 : (b :: t).getLast?.getD 0 = meanQ (b :: t) := by
          rw [List.getLast?_eq_some_getLast (by simp)]
          exact hall _ (List.getLast_mem _)
        rw [e1, e2]
    unfold fitQ
    simp only [if_pos hd, hhl, sub_self, zero_div, zero_mul, sub_zero]
  rw [hfit]
  unfold rssQ lineQ
  have : ∀ (u v : List Rat), (∀ a ∈ u, a = y.head?.getD 0) →
      (List.zipWith (fun a b => (a - b) * (a - b)) u (v.map fun w => w * (y.head?.getD 0, (0 : Rat)).2 + (y.head?.getD 0, (0 : Rat)).1)).sum = 0 := by
    intro u
    induction u with
    | nil => intro v _; simp
    | cons a u ih =>
      intro v hu
      cases v with
      | nil => simp
      | cons w v =>
        simp only [List.map_cons, List.zipWith_cons_cons, List.sum_cons]
        rw [ih v fun b hb => hu b (List.mem_cons_of_mem _ hb), hu a List.mem_cons_self]
        ring
  apply this
  intro a ha
  cases y with
  | nil => simp at ha
  | cons b t =>
    rw [hall a ha]
    simpa using (hall b List.mem_cons_self).symm

theorem lineQ_fit_affine {a : Rat} (ha : a ≠ 0) (b c d : Rat) (xs ys : List Rat) (hys : ys ≠ [])
    (h : xs.head?.getD 0 ≠ xs.getLast?.getD 0) :
    lineQ (xs.map fun v => a * v + c) (fitQ (xs.map fun v => a * v + c) (ys.map fun v => b * v + d))
      = (lineQ xs (fitQ xs ys)).map fun v => b * v + d := by
  rw [fitQ_affine ha b c d xs ys hys h]
  unfold lineQ
  rw [List.map_map, List.map_map]
  apply List.map_congr_left
  intro v _
  simp only [Function.comp]
  field_simp
  ring

/-- the exact per-gap R² is the same for the curve `x ↦ a·x + c`, `y ↦ b·y + d` (`a, b ≠ 0`), provided the gap's end points
have different `x` -/
theorem coefQ_affine {a b : Rat} (ha : a ≠ 0) (hb : b ≠ 0) (c d : Rat) (xs ys : List Rat) {l r : Nat}
    (hlr : l ≤ r) (hrx : r < xs.length) (hry : r < ys.length) (hne : ptAt xs l ≠ ptAt xs r) :
    coefQ (xs.map fun v => a * v + c) (ys.map fun v => b * v + d) l r = coefQ xs ys l r := by
  unfold coefQ
  rw [sliceQ_map, sliceQ_map]
  have hh : (sliceQ xs l r).head?.getD 0 ≠ (sliceQ xs l r).getLast?.getD 0 := by
    rw [sliceQ_head xs hlr hrx, sliceQ_getLast xs hlr hrx]; exact hne
  rw [lineQ_fit_affine ha b c d _ _ (sliceQ_ne_nil ys hlr hry) hh]
  by_cases ht : tssQ (sliceQ ys l r) = 0
  · rw [r2Q_affine_const b d _ _ ht, rss_fit_of_tss_zero _ _ ht hh]
    unfold r2Q
    rw [if_pos ht, rss_fit_of_tss_zero _ _ ht hh]
    ring
  · exact r2Q_affine hb d _ _ ht

end Knee

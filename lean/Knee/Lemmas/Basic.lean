import Knee.Model.Basic
/-! Lemmas about `argmaxIdx`, `argminIdx`, `interior`, `insertSorted` (core tactics only). -/
namespace Knee

theorem argmaxGo_lt (N : Nat) : ∀ (xs : List Rat) (bi : Nat) (bv : Rat) (i : Nat),
    bi < i → i + xs.length = N → argmaxGo bi bv i xs < N := by
  intro xs
  induction xs with
  | nil => intro bi bv i h1 h2; simp [argmaxGo] at *; omega
  | cons x xs ih =>
    intro bi bv i h1 h2
    simp only [argmaxGo]
    split
    · exact ih i x (i + 1) (by omega) (by simp at h2; omega)
    · exact ih bi bv (i + 1) (by omega) (by simp at h2; omega)

theorem argmaxIdx_lt_length {l : List Rat} (h : l ≠ []) : argmaxIdx l < l.length := by
  cases l with
  | nil => exact absurd rfl h
  | cons x xs => exact argmaxGo_lt _ xs 0 x 1 (by omega) (by simp; omega)

theorem argminGo_lt (N : Nat) : ∀ (xs : List Rat) (bi : Nat) (bv : Rat) (i : Nat),
    bi < i → i + xs.length = N → argminGo bi bv i xs < N := by
  intro xs
  induction xs with
  | nil => intro bi bv i h1 h2; simp [argminGo] at *; omega
  | cons x xs ih =>
    intro bi bv i h1 h2
    simp only [argminGo]
    split
    · exact ih i x (i + 1) (by omega) (by simp at h2; omega)
    · exact ih bi bv (i + 1) (by omega) (by simp at h2; omega)

theorem argminIdx_lt_length {l : List Rat} (h : l ≠ []) : argminIdx l < l.length := by
  cases l with
  | nil => exact absurd rfl h
  | cons x xs => exact argminGo_lt _ xs 0 x 1 (by omega) (by simp; omega)

theorem interior_length {α} (l : List α) : (interior l).length = l.length - 2 := by
  simp [interior]; omega

theorem interior_ne_nil {α} {l : List α} (h : 3 ≤ l.length) : interior l ≠ [] := by
  intro hn
  have := interior_length l
  rw [hn] at this
  simp at this
  omega

end Knee

import Knee.Model.PipelineCfgM
import Knee.Lemmas.Bridge
import Knee.Lemmas.BridgeDetect
import Knee.Props.C08F
/-!
Bridging lemma for the whole configurable pipeline: the monadic twin `pipelineCfgM`
(`Knee/Model/PipelineCfgM.lean`), run at `Id` with the tabulations of the pure oracles, IS the pure
model `pipelineCfg` (`Knee/Model/PipelineCfg.lean`).

The twin asks whole tables (`hts len`, `ious ks`, per-cluster rows, `hOrig n`, `wide nseg`,
`npts nseg`) and looks the answers up with defaults (`getD 0`, `getD 1`, `getD []`).  The pure model
evaluates functions.  The two agree because every stage consults its oracle only at arguments that
are covered by the table: this file proves the corresponding congruence lemmas
(`worstFilter_congr`, `cornerFilter_congr`, `clusterFilter_congr`, `clusterFilterHull_congr`,
`clusterFilterCorners_congr`, `addEven_congr`) and the table look-up lemmas, then composes them.
-/
namespace Knee

/-! ### the tabulating instantiation of the monadic oracles -/

def SimpOracles.toM (o : SimpOracles) : SimpOraclesM Id :=
  ⟨fun l r => pure (o.cst l r), fun l r => pure (o.dst l r), fun l r i => pure (o.key l r i),
    fun red => pure (o.gcs red)⟩

def ClusterMode.toM : ClusterMode → ClusterModeM Id
  | .rank score => .rank (fun g => pure (score g))
  | .hull hl herr => .hull (pure hl) (fun g => pure (g.map (herr g)))
  | .corners area => .corners (fun g => pure (area g))

def Final.toM : Final → FinalM Id
  | .map => .map
  | .addEven hOrig wide npts ext =>
    .addEven (fun n => pure ((List.range n).map hOrig))
      (fun k => pure ((List.range k).map fun i => if wide i then 1 else 0))
      (fun k => pure ((List.range k).map npts)) ext

/-! ### stage 1: the simplifiers -/

theorem acceptM_id (isR2 : Bool) (t : Rat) (gcs : List Nat → Rat) :
    acceptM (m := Id) isR2 t (fun red => pure (gcs red)) = fun red => pure (acceptOf isR2 t gcs red) := by
  funext red
  simp only [acceptM, acceptOf, pure_bind]

/-- **Bridge, simplifier stage.** All five simplifiers: the monadic twin at `Id` is `simplify`. -/
theorem simplifyM_id (s : Simplifier) (o : SimpOracles) (n : Nat) :
    simplifyM (m := Id) s o.toM n = pure (simplify s o n) := by
  cases s with
  | rdp isR2 t => exact rdpM_id isR2 t o.cst o.dst n
  | grdp isR2 t =>
    simp only [simplifyM, SimpOracles.toM, acceptM_id, grdpLoopM_id, pure_bind, simplify, grdp]
  | fixed k =>
    simp only [simplifyM, SimpOracles.toM, fixedLoopM_id, pure_bind, simplify, rdpFixed]
  | mpGrdp isR2 t mp =>
    simp only [simplifyM, SimpOracles.toM, acceptM_id, mpGrdpM_id, pure_bind, simplify]
  | minPoint isR2 mp ts =>
    simp only [simplifyM, SimpOracles.toM, acceptM_id, minPointRdpM_id, pure_bind, simplify]

/-! ### table look-ups -/

theorem getD_range_map {α : Type} (f : Nat → α) (d : α) {n i : Nat} (hi : i < n) :
    ((List.range n).map f)[i]?.getD d = f i := by
  simp [hi]

/-- looking a key up in the table `l.zip (l.map f)` returns `f` of the key -/
theorem find_zip_map {α β : Type} [BEq α] [LawfulBEq α] (f : α → β) :
    ∀ (l : List α) (k : α), k ∈ l →
      ((l.zip (l.map f)).find? fun p => p.1 == k) = some (k, f k) := by
  intro l
  induction l with
  | nil => intro k hk; simp at hk
  | cons a t ih =>
    intro k hk
    simp only [List.map_cons, List.zip_cons_cons, List.find?_cons]
    by_cases hak : a = k
    · subst hak; simp
    · have : (a == k) = false := by simpa using hak
      simp only [this]
      rcases List.mem_cons.1 hk with rfl | hk
      · exact absurd rfl hak
      · exact ih k hk

theorem rowOf_zip_map (f : List Nat → List Rat) (gs : List (List Nat)) (c : List Nat) (hc : c ∈ gs) :
    rowOf (gs.zip (gs.map f)) c = f c := by
  simp only [rowOf, find_zip_map f gs c hc, Option.map_some, Option.getD_some]

theorem herrOf_zip_map (f : List Nat → List Rat) (herr : List Nat → Nat → Rat) (gs : List (List Nat))
    (c : List Nat) (hc : c ∈ gs) (hf : f c = c.map (herr c)) (j : Nat) (hj : j ∈ c) :
    herrOf (gs.zip (gs.map f)) c j = herr c j := by
  simp only [herrOf, rowOf_zip_map f gs c hc, hf, find_zip_map (herr c) c j hj, Option.map_some,
    Option.getD_some]

/-! ### congruence: each stage consults its oracle only on its input -/

theorem worstGo_congr {h h' : Nat → Rat} : ∀ (ks : List Nat) (m : Rat), (∀ k ∈ ks, h k = h' k) →
    worstGo h m ks = worstGo h' m ks := by
  intro ks
  induction ks with
  | nil => intros; rfl
  | cons k ks ih =>
    intro m hk
    have h1 := hk k List.mem_cons_self
    have h2 : ∀ k ∈ ks, h k = h' k := fun x hx => hk x (List.mem_cons_of_mem _ hx)
    simp only [worstGo, h1, ih _ h2]

theorem worstFilter_congr {h h' : Nat → Rat} (ks : List Nat) (hk : ∀ k ∈ ks, h k = h' k) :
    worstFilter h ks = worstFilter h' ks := by
  cases ks with
  | nil => rfl
  | cons k ks =>
    simp only [worstFilter, hk k List.mem_cons_self,
      worstGo_congr ks _ (fun x hx => hk x (List.mem_cons_of_mem _ hx))]

theorem cornerFilter_congr (n : Nat) {iou iou' : Nat → Rat} (t : Rat) (ks : List Nat)
    (hk : ∀ k ∈ ks, iou k = iou' k) : cornerFilter n iou t ks = cornerFilter n iou' t ks := by
  unfold cornerFilter
  apply List.filter_congr
  intro k hkm
  rw [hk k hkm]

theorem filterMap_congr' {α β : Type} {f g : α → Option β} : ∀ (l : List α), (∀ a ∈ l, f a = g a) →
    l.filterMap f = l.filterMap g := by
  intro l
  induction l with
  | nil => intro _; rfl
  | cons a t ih =>
    intro h
    simp only [List.filterMap_cons, h a List.mem_cons_self,
      ih (fun x hx => h x (List.mem_cons_of_mem _ hx))]

theorem flatMap_congr' {α β : Type} {f g : α → List β} : ∀ (l : List α), (∀ a ∈ l, f a = g a) →
    l.flatMap f = l.flatMap g := by
  intro l
  induction l with
  | nil => intro _; rfl
  | cons a t ih =>
    intro h
    simp only [List.flatMap_cons, h a List.mem_cons_self,
      ih (fun x hx => h x (List.mem_cons_of_mem _ hx))]

theorem clusterFilter_congr {score score' : List Nat → List Rat} (labels knees : List Nat)
    (h : ∀ c ∈ groupByLabels labels knees, 1 < c.length → score c = score' c) :
    clusterFilter score labels knees = clusterFilter score' labels knees := by
  unfold clusterFilter
  split
  · rfl
  · apply filterMap_congr'
    intro c hc
    split
    · rename_i hl; rw [h c hc hl]
    · rfl

theorem hullScores_congr {herr herr' : List Nat → Nat → Rat} (hw c : List Nat)
    (h : ∀ j ∈ c, herr c j = herr' c j) : hullScores hw herr c = hullScores hw herr' c := by
  unfold hullScores
  have : (c.map fun j => if j ∈ hw then herr c j else (-1 : Rat))
      = c.map fun j => if j ∈ hw then herr' c j else (-1 : Rat) := by
    apply List.map_congr_left
    intro j hj
    rw [h j hj]
  simp only [this]

theorem clusterFilterHull_congr (hull : List Nat) {herr herr' : List Nat → Nat → Rat}
    (labels knees : List Nat)
    (h : ∀ c ∈ groupByLabels labels knees, 1 < c.length → ∀ j ∈ c, herr c j = herr' c j) :
    clusterFilterHull hull herr labels knees = clusterFilterHull hull herr' labels knees := by
  unfold clusterFilterHull
  split
  · rfl
  · apply filterMap_congr'
    intro c hc
    split
    · rename_i hl
      simp only [hullScores_congr _ c (h c hc hl)]
    · rfl

theorem clusterFilterCorners_congr {area area' : List Nat → List Rat} (labels knees : List Nat)
    (h : ∀ c ∈ groupByLabels labels knees, area c = area' c) :
    clusterFilterCorners area labels knees = clusterFilterCorners area' labels knees := by
  unfold clusterFilterCorners
  apply filterMap_congr'
  intro c hc
  rw [h c hc]

/-! ### stage 2: the cluster filters -/

theorem mapM_id_guard {β : Type} (f : List Nat → β) (d : β) (gs : List (List Nat)) :
    (gs.mapM (m := Id) fun g => if g.length > 1 then pure (f g) else pure d)
      = pure (gs.map fun g => if g.length > 1 then f g else d) := by
  have : (fun g : List Nat => if g.length > 1 then (pure (f g) : Id β) else pure d)
      = fun g => pure (if g.length > 1 then f g else d) := by
    funext g; split <;> rfl
  rw [this, List.mapM_pure]

/-- **Bridge, cluster stage.** All three cluster filters: the monadic twin at `Id`, fed with the
per-cluster rows of the pure oracles, is `clusterStage` (no hypothesis on `labels`). -/
theorem clusterStageM_id (cm : ClusterMode) (labels knees : List Nat) :
    clusterStageM (m := Id) cm.toM labels knees = pure (clusterStage cm labels knees) := by
  cases cm with
  | rank score =>
    simp only [clusterStageM, ClusterMode.toM, mapM_id_guard, pure_bind, clusterStage]
    congr 1
    apply clusterFilter_congr
    intro c hc hl
    rw [rowOf_zip_map _ _ c hc]
    simp only [gt_iff_lt, hl, if_true]
  | hull hl herr =>
    simp only [clusterStageM, ClusterMode.toM, mapM_id_guard, pure_bind, clusterStage]
    congr 1
    apply clusterFilterHull_congr
    intro c hc hlen j hj
    exact herrOf_zip_map _ herr _ c hc (by simp only [gt_iff_lt, hlen, if_true]) j hj
  | corners area =>
    simp only [clusterStageM, ClusterMode.toM, List.mapM_pure, pure_bind, clusterStage]
    congr 1
    apply clusterFilterCorners_congr
    intro c hc
    exact rowOf_zip_map _ _ c hc

/-! ### the label shortcut of the twin -/

/-- On at most one knee the cluster stage does not depend on the labels (as long as there is one
label per knee): the twin's all-zero labels and the pure model's `labelsOf c` give the same result.
(`rank`/`hull`: the filter returns its input when `len(knees) ≤ 1`; `corners`: a single knee forms a
single group whatever its label.) -/
theorem clusterStage_small (cm : ClusterMode) (c labels labels' : List Nat) (hc : c.length ≤ 1)
    (hl : labels.length = c.length) (hl' : labels'.length = c.length) :
    clusterStage cm labels c = clusterStage cm labels' c := by
  match c, labels, labels', hc, hl, hl' with
  | [], [], [], _, _, _ => rfl
  | [k], [l], [l'], _, _, _ =>
    cases cm with
    | rank score => simp [clusterStage, clusterFilter]
    | hull hl herr => simp [clusterStage, clusterFilterHull]
    | corners area => simp [clusterStage, clusterFilterCorners, groupByLabels, groupGo]

/-! ### `add_points_even` consults its oracles only on the segments / valid indices -/

/-- every candidate of `add_points_even` (before the final worst-knee filter) is a valid index -/
theorem addEven_cands_valid (n : Nat) (reduced knees : List Nat) (wide : Nat → Bool)
    (npts : Nat → Nat) (extremes : Bool)
    (hred : reduced.Pairwise (· < ·)) (h0 : reduced[0]? = some 0)
    (hrb : ∀ r ∈ reduced, r < n) (hkb : ∀ k ∈ knees, k < reduced.length) :
    ∀ x ∈ (knees.map (fun k => reduced[k]?.getD 0) ++
        (((List.range (reduced.length - 1)).filter wide).flatMap fun i =>
          evenInsert (reduced[i]?.getD 0) (reduced[i + 1]?.getD 0) (npts i))
        ++ (if extremes then [0, n - 1] else [])), x < n := by
  intro x hx'
  have hlen : 0 < reduced.length := by
    cases reduced with
    | nil => simp at h0
    | cons _ _ => simp
  have hn : 0 < n := by
    have : (0 : Nat) ∈ reduced := by
      have := getD_mem reduced hlen
      rwa [h0] at this
    exact Nat.lt_of_le_of_lt (Nat.zero_le _) (hrb 0 this)
  rcases List.mem_append.1 hx' with hx' | hx'
  · rcases List.mem_append.1 hx' with hx' | hx'
    · rcases List.mem_map.1 hx' with ⟨k, hk, rfl⟩
      exact hrb _ (getD_mem reduced (hkb k hk))
    · rcases List.mem_flatMap.1 hx' with ⟨i, hi, hxi⟩
      rw [List.mem_filter, List.mem_range] at hi
      have hi1 : i + 1 < reduced.length := by omega
      have hle : reduced[i]?.getD 0 ≤ reduced[i + 1]?.getD 0 :=
        strict_getD_le reduced hred (Nat.le_succ i) hi1
      have hr := hrb _ (getD_mem reduced hi1)
      have := evenInsert_le hle hxi
      omega
  · cases extremes with
    | false => simp at hx'
    | true =>
      simp only [if_true, List.mem_cons, List.not_mem_nil, or_false] at hx'
      omega

/-- `add_points_even` (with the simplifier's own removed table) depends on `wide` and `npts` only
at the segment numbers `< len(reduced) - 1` and on the heights only at valid indices `< n`.
No positivity of `npts` is needed. -/
theorem addEven_congr {h h' : Nat → Rat} (n : Nat) (reduced knees : List Nat)
    {wide wide' : Nat → Bool} {npts npts' : Nat → Nat} (extremes : Bool)
    (hred : reduced.Pairwise (· < ·)) (h0 : reduced[0]? = some 0)
    (hrb : ∀ r ∈ reduced, r < n) (hkn : knees.Pairwise (· ≤ ·))
    (hkb : ∀ k ∈ knees, k < reduced.length)
    (hh : ∀ i, i < n → h i = h' i)
    (hwd : ∀ i, i < reduced.length - 1 → wide i = wide' i)
    (hnp : ∀ i, i < reduced.length - 1 → npts i = npts' i) :
    addEven h n reduced (computeRemoved reduced) knees wide npts extremes
      = addEven h' n reduced (computeRemoved reduced) knees wide' npts' extremes := by
  rw [addEven_eq h n reduced knees wide npts extremes hred h0 hkn hkb,
    addEven_eq h' n reduced knees wide' npts' extremes hred h0 hkn hkb]
  have hf : (List.range (reduced.length - 1)).filter wide
      = (List.range (reduced.length - 1)).filter wide' :=
    List.filter_congr fun i hi => hwd i (List.mem_range.1 hi)
  have hfm : (((List.range (reduced.length - 1)).filter wide).flatMap fun i =>
        evenInsert (reduced[i]?.getD 0) (reduced[i + 1]?.getD 0) (npts i))
      = (((List.range (reduced.length - 1)).filter wide').flatMap fun i =>
        evenInsert (reduced[i]?.getD 0) (reduced[i + 1]?.getD 0) (npts' i)) := by
    rw [← hf]
    apply flatMap_congr'
    intro i hi
    rw [List.mem_filter, List.mem_range] at hi
    rw [hnp i hi.1]
  rw [hfm]
  apply worstFilter_congr
  intro x hx
  exact hh x (addEven_cands_valid n reduced knees wide' npts' extremes hred h0 hrb hkb x
    (mem_dedupSort.1 hx))

/-! ### stages 3 and 4: the whole pipeline -/

/-- **Bridge, whole pipeline (`pure` form).** For every simplifier, detector, gate, cluster filter
and final stage, the monadic twin run at `Id` with the tabulated oracles returns exactly the value
of the pure model.  Hypotheses: exactly those of `pipelineCfg_end_to_end`.  They are needed because
the tables have finitely many entries: `multi_knee`'s positions must be `< len(reduced)` for the
height table `hts len` to cover them (`hdet`, via `multiKnee_sorted_range_large`), `reduced` must be
a strictly increasing index list ending at `n - 1` for `add_points_even`'s candidates to be `< n`
(`hn`, `hs`, `hd`, via `simplify_wf`), and `hl` makes the twin's all-zero labels on `≤ 1` knees
equivalent to `labelsOf` (`clusterStage_small`).  No hypothesis on `npts` (neither `0 < npts i`
nor anything about the default `getD 1`) and none on `labelsOf` beyond `hl` is needed. -/
theorem pipelineCfgM_id_pure (s : Simplifier) (o : SimpOracles) (n : Nat)
    (det : Nat → Nat → Option Nat) (gate : Nat → Nat → Bool) (t2 : Nat)
    (h : Nat → Rat) (iou : Nat → Rat) (tc : Rat) (labelsOf : List Nat → List Nat)
    (cm : ClusterMode) (fin : Final)
    (hn : 2 ≤ n) (hs : SimpDomain s) (hd : ∀ l r, (o.dst l r).length = r - l)
    (hdet : DetOKLarge t2 det) (hl : ∀ ks, (labelsOf ks).length = ks.length) :
    pipelineCfgM (m := Id) s o.toM n (fun _ => pure ()) (fun l r => pure (det l r))
        (fun l r => pure (gate l r)) t2 (fun len => pure ((List.range len).map h))
        (fun ks => pure (ks.map iou)) tc (fun ks => pure (labelsOf ks)) cm.toM fin.toM
      = pure (pipelineCfg s o n det gate t2 h iou tc labelsOf cm fin) := by
  obtain ⟨reduced, removed, hsimp, hpw, h0, hlast, hrem, _⟩ := simplify_wf s o n hn hs hd
  have hlen : 1 ≤ reduced.length := by
    cases reduced with
    | nil => simp at h0
    | cons _ _ => simp
  obtain ⟨knees, hmk, hkpw, hkb⟩ :=
    multiKnee_sorted_range_large (gate := gate) (n := reduced.length) hdet hlen
  have hkb' : ∀ k ∈ knees, k < reduced.length := fun k hk => by have := hkb k hk; omega
  have hrb : ∀ r ∈ reduced, r < n := fun r hr => by
    have := le_getLast_of_pairwise hpw hlast r hr
    omega
  subst hrem
  -- the three table-driven filters agree with the pure ones
  have hw : worstFilter (fun k => ((List.range reduced.length).map h)[k]?.getD 0) knees
      = worstFilter h knees :=
    worstFilter_congr knees fun k hk => getD_range_map h 0 (hkb' k hk)
  have hc : ∀ w : List Nat,
      cornerFilter reduced.length
        (fun k => (((w.zip (w.map iou)).find? fun p => p.1 == k).map (·.2)).getD 0) tc w
      = cornerFilter reduced.length iou tc w := by
    intro w
    apply cornerFilter_congr
    intro k hk
    simp only [find_zip_map iou w k hk, Option.map_some, Option.getD_some]
  have hc0 : ∀ w : List Nat, w.isEmpty = true →
      cornerFilter reduced.length
        (fun k => (((w.zip ([] : List Rat)).find? fun p => p.1 == k).map (·.2)).getD 0) tc w
      = cornerFilter reduced.length iou tc w := by
    intro w hw
    cases w with
    | nil => rfl
    | cons _ _ => simp at hw
  have hk0 : ∀ c : List Nat, c.length ≤ 1 →
      clusterStage cm (c.map fun _ => 0) c = clusterStage cm (labelsOf c) c :=
    fun c hc1 => clusterStage_small cm c _ _ hc1 (by simp) (hl c)
  have hksub : (clusterStage cm (labelsOf (cornerFilter reduced.length iou tc (worstFilter h knees)))
      (cornerFilter reduced.length iou tc (worstFilter h knees))).Sublist knees :=
    ((clusterStage_sublist cm _ _ (hl _)).trans (corner_filter_sublist _ _ _ _)).trans
      (worst_sublist h knees)
  cases fin with
  | map =>
    simp only [pipelineCfgM, simplifyM_id, pure_bind, hsimp, multiKneeM_id, hmk,
      clusterStageM_id, Final.toM, pipelineCfg, hw]
    split
    · rename_i he
      simp only [hc0 _ he]
      split
      · rename_i h1; simp only [hk0 _ h1]
      · rfl
    · simp only [hc]
      split
      · rename_i h1; simp only [hk0 _ h1]
      · rfl
  | addEven hOrig wide npts ext =>
    have hae : addEven (fun i => ((List.range n).map hOrig)[i]?.getD 0) n reduced
          (computeRemoved reduced)
          (clusterStage cm (labelsOf (cornerFilter reduced.length iou tc (worstFilter h knees)))
            (cornerFilter reduced.length iou tc (worstFilter h knees)))
          (fun i => ((List.range (reduced.length - 1)).map
            fun i => if wide i = true then 1 else 0)[i]?.getD 0 == 1)
          (fun i => ((List.range (reduced.length - 1)).map npts)[i]?.getD 1) ext
        = addEven hOrig n reduced (computeRemoved reduced)
          (clusterStage cm (labelsOf (cornerFilter reduced.length iou tc (worstFilter h knees)))
            (cornerFilter reduced.length iou tc (worstFilter h knees))) wide npts ext := by
      apply addEven_congr n reduced _ ext hpw h0 hrb (strict_to_le (hkpw.sublist hksub))
        (fun k hk => hkb' k (hksub.subset hk))
      · intro i hi; exact getD_range_map hOrig 0 hi
      · intro i hi
        rw [getD_range_map _ 0 hi]
        cases wide i <;> rfl
      · intro i hi; exact getD_range_map npts 1 hi
    simp only [pipelineCfgM, simplifyM_id, pure_bind, hsimp, multiKneeM_id, hmk,
      clusterStageM_id, Final.toM, pipelineCfg, hw]
    split
    · rename_i he
      simp only [hc0 _ he]
      split
      · rename_i h1; simp only [hk0 _ h1, hae]
      · simp only [hae]
    · simp only [hc]
      split
      · rename_i h1; simp only [hk0 _ h1, hae]
      · simp only [hae]

/-- **Bridge, whole pipeline.** `pipelineCfgM` at `Id`, with every oracle the tabulation of the
corresponding pure oracle, IS `pipelineCfg` (all five simplifiers, all three cluster modes, both
final stages). -/
theorem pipelineCfgM_id (s : Simplifier) (o : SimpOracles) (n : Nat)
    (det : Nat → Nat → Option Nat) (gate : Nat → Nat → Bool) (t2 : Nat)
    (h : Nat → Rat) (iou : Nat → Rat) (tc : Rat) (labelsOf : List Nat → List Nat)
    (cm : ClusterMode) (fin : Final)
    (hn : 2 ≤ n) (hs : SimpDomain s) (hd : ∀ l r, (o.dst l r).length = r - l)
    (hdet : DetOKLarge t2 det) (hl : ∀ ks, (labelsOf ks).length = ks.length) :
    (pipelineCfgM (m := Id) s o.toM n (fun _ => pure ()) (fun l r => pure (det l r))
        (fun l r => pure (gate l r)) t2 (fun len => pure ((List.range len).map h))
        (fun ks => pure (ks.map iou)) tc (fun ks => pure (labelsOf ks)) cm.toM fin.toM).run
      = pipelineCfg s o n det gate t2 h iou tc labelsOf cm fin := by
  rw [pipelineCfgM_id_pure s o n det gate t2 h iou tc labelsOf cm fin hn hs hd hdet hl, Id.run_pure]

end Knee

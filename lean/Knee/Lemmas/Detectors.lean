import Knee.Model.Detectors
import Knee.Lemmas.Argmax
/-! Helper lemmas for the single-knee detectors (`Knee/Model/Detectors.lean`). Core tactics only. -/
namespace Knee

/-! ## interior argmax / argmin -/

theorem interior_argmax_range {d : List Rat} (h : 3 ≤ d.length) :
    argmaxIdx (interior d) + 3 ≤ d.length := by
  have hlen := interior_length d
  have hlt := argmaxIdx_lt_length (interior_ne_nil h)
  omega

theorem interior_argmin_range {d : List Rat} (h : 3 ≤ d.length) :
    argminIdx (interior d) + 3 ≤ d.length := by
  have hlen := interior_length d
  have hlt := argminIdx_lt_length (interior_ne_nil h)
  omega

theorem interior_argmax_ge {d : List Rat} (h : 3 ≤ d.length) (j : Nat) (h1 : 1 ≤ j)
    (h2 : j + 1 < d.length) : d[j]?.getD 0 ≤ d[1 + argmaxIdx (interior d)]?.getD 0 := by
  have hlen := interior_length d
  have hr := interior_argmax_range h
  have hge := argmaxIdx_ge (l := interior d) (j - 1) (by omega)
  rw [interior_getD d (j - 1) (by omega), interior_getD d _ (by omega)] at hge
  have e1 : j - 1 + 1 = j := by omega
  have e2 : argmaxIdx (interior d) + 1 = 1 + argmaxIdx (interior d) := by omega
  rw [e1, e2] at hge
  exact hge

theorem interior_argmax_first {d : List Rat} (h : 3 ≤ d.length) (j : Nat) (h1 : 1 ≤ j)
    (h2 : j < 1 + argmaxIdx (interior d)) :
    d[j]?.getD 0 < d[1 + argmaxIdx (interior d)]?.getD 0 := by
  have hlen := interior_length d
  have hr := interior_argmax_range h
  have hge := argmaxIdx_first (l := interior d) (j - 1) (by omega)
  rw [interior_getD d (j - 1) (by omega), interior_getD d _ (by omega)] at hge
  have e1 : j - 1 + 1 = j := by omega
  have e2 : argmaxIdx (interior d) + 1 = 1 + argmaxIdx (interior d) := by omega
  rw [e1, e2] at hge
  exact hge

theorem interior_argmin_le {d : List Rat} (h : 3 ≤ d.length) (j : Nat) (h1 : 1 ≤ j)
    (h2 : j + 1 < d.length) : d[1 + argminIdx (interior d)]?.getD 0 ≤ d[j]?.getD 0 := by
  have hlen := interior_length d
  have hr := interior_argmin_range h
  have hge := argminIdx_le (l := interior d) (j - 1) (by omega)
  rw [interior_getD d (j - 1) (by omega), interior_getD d _ (by omega)] at hge
  have e1 : j - 1 + 1 = j := by omega
  have e2 : argminIdx (interior d) + 1 = 1 + argminIdx (interior d) := by omega
  rw [e1, e2] at hge
  exact hge

theorem interior_argmin_first {d : List Rat} (h : 3 ≤ d.length) (j : Nat) (h1 : 1 ≤ j)
    (h2 : j < 1 + argminIdx (interior d)) :
    d[1 + argminIdx (interior d)]?.getD 0 < d[j]?.getD 0 := by
  have hlen := interior_length d
  have hr := interior_argmin_range h
  have hge := argminIdx_first (l := interior d) (j - 1) (by omega)
  rw [interior_getD d (j - 1) (by omega), interior_getD d _ (by omega)] at hge
  have e1 : j - 1 + 1 = j := by omega
  have e2 : argminIdx (interior d) + 1 = 1 + argminIdx (interior d) := by omega
  rw [e1, e2] at hge
  exact hge

/-! ## Menger: the zero-padded array -/

theorem padded_length (cs : List Rat) : ((0 : Rat) :: cs ++ [0]).length = cs.length + 2 := by
  simp

theorem padded_zero (cs : List Rat) : ((0 : Rat) :: cs ++ [0])[0]?.getD 0 = 0 := by
  simp

theorem padded_last (cs : List Rat) : ((0 : Rat) :: cs ++ [0])[cs.length + 1]?.getD 0 = 0 := by
  simp

theorem padded_succ (cs : List Rat) (j : Nat) (hj : j < cs.length) :
    ((0 : Rat) :: cs ++ [0])[j + 1]?.getD 0 = cs[j]?.getD 0 := by
  simp [List.getElem?_append_left hj]

theorem mengerKnee_lt (cs : List Rat) : mengerKnee cs < cs.length + 2 := by
  have := argmaxIdx_lt_length (l := (0 : Rat) :: cs ++ [0]) (by simp)
  rw [padded_length] at this
  exact this

theorem mengerKnee_le (cs : List Rat) : mengerKnee cs ≤ cs.length := by
  have hlt := mengerKnee_lt cs
  by_cases hlast : mengerKnee cs = cs.length + 1
  · have hf := argmaxIdx_first (l := (0 : Rat) :: cs ++ [0]) 0
      (by unfold mengerKnee at hlast; omega)
    unfold mengerKnee at hlast
    rw [hlast, padded_zero, padded_last] at hf
    grind
  · omega

/-! ## DFDT loop -/

theorem dfdtInner_add_range {diffs : Nat → List Rat} {n : Nat}
    (hd : ∀ c, (diffs c).length = n - c) (c : Nat) (hc : n - c > 2) :
    c + 1 ≤ dfdtInner (diffs c) + c ∧ dfdtInner (diffs c) + c + 2 ≤ n := by
  have h3 : 3 ≤ (diffs c).length := by rw [hd]; omega
  have := interior_argmin_range h3
  rw [hd] at this
  unfold dfdtInner
  omega

/-- fuel bound of a state: `n - knee` if the loop condition can hold, else `0` -/
def dfdtBound (n : Nat) (last : Int) (knee : Nat) : Nat := if last < (knee : Int) then n - knee else 0

theorem dfdtLoop_stop (diffs : Nat → List Rat) (n f : Nat) (last : Int) (knee cutoff : Nat)
    (h : ¬ (last < (knee : Int) ∧ n - cutoff > 2)) :
    dfdtLoop diffs n (f + 1) last knee cutoff = knee := by
  rw [dfdtLoop, if_neg h]

theorem dfdtLoop_step (diffs : Nat → List Rat) (n f : Nat) (last : Int) (knee cutoff : Nat)
    (h : last < (knee : Int) ∧ n - cutoff > 2) :
    dfdtLoop diffs n (f + 1) last knee cutoff =
      dfdtLoop diffs n f (knee : Int) (dfdtInner (diffs cutoff) + cutoff)
        ((dfdtInner (diffs cutoff) + cutoff + 1) / 2) := by
  rw [dfdtLoop, if_pos h]

theorem dfdtRounds_stop (diffs : Nat → List Rat) (n f : Nat) (last : Int) (knee cutoff : Nat)
    (h : ¬ (last < (knee : Int) ∧ n - cutoff > 2)) :
    dfdtRounds diffs n (f + 1) last knee cutoff = 0 := by
  rw [dfdtRounds, if_neg h]

theorem dfdtRounds_step (diffs : Nat → List Rat) (n f : Nat) (last : Int) (knee cutoff : Nat)
    (h : last < (knee : Int) ∧ n - cutoff > 2) :
    dfdtRounds diffs n (f + 1) last knee cutoff =
      1 + dfdtRounds diffs n f (knee : Int) (dfdtInner (diffs cutoff) + cutoff)
        ((dfdtInner (diffs cutoff) + cutoff + 1) / 2) := by
  rw [dfdtRounds, if_pos h]

theorem dfdtBound_step {diffs : Nat → List Rat} {n : Nat} (hd : ∀ c, (diffs c).length = n - c)
    (last : Int) (knee cutoff : Nat) (hk : knee + 2 ≤ n)
    (h : last < (knee : Int) ∧ n - cutoff > 2) :
    dfdtBound n (knee : Int) (dfdtInner (diffs cutoff) + cutoff) + 1 ≤ dfdtBound n last knee := by
  have := dfdtInner_add_range hd cutoff h.2
  unfold dfdtBound
  rw [if_pos h.1]
  split <;> omega

theorem dfdtRounds_le_bound {diffs : Nat → List Rat} {n : Nat} (hd : ∀ c, (diffs c).length = n - c) :
    ∀ (f : Nat) (last : Int) (knee cutoff : Nat), knee + 2 ≤ n →
      dfdtRounds diffs n f last knee cutoff ≤ dfdtBound n last knee := by
  intro f
  induction f with
  | zero => intro last knee cutoff _; simp [dfdtRounds]
  | succ f ih =>
    intro last knee cutoff hk
    by_cases h : last < (knee : Int) ∧ n - cutoff > 2
    · rw [dfdtRounds_step _ _ _ _ _ _ h]
      have hb := dfdtBound_step hd last knee cutoff hk h
      have hr := dfdtInner_add_range hd cutoff h.2
      have := ih (knee : Int) (dfdtInner (diffs cutoff) + cutoff)
        ((dfdtInner (diffs cutoff) + cutoff + 1) / 2) hr.2
      omega
    · rw [dfdtRounds_stop _ _ _ _ _ _ h]; omega

theorem dfdtLoop_fuel_irrel {diffs : Nat → List Rat} {n : Nat} (hd : ∀ c, (diffs c).length = n - c) :
    ∀ (f1 f2 : Nat) (last : Int) (knee cutoff : Nat), knee + 2 ≤ n →
      dfdtBound n last knee ≤ f1 → dfdtBound n last knee ≤ f2 →
      dfdtLoop diffs n f1 last knee cutoff = dfdtLoop diffs n f2 last knee cutoff := by
  intro f1
  induction f1 with
  | zero =>
    intro f2 last knee cutoff hk h1 h2
    have hnc : ¬ (last < (knee : Int) ∧ n - cutoff > 2) := by
      intro h
      unfold dfdtBound at h1
      rw [if_pos h.1] at h1
      omega
    cases f2 with
    | zero => rfl
    | succ f2 => rw [dfdtLoop_stop _ _ _ _ _ _ hnc]; simp [dfdtLoop]
  | succ f1 ih =>
    intro f2 last knee cutoff hk h1 h2
    by_cases h : last < (knee : Int) ∧ n - cutoff > 2
    · have hb := dfdtBound_step hd last knee cutoff hk h
      have hr := dfdtInner_add_range hd cutoff h.2
      cases f2 with
      | zero => omega
      | succ f2 =>
        rw [dfdtLoop_step _ _ _ _ _ _ h, dfdtLoop_step _ _ _ _ _ _ h]
        exact ih f2 _ _ _ hr.2 (by omega) (by omega)
    · rw [dfdtLoop_stop _ _ _ _ _ _ h]
      cases f2 with
      | zero => simp [dfdtLoop]
      | succ f2 => rw [dfdtLoop_stop _ _ _ _ _ _ h]

/-- "is the value of some executed round" -/
def IsInnerValue (diffs : Nat → List Rat) (n k : Nat) : Prop :=
  ∃ c, n - c > 2 ∧ k = dfdtInner (diffs c) + c

theorem dfdtLoop_isInner (diffs : Nat → List Rat) (n : Nat) :
    ∀ (f : Nat) (last : Int) (knee cutoff : Nat), IsInnerValue diffs n knee →
      IsInnerValue diffs n (dfdtLoop diffs n f last knee cutoff) := by
  intro f
  induction f with
  | zero => intro last knee cutoff hk; simpa [dfdtLoop] using hk
  | succ f ih =>
    intro last knee cutoff hk
    by_cases h : last < (knee : Int) ∧ n - cutoff > 2
    · rw [dfdtLoop_step _ _ _ _ _ _ h]
      exact ih _ _ _ ⟨cutoff, h.2, rfl⟩
    · rw [dfdtLoop_stop _ _ _ _ _ _ h]; exact hk

theorem dfdtKnee_isInner (diffs : Nat → List Rat) (n : Nat) (hn : 3 ≤ n) :
    IsInnerValue diffs n (dfdtKnee diffs n) := by
  unfold dfdtKnee
  have h : (-1 : Int) < ((0 : Nat) : Int) ∧ n - 0 > 2 := by omega
  rw [dfdtLoop_step _ _ _ _ _ _ h]
  exact dfdtLoop_isInner diffs n _ _ _ _ ⟨0, h.2, rfl⟩

/-! ## Kneedle peaks -/

theorem mem_peaksGo : ∀ (l : List Rat) (i p : Nat),
    p ∈ peaksGo i l ↔ ∃ j, p = i + j + 1 ∧ j + 2 < l.length ∧
      l[j]?.getD 0 < l[j + 1]?.getD 0 ∧ l[j + 2]?.getD 0 < l[j + 1]?.getD 0 := by
  intro l
  induction l with
  | nil => intro i p; simp [peaksGo]
  | cons a t ih =>
    intro i p
    match t, ih with
    | [], _ => simp [peaksGo]
    | [b], _ =>
      simp only [peaksGo, List.not_mem_nil, false_iff]
      rintro ⟨j, _, hl, _⟩
      simp at hl
      omega
    | b :: c :: t, ih =>
      have ih' := ih (i + 1) p
      have key : (∃ j, p = i + j + 1 ∧ j + 2 < (a :: b :: c :: t).length ∧
          (a :: b :: c :: t)[j]?.getD 0 < (a :: b :: c :: t)[j + 1]?.getD 0 ∧
          (a :: b :: c :: t)[j + 2]?.getD 0 < (a :: b :: c :: t)[j + 1]?.getD 0) ↔
          ((p = i + 1 ∧ a < b ∧ c < b) ∨ ∃ j, p = i + 1 + j + 1 ∧ j + 2 < (b :: c :: t).length ∧
            (b :: c :: t)[j]?.getD 0 < (b :: c :: t)[j + 1]?.getD 0 ∧
            (b :: c :: t)[j + 2]?.getD 0 < (b :: c :: t)[j + 1]?.getD 0) := by
        constructor
        · rintro ⟨j, hp, hl, h1, h2⟩
          cases j with
          | zero => left; simpa using ⟨hp, h1, h2⟩
          | succ j =>
            right
            refine ⟨j, by omega, by simpa using hl, ?_, ?_⟩
            · simpa using h1
            · simpa using h2
        · rintro (⟨hp, h1, h2⟩ | ⟨j, hp, hl, h1, h2⟩)
          · exact ⟨0, by omega, by simp, by simpa using h1, by simpa using h2⟩
          · refine ⟨j + 1, by omega, by simpa using hl, ?_, ?_⟩
            · simpa using h1
            · simpa using h2
      rw [key, ← ih']
      simp only [peaksGo]
      split
      · rename_i hc
        simp only [List.mem_cons]
        constructor
        · rintro (h | h)
          · exact Or.inl ⟨h, hc⟩
          · exact Or.inr h
        · rintro (h | h)
          · exact Or.inl h.1
          · exact Or.inr h
      · rename_i hc
        constructor
        · intro h; exact Or.inr h
        · rintro (h | h)
          · exact absurd h.2 hc
          · exact h

theorem mem_allPeaks (dd : List Rat) (p : Nat) :
    p ∈ allPeaks dd ↔ 1 ≤ p ∧ p + 1 < dd.length ∧
      dd[p - 1]?.getD 0 < dd[p]?.getD 0 ∧ dd[p + 1]?.getD 0 < dd[p]?.getD 0 := by
  unfold allPeaks
  rw [mem_peaksGo]
  constructor
  · rintro ⟨j, hp, hl, h1, h2⟩
    have e : p = j + 1 := by omega
    subst e
    exact ⟨by omega, by omega, by simpa using h1, h2⟩
  · rintro ⟨hp, hl, h1, h2⟩
    refine ⟨p - 1, by omega, by omega, ?_, ?_⟩
    · have e : p - 1 + 1 = p := by omega
      rw [e]; exact h1
    · have e : p - 1 + 1 = p := by omega
      have e2 : p - 1 + 2 = p + 1 := by omega
      rw [e, e2]; exact h2

theorem map_getD (ps : List Nat) (f : Nat → Rat) (i : Nat) (hi : i < ps.length) :
    (ps.map f)[i]?.getD 0 = f ps[i] := by
  simp [hi]

theorem kneedleKnee_eq_none {dd : List Rat} : kneedleKnee dd = none ↔ allPeaks dd = [] := by
  unfold kneedleKnee
  constructor
  · intro h
    by_cases he : allPeaks dd = []
    · exact he
    · exfalso
      have hne : (allPeaks dd).map (fun p => dd[p]?.getD 0) ≠ [] := by simpa using he
      have hlt := argmaxIdx_lt_length hne
      rw [List.length_map] at hlt
      simp only [List.isEmpty_iff, he, if_false] at h
      rw [List.getElem?_eq_none_iff] at h
      omega
  · intro h
    simp [h]

theorem kneedleKnee_some {dd : List Rat} {k : Nat} (h : kneedleKnee dd = some k) :
    k ∈ allPeaks dd ∧ ∀ p ∈ allPeaks dd, dd[p]?.getD 0 ≤ dd[k]?.getD 0 := by
  unfold kneedleKnee at h
  by_cases he : allPeaks dd = []
  · simp [he] at h
  · simp only [List.isEmpty_iff, he, if_false] at h
    have hne : (allPeaks dd).map (fun p => dd[p]?.getD 0) ≠ [] := by simpa using he
    have hlt := argmaxIdx_lt_length hne
    rw [List.length_map] at hlt
    rw [List.getElem?_eq_some_iff] at h
    obtain ⟨hlt', hk⟩ := h
    refine ⟨by rw [← hk]; exact List.getElem_mem _, ?_⟩
    intro p hp
    obtain ⟨i, hi, hpi⟩ := List.getElem_of_mem hp
    have hge := argmaxIdx_ge (l := (allPeaks dd).map (fun p => dd[p]?.getD 0)) i
      (by rw [List.length_map]; exact hi)
    rw [map_getD _ _ i hi, map_getD _ _ _ hlt, hpi, hk] at hge
    exact hge

/-! ## L-method -/

theorem lmethodScan_bounds {errs : List Rat} {len : Nat} (h : errs.length = len - 4)
    (hl : 5 ≤ len) : 2 ≤ lmethodScan errs ∧ lmethodScan errs + 3 ≤ len := by
  have hne : errs ≠ [] := by
    intro e; rw [e] at h; simp at h; omega
  have := argminIdx_lt_length hne
  unfold lmethodScan
  omega

/-- the knee found on the sub-curve `x[0:cutoff+1]` -/
def lmScanAt (errs : Nat → List Rat) (n cutoff : Nat) : Nat :=
  lmethodScan (errs (min (cutoff + 1) n))

theorem lmScanAt_range {errs : Nat → List Rat} (he : ∀ len, (errs len).length = len - 4)
    {n cutoff : Nat} (hn : 5 ≤ n) (hc : 4 ≤ cutoff) :
    2 ≤ lmScanAt errs n cutoff ∧ lmScanAt errs n cutoff + 3 ≤ n ∧
      lmScanAt errs n cutoff + 2 ≤ cutoff := by
  have := lmethodScan_bounds (he (min (cutoff + 1) n)) (by omega)
  unfold lmScanAt
  omega

theorem lmethodLoop_stop (errs : Nat → List Rat) (mode : Refinement) (n limit f : Nat) (last : Int)
    (cur cutoff : Nat) (done : Bool) (h : ¬ ((cur : Int) ≠ last ∧ done = false)) :
    lmethodLoop errs mode n limit (f + 1) last cur cutoff done = some cur := by
  rw [lmethodLoop, if_neg h]

theorem lmethodLoop_step_none (errs : Nat → List Rat) (n limit f : Nat) (last : Int)
    (cur cutoff : Nat) (h : (cur : Int) ≠ last) :
    lmethodLoop errs .none n limit (f + 1) last cur cutoff false =
      lmethodLoop errs .none n limit f (cur : Int) (lmScanAt errs n cutoff) cutoff true := by
  rw [lmethodLoop, if_pos ⟨h, rfl⟩]
  rfl

theorem lmethodLoop_step_original (errs : Nat → List Rat) (n limit f : Nat) (last : Int)
    (cur cutoff : Nat) (h : (cur : Int) ≠ last) :
    lmethodLoop errs .original n limit (f + 1) last cur cutoff false =
      lmethodLoop errs .original n limit f (cur : Int) (lmScanAt errs n cutoff)
        (max limit (min (lmScanAt errs n cutoff * 2) n))
        (decide (cur ≤ lmScanAt errs n cutoff)) := by
  rw [lmethodLoop, if_pos ⟨h, rfl⟩]
  rfl

theorem lmethodLoop_step_adjusted (errs : Nat → List Rat) (n limit f : Nat) (last : Int)
    (cur cutoff : Nat) (h : (cur : Int) ≠ last) :
    lmethodLoop errs .adjusted n limit (f + 1) last cur cutoff false =
      lmethodLoop errs .adjusted n limit f (cur : Int) (lmScanAt errs n cutoff)
        (max limit ((lmScanAt errs n cutoff + cur) / 2)) false := by
  rw [lmethodLoop, if_pos ⟨h, rfl⟩]
  rfl

/-- the postcondition of the refinement loop -/
def LmOk (n : Nat) (r : Option Nat) : Prop := ∃ k, r = some k ∧ 2 ≤ k ∧ k + 3 ≤ n

theorem lm_original_total {errs : Nat → List Rat} (he : ∀ len, (errs len).length = len - 4)
    {n limit : Nat} (hn : 5 ≤ n) (hl : 4 ≤ limit) :
    ∀ (f : Nat) (last : Int) (cur cutoff : Nat) (done : Bool),
      4 ≤ cutoff → 2 ≤ cur → cur + 3 ≤ n → (if done = true then 0 else cur + 1) < f →
      LmOk n (lmethodLoop errs .original n limit f last cur cutoff done) := by
  intro f
  induction f with
  | zero => intro last cur cutoff done _ _ _ hf; omega
  | succ f ih =>
    intro last cur cutoff done hc h2 h3 hf
    by_cases h : (cur : Int) ≠ last ∧ done = false
    · obtain ⟨hne, hd⟩ := h
      subst hd
      rw [lmethodLoop_step_original _ _ _ _ _ _ _ hne]
      have hr := lmScanAt_range he hn hc
      apply ih _ _ _ _ (by omega) hr.1 hr.2.1
      simp only [Bool.false_eq_true, if_false] at hf
      by_cases hle : cur ≤ lmScanAt errs n cutoff
      · simp only [hle, decide_true, if_true]; omega
      · simp only [hle, decide_false, Bool.false_eq_true, if_false]; omega
    · rw [lmethodLoop_stop _ _ _ _ _ _ _ _ _ h]
      exact ⟨cur, rfl, h2, h3⟩

/-- potential of the `adjusted` loop: `max last cur`, plus one if `cur` is the larger -/
def lmPhi (last cur : Nat) : Nat := if last < cur then cur + 1 else last

theorem lm_adjusted_clamped {errs : Nat → List Rat} (he : ∀ len, (errs len).length = len - 4)
    {n limit : Nat} (hn : 5 ≤ n) (hl : 4 ≤ limit) (f last cur : Nat)
    (hc : cur ≤ limit) (h2 : 2 ≤ cur) (h3 : cur + 3 ≤ n) (hf : 3 ≤ f) :
    LmOk n (lmethodLoop errs .adjusted n limit f (last : Int) cur limit false) := by
  obtain ⟨f, rfl⟩ : ∃ g, f = g + 3 := ⟨f - 3, by omega⟩
  have hr := lmScanAt_range he hn hl
  by_cases h : cur = last
  · rw [lmethodLoop_stop _ _ _ _ _ _ _ _ _ (by omega)]
    exact ⟨cur, rfl, h2, h3⟩
  · rw [lmethodLoop_step_adjusted _ _ _ _ _ _ _ (by omega)]
    have e : max limit ((lmScanAt errs n limit + cur) / 2) = limit := by omega
    rw [e]
    by_cases h' : lmScanAt errs n limit = cur
    · rw [lmethodLoop_stop _ _ _ _ _ _ _ _ _ (by omega)]
      exact ⟨_, rfl, hr.1, hr.2.1⟩
    · rw [lmethodLoop_step_adjusted _ _ _ _ _ _ _ (by omega)]
      rw [lmethodLoop_stop _ _ _ _ _ _ _ _ _ (by omega)]
      exact ⟨_, rfl, hr.1, hr.2.1⟩

theorem lm_adjusted_total {errs : Nat → List Rat} (he : ∀ len, (errs len).length = len - 4)
    {n limit : Nat} (hn : 5 ≤ n) (hl : 4 ≤ limit) :
    ∀ (f last cur cutoff : Nat), 2 ≤ cur → cur + 3 ≤ n → cutoff = max limit ((cur + last) / 2) →
      (lmPhi last cur - limit) + 3 ≤ f →
      LmOk n (lmethodLoop errs .adjusted n limit f (last : Int) cur cutoff false) := by
  intro f
  induction f with
  | zero => intro last cur cutoff _ _ _ hf; omega
  | succ f ih =>
    intro last cur cutoff h2 h3 hcut hf
    by_cases heq : cur = last
    · rw [lmethodLoop_stop _ _ _ _ _ _ _ _ _ (by omega)]
      exact ⟨cur, rfl, h2, h3⟩
    · by_cases hM : cur ≤ limit ∧ last ≤ limit
      · have e : cutoff = limit := by omega
        rw [e]
        exact lm_adjusted_clamped he hn hl (f + 1) last cur hM.1 h2 h3 (by omega)
      · rw [lmethodLoop_step_adjusted _ _ _ _ _ _ _ (by omega)]
        have hr := lmScanAt_range he hn (cutoff := cutoff) (by omega)
        apply ih cur (lmScanAt errs n cutoff) _ hr.1 hr.2.1 rfl
        unfold lmPhi at hf ⊢
        split at hf <;> split <;> omega

end Knee

import Knee.Model.Pipeline
import Knee.Props.C07
import Knee.Props.C12
import Knee.Props.C13
/-!
Lemmas for the post-detection pipeline tail (C08): reading a strictly increasing list at strictly
increasing positions, and a generic well-formedness statement for any last filter stage `pick`
that returns a sublist of its input.
-/
namespace Knee

/-- a strictly increasing list read at two ordered in-range positions -/
theorem strict_getD_lt (s : List Nat) (hs : s.Pairwise (· < ·)) {i j : Nat} (hij : i < j)
    (hj : j < s.length) : s[i]?.getD 0 < s[j]?.getD 0 := by
  have hi : i < s.length := Nat.lt_trans hij hj
  have := (List.pairwise_iff_getElem.1 hs) i j hi hj hij
  simpa [List.getElem?_eq_getElem hi, List.getElem?_eq_getElem hj] using this

theorem strict_getD_le (s : List Nat) (hs : s.Pairwise (· < ·)) {i j : Nat} (hij : i ≤ j)
    (hj : j < s.length) : s[i]?.getD 0 ≤ s[j]?.getD 0 := by
  rcases Nat.lt_or_eq_of_le hij with h | h
  · exact Nat.le_of_lt (strict_getD_lt s hs h hj)
  · subst h; exact Nat.le_refl _

/-- mapping a strictly increasing position list through a strictly increasing list -/
theorem map_getD_strict (s I : List Nat) (hs : s.Pairwise (· < ·)) (hI : I.Pairwise (· < ·))
    (hb : ∀ i ∈ I, i < s.length) : (I.map (fun i => s[i]?.getD 0)).Pairwise (· < ·) := by
  rw [List.pairwise_map]
  induction I with
  | nil => exact List.Pairwise.nil
  | cons a t ih =>
    rw [List.pairwise_cons] at hI ⊢
    refine ⟨fun b hbm => ?_, ih hI.2 (fun i hi => hb i (List.mem_cons_of_mem _ hi))⟩
    exact strict_getD_lt s hs (hI.1 b hbm) (hb b (List.mem_cons_of_mem _ hbm))

/-- mapping an ascending position list through a strictly increasing list -/
theorem map_getD_mono (s I : List Nat) (hs : s.Pairwise (· < ·)) (hI : I.Pairwise (· ≤ ·))
    (hb : ∀ i ∈ I, i < s.length) : (I.map (fun i => s[i]?.getD 0)).Pairwise (· ≤ ·) := by
  rw [List.pairwise_map]
  induction I with
  | nil => exact List.Pairwise.nil
  | cons a t ih =>
    rw [List.pairwise_cons] at hI ⊢
    refine ⟨fun b hbm => ?_, ih hI.2 (fun i hi => hb i (List.mem_cons_of_mem _ hi))⟩
    exact strict_getD_le s hs (hI.1 b hbm) (hb b (List.mem_cons_of_mem _ hbm))

theorem getD_mem (s : List Nat) {i : Nat} (hi : i < s.length) : s[i]?.getD 0 ∈ s := by
  simp [List.getElem?_eq_getElem hi]

theorem strict_to_le {l : List Nat} (h : l.Pairwise (· < ·)) : l.Pairwise (· ≤ ·) :=
  h.imp (fun hab => Nat.le_of_lt hab)

/-- Generic tail: worst filter → corner filter → any sublist-returning `pick` → mapping. -/
theorem tail_generic (h : Nat → Rat) (m : Nat) (iou : Nat → Rat) (tc : Rat)
    (pick : List Nat → List Nat) (hpick : ∀ c, (pick c).Sublist c)
    (reduced knees : List Nat)
    (hred : reduced.Pairwise (· < ·)) (h0 : reduced[0]? = some 0)
    (hk : knees.Pairwise (· < ·)) (hkb : ∀ k ∈ knees, k < reduced.length) :
    let w := worstFilter h knees
    let c := cornerFilter m iou tc w
    let k := pick c
    let mp := mapping k reduced (computeRemoved reduced) true
    (w.Sublist knees ∧ c.Sublist w ∧ k.Sublist c) ∧
    (w.Pairwise (fun a b => h b ≤ h a) ∧ c.Pairwise (fun a b => h b ≤ h a) ∧
      k.Pairwise (fun a b => h b ≤ h a)) ∧
    mp = k.map (fun i => reduced[i]?.getD 0) ∧ mp.Pairwise (· < ·) ∧ (∀ x ∈ mp, x ∈ reduced) ∧
    mp.length = k.length := by
  intro w c k mp
  have hw : w.Sublist knees := worst_sublist h knees
  have hc : c.Sublist w := corner_filter_sublist m iou tc w
  have hkc : k.Sublist c := hpick c
  have hwh : w.Pairwise (fun a b => h b ≤ h a) := worst_heights_nonincreasing h knees
  have hch := worst_of_sublist_heights h c w hc hwh
  have hkh := worst_of_sublist_heights h k c hkc hch
  have hkk : k.Sublist knees := (hkc.trans hc).trans hw
  have hks : k.Pairwise (· < ·) := hk.sublist hkk
  have hkbd : ∀ i ∈ k, i < reduced.length := fun i hi => hkb i (hkk.subset hi)
  have hmp : mp = k.map (fun i => reduced[i]?.getD 0) :=
    mapping_computeRemoved reduced k hred h0 (strict_to_le hks) hkbd
  refine ⟨⟨hw, hc, hkc⟩, ⟨hwh, hch, hkh⟩, hmp, ?_, ?_, ?_⟩
  · rw [hmp]; exact map_getD_strict reduced k hred hks hkbd
  · rw [hmp]; intro x hx
    rcases List.mem_map.1 hx with ⟨i, hi, rfl⟩
    exact getD_mem reduced (hkbd i hi)
  · rw [hmp, List.length_map]

end Knee

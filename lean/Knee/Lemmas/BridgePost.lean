import Knee.Model.PostM
/-! Bridging lemmas for the clustering skeleton and the confusion matrix. -/
namespace Knee

theorem linkGoM_id (dist : Nat → Nat → Rat) (t : Rat) : ∀ (fuel i start label : Nat),
    linkGoM (m := Id) (fun s i => pure (dist s i)) t fuel i start label = pure (linkGo dist t fuel i start label) := by
  intro fuel
  induction fuel with
  | zero => intros; rfl
  | succ f ih =>
    intro i start label
    simp only [linkGoM, linkGo, pure_bind, ih]
    split <;> rfl

theorem linkLabelsM_id (dist : Nat → Nat → Rat) (t : Rat) (n : Nat) :
    linkLabelsM (m := Id) (fun s i => pure (dist s i)) t n = pure (linkLabels dist t n) := by
  unfold linkLabelsM linkLabels
  split
  · rfl
  · simp only [linkGoM_id, pure_bind]

theorem cmGoM_id (d : Nat → Nat → Rat) (t : Rat) (nk : Nat) : ∀ (es : List Nat) (s : Nat × Nat × List Nat),
    cmGoM (m := Id) (fun e => pure ((List.range nk).map (d e))) t es s = pure (cmGo d t nk es s) := by
  intro es
  induction es with
  | nil => intro s; rfl
  | cons e es ih =>
    intro s
    obtain ⟨tp, fn, used⟩ := s
    simp only [cmGoM, cmGo, pure_bind]
    split
    · exact ih _
    · exact ih _

theorem cmM_id (d : Nat → Nat → Rat) (t : Rat) (n nk ne : Nat) :
    cmM (m := Id) (fun e => pure ((List.range nk).map (d e))) t n nk ne = pure (cm d t n nk ne) := by
  simp only [cmM, cm, cmGoM_id, pure_bind]

end Knee

import Knee.Model.Cm
import Knee.Lemmas.Basic
import Mathlib.Data.List.Perm.Subperm
import Mathlib.Tactic.Ring
import Mathlib.Tactic.Linarith
import Mathlib.Tactic.Positivity
import Mathlib.Algebra.Order.Field.Basic
/-! Lemmas about `cmGo`/`cm` (greedy matching invariants) and the score arithmetic. -/
namespace Knee

/-- the row of normalised distances from expected point `e` to each of the `nk` knees -/
theorem cmRow_length (d : Nat → Nat → Rat) (nk e : Nat) :
    ((List.range nk).map (d e)).length = nk := by simp

/-- the nearest knee of a non-empty row is a valid knee position -/
theorem cm_argmin_lt (d : Nat → Nat → Rat) {nk : Nat} (hk : 0 < nk) (e : Nat) :
    argminIdx ((List.range nk).map (d e)) < nk := by
  have h : (List.range nk).map (d e) ≠ [] := by
    intro h
    have := congrArg List.length h
    simp at this
    omega
  simpa using argminIdx_lt_length h

/-- one step of the greedy matching -/
theorem cmGo_cons (d : Nat → Nat → Rat) (t : Rat) (nk e : Nat) (es : List Nat)
    (tp fn : Nat) (used : List Nat) :
    cmGo d t nk (e :: es) (tp, fn, used) =
      if ((List.range nk).map (d e))[argminIdx ((List.range nk).map (d e))]?.getD 0 ≤ t
          ∧ argminIdx ((List.range nk).map (d e)) ∉ used
      then cmGo d t nk es (tp + 1, fn, argminIdx ((List.range nk).map (d e)) :: used)
      else cmGo d t nk es (tp, fn + 1, used) := by
  simp only [cmGo]

/-- every expected point is counted exactly once, as a TP or as an FN -/
theorem cmGo_count (d : Nat → Nat → Rat) (t : Rat) (nk : Nat) :
    ∀ (es : List Nat) (tp fn : Nat) (used : List Nat),
      (cmGo d t nk es (tp, fn, used)).1 + (cmGo d t nk es (tp, fn, used)).2.1
        = tp + fn + es.length := by
  intro es
  induction es with
  | nil => intro tp fn used; simp [cmGo]
  | cons e es ih =>
    intro tp fn used
    rw [cmGo_cons]
    split
    · rw [ih]; simp; omega
    · rw [ih]; simp; omega

/-- the `used` list stays a duplicate-free list of knee positions, and grows by exactly one
entry per TP -/
theorem cmGo_used (d : Nat → Nat → Rat) (t : Rat) {nk : Nat} (hk : 0 < nk) :
    ∀ (es : List Nat) (tp fn : Nat) (used : List Nat),
      used.Nodup → (∀ i ∈ used, i < nk) →
      (cmGo d t nk es (tp, fn, used)).2.2.Nodup
      ∧ (∀ i ∈ (cmGo d t nk es (tp, fn, used)).2.2, i < nk)
      ∧ (cmGo d t nk es (tp, fn, used)).1 + used.length
          = tp + (cmGo d t nk es (tp, fn, used)).2.2.length := by
  intro es
  induction es with
  | nil => intro tp fn used hn hb; simp [cmGo, hn]; exact hb
  | cons e es ih =>
    intro tp fn used hn hb
    rw [cmGo_cons]
    split
    · next h =>
      have := ih (tp + 1) fn (argminIdx ((List.range nk).map (d e)) :: used)
        (List.nodup_cons.mpr ⟨h.2, hn⟩)
        (by
          intro i hi
          rcases List.mem_cons.mp hi with rfl | hi
          · exact cm_argmin_lt d hk e
          · exact hb i hi)
      refine ⟨this.1, this.2.1, ?_⟩
      have h3 := this.2.2
      simp only [List.length_cons] at h3
      omega
    · exact ih tp (fn + 1) used hn hb

/-- pigeonhole: a duplicate-free list of naturals `< nk` has at most `nk` entries -/
theorem nodup_lt_length_le {l : List Nat} {nk : Nat} (hn : l.Nodup) (hb : ∀ i ∈ l, i < nk) :
    l.length ≤ nk := by
  have := hn.length_le_of_subset (l₂ := List.range nk) (fun i hi => List.mem_range.mpr (hb i hi))
  simpa using this

/-- TP never exceeds the number of knees -/
theorem cmGo_tp_le (d : Nat → Nat → Rat) (t : Rat) {nk : Nat} (hk : 0 < nk) (es : List Nat) :
    (cmGo d t nk es (0, 0, [])).1 ≤ nk := by
  have h := cmGo_used d t hk es 0 0 [] List.nodup_nil (by simp)
  have := nodup_lt_length_le h.1 h.2.1
  have h3 := h.2.2
  simp only [List.length_nil] at h3
  omega

/-! ### score arithmetic -/

theorem accuracyQ_nonneg (tp fp fn : Nat) {tn : Int} (h0 : 0 ≤ tn) :
    0 ≤ accuracyQ tp fp fn tn := by
  have : (0 : Rat) ≤ (tn : Rat) := by exact_mod_cast h0
  unfold accuracyQ
  positivity

theorem accuracyQ_le_one (tp fp fn : Nat) {tn : Int} (h0 : 0 ≤ tn) :
    accuracyQ tp fp fn tn ≤ 1 := by
  have : (0 : Rat) ≤ (tn : Rat) := by exact_mod_cast h0
  unfold accuracyQ
  apply div_le_one_of_le₀
  · have : (0 : Rat) ≤ (fp : Rat) := by positivity
    have : (0 : Rat) ≤ (fn : Rat) := by positivity
    linarith
  · positivity

theorem f1Q_nonneg (tp fp fn : Nat) : 0 ≤ f1Q tp fp fn := by
  unfold f1Q
  positivity

theorem f1Q_le_one (tp fp fn : Nat) : f1Q tp fp fn ≤ 1 := by
  unfold f1Q
  apply div_le_one_of_le₀
  · have : (0 : Rat) ≤ (fp : Rat) := by positivity
    have : (0 : Rat) ≤ (fn : Rat) := by positivity
    linarith
  · positivity

/-- `(a d - b c)² ≤ (a+b)(a+c)(d+b)(d+c)` for non-negative integers: the difference is a sum
of non-negative monomials. -/
theorem mcc_core (a b c d : Int) (ha : 0 ≤ a) (hb : 0 ≤ b) (hc : 0 ≤ c) (hd : 0 ≤ d) :
    (a * d - b * c) ^ 2 ≤ (a + b) * (a + c) * (d + b) * (d + c) := by
  have e : (a + b) * (a + c) * (d + b) * (d + c) - (a * d - b * c) ^ 2
      = a * b * c * d * 4 + a * b * c ^ 2 + a * b * d ^ 2 + a * b ^ 2 * c + a * b ^ 2 * d
        + a * c * d ^ 2 + a * c ^ 2 * d + a ^ 2 * b * c + a ^ 2 * b * d + a ^ 2 * c * d
        + b * c * d ^ 2 + b * c ^ 2 * d + b ^ 2 * c * d := by ring
  have : 0 ≤ (a + b) * (a + c) * (d + b) * (d + c) - (a * d - b * c) ^ 2 := by
    rw [e]; positivity
  linarith

end Knee

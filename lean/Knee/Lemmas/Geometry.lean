import Knee.Model.Geometry
import Mathlib.Tactic.Ring
import Mathlib.Tactic.Linarith
import Mathlib.Tactic.Positivity
import Mathlib.Tactic.FieldSimp
import Mathlib.Tactic.LinearCombination
import Mathlib.Algebra.Order.Field.Basic
/-!
Helper lemmas for the exact geometric primitives of `Model/Geometry.lean` and the rectangle
primitives of `Model/Filters.lean`.  Used by `Props/C17.lean`.
-/
namespace Knee

/-! ### basic facts on `normSq`, `rmax`, `rmin`, `rabs` -/

theorem normSq_nonneg (u : P2) : 0 ≤ normSq u := by
  obtain ⟨x, y⟩ := u
  simp only [normSq, dot]
  nlinarith [sq_nonneg x, sq_nonneg y]

theorem normSq_eq_zero {u : P2} (h : normSq u = 0) : u = (0, 0) := by
  obtain ⟨x, y⟩ := u
  simp only [normSq, dot] at h
  have hx : x = 0 := by nlinarith [sq_nonneg x, sq_nonneg y]
  have hy : y = 0 := by nlinarith [sq_nonneg x, sq_nonneg y]
  rw [hx, hy]

theorem normSq_sub_pos {a b : P2} (hab : a ≠ b) : 0 < normSq (sub b a) := by
  rcases lt_or_eq_of_le (normSq_nonneg (sub b a)) with h | h
  · exact h
  · exfalso
    apply hab
    have := normSq_eq_zero h.symm
    obtain ⟨ax, ay⟩ := a
    obtain ⟨bx, by'⟩ := b
    simp only [sub, Prod.mk.injEq] at this ⊢
    constructor <;> linarith [this.1, this.2]

theorem normSq_sub_comm (a b : P2) : normSq (sub a b) = normSq (sub b a) := by
  obtain ⟨ax, ay⟩ := a
  obtain ⟨bx, by'⟩ := b
  simp only [normSq, dot, sub]
  ring

theorem rmax_eq_max (a b : Rat) : rmax a b = max a b := by
  unfold rmax; rw [max_def]

theorem rmin_eq_min (a b : Rat) : rmin a b = min a b := by
  unfold rmin; rw [min_def]

theorem rabs_eq_abs (x : Rat) : rabs x = |x| := by
  unfold rabs
  split_ifs with h
  · exact (abs_of_nonneg h).symm
  · exact (abs_of_neg (not_le.1 h)).symm

/-! ### Lagrange identity and distances to line / segment -/

/-- Lagrange: `|p - a - lam v|² |v|² = ((p-a)×v)² + ((p-a)·v - lam |v|²)²` with `v = b - a`. -/
theorem distSqAt_mul_normSq (p a b : P2) (lam : Rat) :
    distSqAt p a b lam * normSq (sub b a)
      = cross (sub p a) (sub b a) * cross (sub p a) (sub b a)
        + (dot (sub p a) (sub b a) - lam * normSq (sub b a))
          * (dot (sub p a) (sub b a) - lam * normSq (sub b a)) := by
  obtain ⟨px, py⟩ := p
  obtain ⟨ax, ay⟩ := a
  obtain ⟨bx, by'⟩ := b
  simp only [distSqAt, normSq, dot, cross, sub]
  ring

theorem perpSq_mul_normSq (p a b : P2) (hab : a ≠ b) :
    perpSq p a b * normSq (sub b a)
      = cross (sub p a) (sub b a) * cross (sub p a) (sub b a) := by
  have hN := normSq_sub_pos hab
  have hc : cross (sub b a) (sub p a) = - cross (sub p a) (sub b a) := by
    simp only [cross]; ring
  simp only [perpSq]
  rw [div_mul_cancel₀ _ hN.ne', hc]
  ring

/-- `shortestSq · |v|² = max(S,T,0)² + C²` written with `d = (p-a)·v`: `S = -d`, `T = d - |v|²`. -/
theorem shortestSq_mul_normSq (p a b : P2) (hab : a ≠ b) :
    shortestSq p a b * normSq (sub b a)
      = rmax (rmax (-(dot (sub p a) (sub b a))) (dot (sub p a) (sub b a) - normSq (sub b a))) 0
        * rmax (rmax (-(dot (sub p a) (sub b a))) (dot (sub p a) (sub b a) - normSq (sub b a))) 0
        + cross (sub p a) (sub b a) * cross (sub p a) (sub b a) := by
  have hN := normSq_sub_pos hab
  have hS : dot (sub a p) (sub b a) = -(dot (sub p a) (sub b a)) := by
    simp only [dot, sub]; ring
  have hT : dot (sub p b) (sub b a) = dot (sub p a) (sub b a) - normSq (sub b a) := by
    simp only [dot, sub, normSq]; ring
  simp only [shortestSq, if_neg hab]
  rw [div_mul_cancel₀ _ hN.ne', hS, hT]

theorem shortestSq_nonneg (p a b : P2) : 0 ≤ shortestSq p a b := by
  by_cases hab : a = b
  · simp only [shortestSq, if_pos hab]; exact normSq_nonneg _
  · have hN := normSq_sub_pos hab
    apply le_of_mul_le_mul_right _ hN
    rw [shortestSq_mul_normSq p a b hab, zero_mul]
    exact add_nonneg (mul_self_nonneg _) (mul_self_nonneg _)

/-! ### one-dimensional overlap of intervals, as computed by `rect_overlap` -/

theorem rmax_comm (a b : Rat) : rmax a b = rmax b a := by
  unfold rmax; split_ifs <;> linarith

theorem rmin_comm (a b : Rat) : rmin a b = rmin b a := by
  unfold rmin; split_ifs <;> linarith

theorem rabs_nonneg (x : Rat) : 0 ≤ rabs x := by
  unfold rabs; split_ifs <;> linarith

theorem ovl_nonneg (lo1 hi1 lo2 hi2 : Rat) : 0 ≤ rmax 0 (rmin hi1 hi2 - rmax lo1 lo2) := by
  unfold rmax rmin; split_ifs <;> linarith

theorem ovl_le_left (lo1 hi1 lo2 hi2 : Rat) :
    rmax 0 (rmin hi1 hi2 - rmax lo1 lo2) ≤ rabs (hi1 - lo1) := by
  unfold rmax rmin rabs; split_ifs <;> linarith

theorem ovl_le_right (lo1 hi1 lo2 hi2 : Rat) :
    rmax 0 (rmin hi1 hi2 - rmax lo1 lo2) ≤ rabs (hi2 - lo2) := by
  unfold rmax rmin rabs; split_ifs <;> linarith

theorem ovl_comm (lo1 hi1 lo2 hi2 : Rat) :
    rmax 0 (rmin hi1 hi2 - rmax lo1 lo2) = rmax 0 (rmin hi2 hi1 - rmax lo2 lo1) := by
  rw [rmin_comm hi1, rmax_comm lo1]

theorem ovl_self (lo hi : Rat) (h : lo ≤ hi) : rmax 0 (rmin hi hi - rmax lo lo) = hi - lo := by
  unfold rmax rmin; split_ifs <;> linarith

theorem ovl_disjoint (lo1 hi1 lo2 hi2 : Rat) (h : hi1 ≤ lo2 ∨ hi2 ≤ lo1) :
    rmax 0 (rmin hi1 hi2 - rmax lo1 lo2) = 0 := by
  unfold rmax rmin; rcases h with h | h <;> split_ifs <;> linarith

/-- the overlap area is at most the area of each rectangle, whatever the corner order -/
theorem rectOverlap_ov_le (amin amax bmin bmax : Rat × Rat) :
    rmax 0 (rmin amax.1 bmax.1 - rmax amin.1 bmin.1) * rmax 0 (rmin amax.2 bmax.2 - rmax amin.2 bmin.2)
        ≤ rabs (amax.1 - amin.1) * rabs (amax.2 - amin.2)
    ∧ rmax 0 (rmin amax.1 bmax.1 - rmax amin.1 bmin.1) * rmax 0 (rmin amax.2 bmax.2 - rmax amin.2 bmin.2)
        ≤ rabs (bmax.1 - bmin.1) * rabs (bmax.2 - bmin.2) :=
  ⟨mul_le_mul (ovl_le_left _ _ _ _) (ovl_le_left _ _ _ _) (ovl_nonneg _ _ _ _) (rabs_nonneg _),
   mul_le_mul (ovl_le_right _ _ _ _) (ovl_le_right _ _ _ _) (ovl_nonneg _ _ _ _) (rabs_nonneg _)⟩

/-! ### circumcentre, in coordinates relative to the first point -/

/-- With `u = (a, b)`, `w = (c, d)`, `K = u × w ≠ 0`, the point `o = (ox, oy)` given by
`2K·ox = d|u|² - b|w|²`, `2K·oy = a|w|² - c|u|²` is equidistant from `0`, `u`, `w` and
`4K² |o|² = |u|² |w - u|² |w|²`. -/
theorem circum_aux (a b c d ox oy : Rat) (hK : a * d - b * c ≠ 0)
    (hox : ox * (2 * (a * d - b * c)) = d * (a * a + b * b) - b * (c * c + d * d))
    (hoy : oy * (2 * (a * d - b * c)) = a * (c * c + d * d) - c * (a * a + b * b)) :
    ox * ox + oy * oy = (ox - a) * (ox - a) + (oy - b) * (oy - b)
    ∧ ox * ox + oy * oy = (ox - c) * (ox - c) + (oy - d) * (oy - d)
    ∧ 4 * (a * d - b * c) * (a * d - b * c) * (ox * ox + oy * oy)
        = (a * a + b * b) * ((c - a) * (c - a) + (d - b) * (d - b)) * (c * c + d * d) := by
  have e1 : 2 * (a * ox + b * oy) = a * a + b * b := by
    apply mul_left_cancel₀ hK
    linear_combination a * hox + b * hoy
  have e2 : 2 * (c * ox + d * oy) = c * c + d * d := by
    apply mul_left_cancel₀ hK
    linear_combination c * hox + d * hoy
  refine ⟨by linear_combination e1, by linear_combination e2, ?_⟩
  linear_combination
    (ox * (2 * (a * d - b * c)) + (d * (a * a + b * b) - b * (c * c + d * d))) * hox
    + (oy * (2 * (a * d - b * c)) + (a * (c * c + d * d) - c * (a * a + b * b))) * hoy

/-! ### `rankOf` -/

theorem countP_lt_countP {α : Type} (p q : α → Bool) (l : List α)
    (himp : ∀ x ∈ l, p x = true → q x = true) (x : α) (hx : x ∈ l) (hq : q x = true)
    (hp : p x = false) : l.countP p < l.countP q := by
  induction l with
  | nil => simp at hx
  | cons y ys ih =>
    have hle : ys.countP p ≤ ys.countP q :=
      List.countP_mono_left (fun z hz => himp z (List.mem_cons_of_mem _ hz))
    rcases List.mem_cons.1 hx with rfl | hx'
    · simp only [List.countP_cons, hq, hp]
      simp
      omega
    · have ih' := ih (fun z hz => himp z (List.mem_cons_of_mem _ hz)) hx'
      have hy := himp y List.mem_cons_self
      simp only [List.countP_cons]
      by_cases hpy : p y = true
      · simp [hpy, hy hpy]; omega
      · simp [hpy]; omega

/-- strict lexicographic comparison of `(v[j], j)` and `(v[i], i)` (stable sort order) -/
def rkLt (v : List Rat) (j i : Nat) : Bool :=
  decide (v[j]?.getD 0 < v[i]?.getD 0) || (decide (v[j]?.getD 0 = v[i]?.getD 0) && decide (j < i))

/-- rank of entry `i`: number of entries sorting strictly before it -/
def rk (v : List Rat) (i : Nat) : Nat := ((List.range v.length).filter fun j => rkLt v j i).length

theorem rankOf_eq (v : List Rat) : rankOf v = (List.range v.length).map (rk v) := rfl

theorem rkLt_iff (v : List Rat) (j i : Nat) :
    rkLt v j i = true ↔ v[j]?.getD 0 < v[i]?.getD 0 ∨ (v[j]?.getD 0 = v[i]?.getD 0 ∧ j < i) := by
  simp [rkLt]

theorem rkLt_irrefl (v : List Rat) (i : Nat) : rkLt v i i = false := by
  simp [rkLt]

theorem rkLt_trans (v : List Rat) {i j k : Nat} (h1 : rkLt v i j = true) (h2 : rkLt v j k = true) :
    rkLt v i k = true := by
  rw [rkLt_iff] at *
  rcases h1 with h1 | ⟨h1, h1'⟩ <;> rcases h2 with h2 | ⟨h2, h2'⟩
  · exact Or.inl (lt_trans h1 h2)
  · exact Or.inl (h2 ▸ h1)
  · exact Or.inl (h1 ▸ h2)
  · exact Or.inr ⟨h1.trans h2, Nat.lt_trans h1' h2'⟩

theorem rkLt_total (v : List Rat) {i j : Nat} (h : i ≠ j) : rkLt v i j = true ∨ rkLt v j i = true := by
  simp only [rkLt_iff]
  rcases lt_trichotomy (v[i]?.getD 0) (v[j]?.getD 0) with h1 | h1 | h1
  · exact Or.inl (Or.inl h1)
  · rcases Nat.lt_or_gt_of_ne h with h2 | h2
    · exact Or.inl (Or.inr ⟨h1, h2⟩)
    · exact Or.inr (Or.inr ⟨h1.symm, h2⟩)
  · exact Or.inr (Or.inl h1)

theorem rk_lt_length (v : List Rat) {i : Nat} (hi : i < v.length) : rk v i < v.length := by
  have := countP_lt_countP (fun j => rkLt v j i) (fun _ => true) (List.range v.length)
    (fun _ _ _ => rfl) i (List.mem_range.2 hi) rfl (rkLt_irrefl v i)
  simpa [rk, List.countP_eq_length_filter] using this

theorem rk_lt_of_rkLt (v : List Rat) {i j : Nat} (hi : i < v.length) (h : rkLt v i j = true) :
    rk v i < rk v j := by
  have := countP_lt_countP (fun k => rkLt v k i) (fun k => rkLt v k j) (List.range v.length)
    (fun k _ hk => rkLt_trans v hk h) i (List.mem_range.2 hi) h (rkLt_irrefl v i)
  simpa [rk, List.countP_eq_length_filter] using this

theorem rankOf_getD (v : List Rat) {i : Nat} (hi : i < v.length) :
    (rankOf v)[i]?.getD 0 = rk v i := by
  simp [rankOf_eq, hi]

theorem rk_injective (v : List Rat) {i j : Nat} (hi : i < v.length) (hj : j < v.length)
    (h : rk v i = rk v j) : i = j := by
  by_contra hne
  rcases rkLt_total v hne with h1 | h1
  · exact absurd h (Nat.ne_of_lt (rk_lt_of_rkLt v hi h1))
  · exact absurd h.symm (Nat.ne_of_lt (rk_lt_of_rkLt v hj h1))

end Knee

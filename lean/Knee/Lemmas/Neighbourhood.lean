import Knee.Model.Neighbourhood
import Knee.Lemmas.Geometry
import Mathlib.Tactic.Linarith
import Mathlib.Data.Nat.Log
/-!
Helper lemmas for `Props/X01.lean`: the loops of `Knee/Model/Neighbourhood.lean`.
-/
namespace Knee

section
variable {α : Type} [LT α] [DecidableLT α]

/-! ### binary loop -/

theorem nbFar_iff (i r : Nat) : nbFar i r = true ↔ i + 1 < r ∨ r + 1 < i := by
  simp [nbFar]

theorem nbFar_false_iff (i r : Nat) : nbFar i r = false ↔ i ≤ r + 1 ∧ r ≤ i + 1 := by
  rw [← Bool.not_eq_true, nbFar_iff]; omega

theorem nbBinLoop_succ (r2 : Nat → α) (t : α) (b f i r : Nat) :
    nbBinLoop r2 t b (f + 1) i r =
      if nbFar i r then
        (if r2 i < t then nbBinLoop r2 t b f ((i + r) / 2) r
         else nbBinLoop r2 t b f ((b + i) / 2) i).map fun s => { s with trace := i :: s.trace }
      else some ⟨i, r, []⟩ := rfl

/-- TERMINATION from a decreasing measure: under an invariant preserved by both branches along which `μ` strictly
decreases, fuel `> μ` is never exhausted. -/
theorem nbBinLoop_isSome (r2 : Nat → α) (t : α) (b : Nat) (Inv : Nat → Nat → Prop) (μ : Nat → Nat → Nat)
    (hstep : ∀ i r, Inv i r → nbFar i r = true →
      (Inv ((i + r) / 2) r ∧ μ ((i + r) / 2) r < μ i r) ∧ (Inv ((b + i) / 2) i ∧ μ ((b + i) / 2) i < μ i r)) :
    ∀ fuel i r, Inv i r → μ i r < fuel → ∃ s, nbBinLoop r2 t b fuel i r = some s := by
  intro fuel
  induction fuel with
  | zero => intro i r _ h; omega
  | succ f ih =>
    intro i r hinv hμ
    rw [nbBinLoop_succ]
    by_cases hfar : nbFar i r = true
    · obtain ⟨⟨h1, h1'⟩, ⟨h2, h2'⟩⟩ := hstep i r hinv hfar
      simp only [hfar, if_true]
      by_cases hlt : r2 i < t
      · obtain ⟨s, hs⟩ := ih _ _ h1 (by omega)
        simp [hlt, hs]
      · obtain ⟨s, hs⟩ := ih _ _ h2 (by omega)
        simp [hlt, hs]
    · simp [hfar]

/-- what a completed run guarantees, for ANY invariant preserved by the two branches and ANY measure decreasing along them:
the invariant at the end, the exit condition, the iteration count bounded by the measure, the invariant at every evaluated index. -/
theorem nbBinLoop_post (r2 : Nat → α) (t : α) (b : Nat) (Inv : Nat → Nat → Prop) (μ : Nat → Nat → Nat)
    (hstep : ∀ i r, Inv i r → nbFar i r = true →
      (Inv ((i + r) / 2) r ∧ μ ((i + r) / 2) r < μ i r) ∧ (Inv ((b + i) / 2) i ∧ μ ((b + i) / 2) i < μ i r)) :
    ∀ fuel i r s, Inv i r → nbBinLoop r2 t b fuel i r = some s →
      Inv s.i s.right ∧ nbFar s.i s.right = false ∧ s.trace.length ≤ μ i r ∧
        ∀ j ∈ s.trace, ∃ r', Inv j r' ∧ nbFar j r' = true := by
  intro fuel
  induction fuel with
  | zero => intro i r s _ h; simp [nbBinLoop] at h
  | succ f ih =>
    intro i r s hinv hs
    rw [nbBinLoop_succ] at hs
    by_cases hfar : nbFar i r = true
    · obtain ⟨⟨h1, h1'⟩, ⟨h2, h2'⟩⟩ := hstep i r hinv hfar
      simp only [hfar, if_true, Option.map_eq_some_iff] at hs
      obtain ⟨s', hs', rfl⟩ := hs
      by_cases hlt : r2 i < t
      · simp only [hlt, if_true] at hs'
        obtain ⟨p1, p2, p3, p4⟩ := ih _ _ _ h1 hs'
        refine ⟨p1, p2, by simp only [List.length_cons]; omega, ?_⟩
        intro j hj
        rcases List.mem_cons.1 hj with rfl | hj
        · exact ⟨r, hinv, hfar⟩
        · exact p4 j hj
      · simp only [hlt, if_false] at hs'
        obtain ⟨p1, p2, p3, p4⟩ := ih _ _ _ h2 hs'
        refine ⟨p1, p2, by simp only [List.length_cons]; omega, ?_⟩
        intro j hj
        rcases List.mem_cons.1 hj with rfl | hj
        · exact ⟨r, hinv, hfar⟩
        · exact p4 j hj
    · simp only [hfar, Bool.false_eq_true, if_false, Option.some.injEq] at hs
      subst hs
      exact ⟨hinv, by simpa using hfar, by simp, by simp⟩

/-- `right` only ever moves to an index where `r2 < t` FAILED -/
theorem nbBinLoop_right (r2 : Nat → α) (t : α) (b : Nat) :
    ∀ fuel i r s, nbBinLoop r2 t b fuel i r = some s → s.right = r ∨ ¬ r2 s.right < t := by
  intro fuel
  induction fuel with
  | zero => intro i r s h; simp [nbBinLoop] at h
  | succ f ih =>
    intro i r s hs
    rw [nbBinLoop_succ] at hs
    by_cases hfar : nbFar i r = true
    · simp only [hfar, if_true, Option.map_eq_some_iff] at hs
      obtain ⟨s', hs', rfl⟩ := hs
      by_cases hlt : r2 i < t
      · simp only [hlt, if_true] at hs'
        exact ih _ _ s' hs'
      · simp only [hlt, if_false] at hs'
        rcases ih _ _ s' hs' with h | h
        · right; show ¬ r2 s'.right < t; rw [h]; exact hlt
        · right; exact h
    · simp only [hfar, Bool.false_eq_true, if_false, Option.some.injEq] at hs
      subst hs
      exact Or.inl rfl

/-- the two arithmetic facts behind the quadratic measure -/
theorem sq_drop (u w : Nat) (h : u + 2 ≤ w) : u * u + u < w * w := by
  have := Nat.mul_self_le_mul_self h
  nlinarith

/-- invariant and quadratic measure for `b ≤ a` -/
theorem nbBin_step_le (a b i r : Nat) (hinv : b ≤ i ∧ i ≤ r ∧ r ≤ a) (hfar : nbFar i r = true) :
    ((b ≤ (i + r) / 2 ∧ (i + r) / 2 ≤ r ∧ r ≤ a) ∧
        (r - b) * (r - b) + (r - (i + r) / 2) < (r - b) * (r - b) + (r - i)) ∧
      ((b ≤ (b + i) / 2 ∧ (b + i) / 2 ≤ i ∧ i ≤ a) ∧
        (i - b) * (i - b) + (i - (b + i) / 2) < (r - b) * (r - b) + (r - i)) := by
  rw [nbFar_iff] at hfar
  obtain ⟨h1, h2, h3⟩ := hinv
  have hir : i + 1 < r := by omega
  refine ⟨⟨⟨by omega, by omega, h3⟩, by omega⟩, ⟨⟨by omega, by omega, by omega⟩, ?_⟩⟩
  have := sq_drop (i - b) (r - b) (by omega)
  have : i - (b + i) / 2 ≤ i - b := by omega
  omega

/-- invariant and quadratic measure for `a ≤ b` (mirror image) -/
theorem nbBin_step_ge (a b i r : Nat) (hinv : a ≤ r ∧ r ≤ i ∧ i ≤ b) (hfar : nbFar i r = true) :
    ((a ≤ r ∧ r ≤ (i + r) / 2 ∧ (i + r) / 2 ≤ b) ∧
        (b - r) * (b - r) + ((i + r) / 2 - r) < (b - r) * (b - r) + (i - r)) ∧
      ((a ≤ i ∧ i ≤ (b + i) / 2 ∧ (b + i) / 2 ≤ b) ∧
        (b - i) * (b - i) + ((b + i) / 2 - i) < (b - r) * (b - r) + (i - r)) := by
  rw [nbFar_iff] at hfar
  obtain ⟨h1, h2, h3⟩ := hinv
  have hir : r + 1 < i := by omega
  refine ⟨⟨⟨h1, by omega, by omega⟩, by omega⟩, ⟨⟨by omega, by omega, by omega⟩, ?_⟩⟩
  have := sq_drop (b - i) (b - r) (by omega)
  have : (b + i) / 2 - i ≤ b - i := by omega
  omega

/-! ### the `n log n` measure -/

theorem clog_half (g : Nat) (hg : 2 ≤ g) : Nat.clog 2 (g - g / 2) + 1 = Nat.clog 2 g := by
  rw [Nat.clog_of_two_le (by omega) hg]
  congr 2
  omega

/-- invariant and logarithmic measure for `b ≤ a`: `μ = ⌊(right-b)/2⌋·L + ⌈log₂(right-i)⌉` with `L = ⌈log₂(a-b)⌉` -/
theorem nbBin_step_log (a b i r : Nat) (hinv : b ≤ i ∧ i ≤ r ∧ r ≤ a) (hfar : nbFar i r = true) :
    ((b ≤ (i + r) / 2 ∧ (i + r) / 2 ≤ r ∧ r ≤ a) ∧
        (r - b) / 2 * Nat.clog 2 (a - b) + Nat.clog 2 (r - (i + r) / 2) <
          (r - b) / 2 * Nat.clog 2 (a - b) + Nat.clog 2 (r - i)) ∧
      ((b ≤ (b + i) / 2 ∧ (b + i) / 2 ≤ i ∧ i ≤ a) ∧
        (i - b) / 2 * Nat.clog 2 (a - b) + Nat.clog 2 (i - (b + i) / 2) <
          (r - b) / 2 * Nat.clog 2 (a - b) + Nat.clog 2 (r - i)) := by
  have hfar' := (nbFar_iff i r).1 hfar
  obtain ⟨h1, h2, h3⟩ := hinv
  have hir : i + 1 < r := by omega
  refine ⟨⟨⟨by omega, by omega, h3⟩, ?_⟩, ⟨⟨by omega, by omega, by omega⟩, ?_⟩⟩
  · have e : r - (i + r) / 2 = (r - i) - (r - i) / 2 := by omega
    have := clog_half (r - i) (by omega)
    rw [e]; omega
  · have hpos : 1 ≤ Nat.clog 2 (r - i) := Nat.clog_pos (by omega) (by omega)
    have hmono : Nat.clog 2 (i - (b + i) / 2) ≤ Nat.clog 2 (a - b) := Nat.clog_mono_right 2 (by omega)
    have hk : (i - b) / 2 + 1 ≤ (r - b) / 2 := by omega
    have := Nat.mul_le_mul_right (Nat.clog 2 (a - b)) hk
    rw [Nat.add_mul] at this
    omega

/-! ### the downward walk of `get_neighbourhood` -/

theorem nbWalk_zero (r2 : Nat → α) (t : α) (b : Nat) (cur : α) (prev : Option (Nat × α)) :
    nbWalk r2 t b 0 cur prev = ⟨0, cur, prev, []⟩ := rfl

theorem nbWalk_succ (r2 : Nat → α) (t : α) (b i : Nat) (cur : α) (prev : Option (Nat × α)) :
    nbWalk r2 t b (i + 1) cur prev =
      if t < cur ∧ b < i + 1 then
        { nbWalk r2 t b i (r2 i) (some (i + 1, cur)) with
          trace := i :: (nbWalk r2 t b i (r2 i) (some (i + 1, cur))).trace }
      else ⟨i + 1, cur, prev, []⟩ := rfl

/-- everything about the state after the loop, started at index `i` with the value `cur` in hand -/
theorem nbWalk_spec (r2 : Nat → α) (t : α) (b : Nat) :
    ∀ (i : Nat) (cur : α) (prev : Option (Nat × α)),
      (nbWalk r2 t b i cur prev).i ≤ i ∧
      (b ≤ i → b ≤ (nbWalk r2 t b i cur prev).i) ∧
      (i ≤ b → (nbWalk r2 t b i cur prev).i = i) ∧
      (nbWalk r2 t b i cur prev).trace =
        (List.range (i - (nbWalk r2 t b i cur prev).i)).map (fun k => i - 1 - k) ∧
      (nbWalk r2 t b i cur prev).cur =
        (if (nbWalk r2 t b i cur prev).i = i then cur else r2 (nbWalk r2 t b i cur prev).i) ∧
      (∀ j, (nbWalk r2 t b i cur prev).i < j → j ≤ i → t < (if j = i then cur else r2 j)) ∧
      (¬ (t < (nbWalk r2 t b i cur prev).cur) ∨ (nbWalk r2 t b i cur prev).i ≤ b) ∧
      (nbWalk r2 t b i cur prev).prev =
        (if (nbWalk r2 t b i cur prev).i = i then prev
         else some ((nbWalk r2 t b i cur prev).i + 1,
           if (nbWalk r2 t b i cur prev).i + 1 = i then cur else r2 ((nbWalk r2 t b i cur prev).i + 1))) := by
  intro i
  induction i with
  | zero =>
    intro cur prev
    rw [nbWalk_zero]
    refine ⟨Nat.le_refl _, fun h => h, fun _ => rfl, by simp, by simp, ?_, Or.inr (Nat.zero_le _), by simp⟩
    intro j h1 h2; omega
  | succ i ih =>
    intro cur prev
    rw [nbWalk_succ]
    by_cases hc : t < cur ∧ b < i + 1
    · rw [if_pos hc]
      obtain ⟨p1, p2, p3, p4, p5, p6, p7, p8⟩ := ih (r2 i) (some (i + 1, cur))
      generalize nbWalk r2 t b i (r2 i) (some (i + 1, cur)) = s at *
      have hne : s.i ≠ i + 1 := by omega
      have hb := hc.2
      refine ⟨by simp only; omega, fun _ => p2 (by omega), fun h => by omega, ?_, ?_, ?_, p7, ?_⟩
      · show i :: s.trace = _
        have e : i + 1 - s.i = (i - s.i) + 1 := by omega
        rw [p4, e, List.range_succ_eq_map, List.map_cons, List.map_map]
        congr 1
        apply List.map_congr_left
        intro k _
        simp only [Function.comp, Nat.succ_eq_add_one]
        omega
      · show s.cur = _
        rw [if_neg hne, p5]
        split
        · next h => rw [h]
        · rfl
      · intro j h1 h2
        show t < _
        by_cases hj : j = i + 1
        · rw [if_pos hj]; exact hc.1
        · rw [if_neg hj]
          have := p6 j h1 (by omega)
          split at this
          · next h => rw [h]; exact this
          · exact this
      · show s.prev = _
        rw [if_neg hne, p8]
        by_cases hi : s.i = i
        · rw [if_pos hi, hi, if_pos rfl]
        · have h1 : ¬ (s.i + 1 = i + 1) := by omega
          rw [if_neg hi, if_neg h1]
          split
          · next h => rw [h]
          · rfl
    · rw [if_neg hc]
      refine ⟨Nat.le_refl _, fun h => h, fun _ => rfl, by simp, by simp, ?_, ?_, by simp⟩
      · intro j h1 h2; simp only at h1; omega
      · simp only
        by_cases h : t < cur
        · right; have : ¬ b < i + 1 := fun hb => hc ⟨h, hb⟩; omega
        · left; exact h

/-! ### the upward walk of `get_neighbourhood_fast` -/

theorem nbUp_spec (r2 : Nat → α) (t : α) :
    ∀ (g i : Nat),
      i ≤ (nbUp r2 t g i).1 ∧ (nbUp r2 t g i).1 ≤ i + g ∧
      (nbUp r2 t g i).2 = List.range' i ((nbUp r2 t g i).1 - i + 1) ∧
      (∀ j, i ≤ j → j < (nbUp r2 t g i).1 → r2 j < t) ∧
      (¬ r2 (nbUp r2 t g i).1 < t ∨ (nbUp r2 t g i).1 = i + g) := by
  intro g
  induction g with
  | zero =>
    intro i
    refine ⟨Nat.le_refl _, Nat.le_refl _, by simp [nbUp], ?_, Or.inr rfl⟩
    intro j h1 h2; simp only [nbUp] at h2; omega
  | succ g ih =>
    intro i
    by_cases hlt : r2 i < t
    · have e : nbUp r2 t (g + 1) i = ((nbUp r2 t g (i + 1)).1, i :: (nbUp r2 t g (i + 1)).2) := by
        simp [nbUp, hlt]
      rw [e]
      obtain ⟨p1, p2, p3, p4, p5⟩ := ih (i + 1)
      generalize nbUp r2 t g (i + 1) = u at *
      refine ⟨by simp only; omega, by simp only; omega, ?_, ?_, ?_⟩
      · simp only
        have e2 : u.1 - i + 1 = (u.1 - (i + 1) + 1) + 1 := by omega
        rw [e2, List.range'_succ, p3]
      · intro j h1 h2
        by_cases hj : j = i
        · rw [hj]; exact hlt
        · exact p4 j (by omega) h2
      · simp only
        rcases p5 with h | h
        · exact Or.inl h
        · right; omega
    · have e : nbUp r2 t (g + 1) i = (i, [i]) := by simp [nbUp, hlt]
      rw [e]
      refine ⟨Nat.le_refl _, by simp, by simp, ?_, Or.inl hlt⟩
      intro j h1 h2; simp only at h2; omega

end
/-! ### ranks, min-max normalisation -/

theorem foldr_min_le (l : List Nat) (d : Nat) :
    l.foldr Nat.min d ≤ d ∧ ∀ x ∈ l, l.foldr Nat.min d ≤ x := by
  induction l with
  | nil => simp
  | cons y ys ih =>
    simp only [List.foldr_cons, List.mem_cons]
    refine ⟨Nat.le_trans (Nat.min_le_right _ _) ih.1, ?_⟩
    rintro x (rfl | hx)
    · exact Nat.min_le_left _ _
    · exact Nat.le_trans (Nat.min_le_right _ _) (ih.2 x hx)

theorem natMin_le (l : List Nat) : ∀ x ∈ l, natMin l ≤ x := (foldr_min_le l _).2

theorem le_natMax (l : List Nat) : ∀ x ∈ l, x ≤ natMax l := by
  unfold natMax
  induction l with
  | nil => simp
  | cons y ys ih =>
    simp only [List.foldr_cons, List.mem_cons]
    rintro x (rfl | hx)
    · exact Nat.le_max_left _ _
    · exact Nat.le_trans (ih x hx) (Nat.le_max_right _ _)

theorem natMax_le (l : List Nat) (m : Nat) (h : ∀ x ∈ l, x ≤ m) : natMax l ≤ m := by
  unfold natMax
  induction l with
  | nil => simp
  | cons y ys ih =>
    simp only [List.foldr_cons]
    exact Nat.max_le.2 ⟨h y List.mem_cons_self, ih (fun x hx => h x (List.mem_cons_of_mem _ hx))⟩

/-- a permutation of `0..m-1` (`m ≥ 1`) has minimum 0 and maximum `m-1`: `(r - min)/ptp` is `r/(m-1)` -/
theorem normRanks_of_perm (r : List Nat) (m : Nat) (hp : r.Perm (List.range m)) (hm : 1 ≤ m) :
    normRanks r = r.map fun (k : Nat) => ((k : Int) : Rat) / (((m - 1 : Nat) : Int) : Rat) := by
  have h0 : natMin r = 0 := by
    have := natMin_le r 0 (hp.mem_iff.2 (List.mem_range.2 (by omega)))
    omega
  have h1 : natMax r = m - 1 := by
    have := le_natMax r (m - 1) (hp.mem_iff.2 (List.mem_range.2 (by omega)))
    have := natMax_le r (m - 1) (fun x hx => by have := List.mem_range.1 (hp.mem_iff.1 hx); omega)
    omega
  unfold normRanks
  rw [h0, h1]
  rfl

theorem rankOf_length' (v : List Rat) : (rankOf v).length = v.length := by
  simp [rankOf]

theorem rankOf_perm_range (v : List Rat) : (rankOf v).Perm (List.range v.length) := by
  have hnd : (rankOf v).Nodup := by
    rw [rankOf_eq, List.Nodup, List.pairwise_map]
    refine List.Pairwise.imp_of_mem ?_ (List.pairwise_lt_range (n := v.length))
    intro i j hi hj hij heq
    exact absurd (rk_injective v (List.mem_range.1 hi) (List.mem_range.1 hj) heq) (Nat.ne_of_lt hij)
  apply List.Subperm.perm_of_length_le
  · refine List.subperm_of_subset hnd (fun r hr => List.mem_range.2 ?_)
    rw [rankOf_eq, List.mem_map] at hr
    obtain ⟨i, hi, rfl⟩ := hr
    exact rk_lt_length v (List.mem_range.1 hi)
  · simp [rankOf_length']

theorem isRankOf_perm (v : List Rat) (r : List Nat) (h : IsRankOf v r) : r.Perm (List.range v.length) := by
  obtain ⟨h1, h2, _⟩ := h
  refine (List.Subperm.perm_of_length_le ?_ (by simp [h1])).symm
  exact List.subperm_of_subset List.nodup_range (fun k hk => h2 k (List.mem_range.1 hk))

theorem rankOf_isRankOf (v : List Rat) : IsRankOf v (rankOf v) := by
  refine ⟨rankOf_length' v, fun k hk => (rankOf_perm_range v).mem_iff.2 (List.mem_range.2 hk), ?_⟩
  intro i j hi hj hlt
  rw [rankOf_getD v hi, rankOf_getD v hj]
  exact rk_lt_of_rkLt v hi ((rkLt_iff v i j).2 (Or.inl hlt))

theorem isRankOfB_iff (v : List Rat) (r : List Nat) : isRankOfB v r = true ↔ IsRankOf v r := by
  unfold isRankOfB IsRankOf
  simp only [Bool.and_eq_true, decide_eq_true_eq, List.all_eq_true, List.mem_range, Bool.or_eq_true,
    Bool.not_eq_true', decide_eq_false_iff_not, List.contains_iff_mem]
  constructor
  · rintro ⟨⟨h1, h2⟩, h3⟩
    refine ⟨h1, h2, fun i j hi hj hlt => ?_⟩
    rcases h3 i hi j hj with h | h
    · exact absurd hlt h
    · exact h
  · rintro ⟨h1, h2, h3⟩
    refine ⟨⟨h1, h2⟩, fun i hi j hj => ?_⟩
    by_cases hlt : v[i]?.getD 0 < v[j]?.getD 0
    · exact Or.inr (h3 i j hi hj hlt)
    · exact Or.inl hlt

/-! ### without ties the rank vector is unique: `IsRankOf` pins down `rankOf` -/

theorem countP_lt_range (n x : Nat) (h : x ≤ n) : (List.range n).countP (fun y => decide (y < x)) = x := by
  induction n with
  | zero =>
    have : x = 0 := by omega
    subst this; rfl
  | succ n ih =>
    rw [List.range_succ, List.countP_append]
    have hn : ([n].countP fun y => decide (y < x)) = if n < x then 1 else 0 := by
      simp [List.countP_cons]
    rw [hn]
    by_cases hx : x ≤ n
    · rw [ih hx, if_neg (by omega)]; rfl
    · have hxn : x = n + 1 := by omega
      have : (List.range n).countP (fun y => decide (y < x)) = n := by
        have hall : ∀ y ∈ List.range n, (fun y => decide (y < x)) y = true := by
          intro y hy; have := List.mem_range.1 hy; simp; omega
        rw [List.countP_eq_length.2 hall, List.length_range]
      rw [this, if_pos (by omega)]; omega

theorem list_eq_map_range (r : List Nat) : r = (List.range r.length).map (fun j => r[j]?.getD 0) := by
  apply List.ext_getElem
  · simp
  · intro i h1 h2
    simp [h1]

theorem countP_getD (r : List Nat) (p : Nat → Bool) :
    r.countP p = (List.range r.length).countP (fun j => p (r[j]?.getD 0)) := by
  conv_lhs => rw [list_eq_map_range r]
  rw [List.countP_map]
  rfl

theorem isRankOf_eq_rankOf (v : List Rat) (r : List Nat) (h : IsRankOf v r)
    (hd : ∀ i j, i < v.length → j < v.length → i ≠ j → v[i]?.getD 0 ≠ v[j]?.getD 0) : r = rankOf v := by
  have hperm := isRankOf_perm v r h
  obtain ⟨hlen, _, hord⟩ := h
  have hnd : r.Nodup := hperm.nodup_iff.2 List.nodup_range
  have hinj : ∀ i j, i < v.length → j < v.length → r[i]?.getD 0 = r[j]?.getD 0 → i = j := by
    intro i j hi hj he
    have hi' : i < r.length := by omega
    have hj' : j < r.length := by omega
    simp only [List.getElem?_eq_getElem hi', List.getElem?_eq_getElem hj', Option.getD_some] at he
    exact (List.Nodup.getElem_inj_iff hnd).1 he
  have hequiv : ∀ i j, i < v.length → j < v.length →
      (r[j]?.getD 0 < r[i]?.getD 0 ↔ v[j]?.getD 0 < v[i]?.getD 0) := by
    intro i j hi hj
    constructor
    · intro hlt
      have hne : j ≠ i := fun e => by subst e; omega
      rcases lt_trichotomy (v[j]?.getD 0) (v[i]?.getD 0) with h1 | h1 | h1
      · exact h1
      · exact absurd h1 (hd j i hj hi hne)
      · have := hord i j hi hj h1; omega
    · exact hord j i hj hi
  rw [rankOf_eq]
  conv_lhs => rw [list_eq_map_range r]
  rw [hlen]
  apply List.map_congr_left
  intro i hi
  have hi := List.mem_range.1 hi
  have hlt : r[i]?.getD 0 < v.length := by
    have hi' : i < r.length := by omega
    have : r[i]?.getD 0 ∈ r := by
      simp only [List.getElem?_eq_getElem hi', Option.getD_some]; exact List.getElem_mem _
    exact List.mem_range.1 (hperm.mem_iff.1 this)
  -- r[i] = #{x in range n | x < r[i]} = #{x in r | x < r[i]} = #{j | r[j] < r[i]} = #{j | v[j] < v[i]} = rk v i
  have e1 := countP_lt_range v.length (r[i]?.getD 0) (by omega)
  have e2 : r.countP (fun y => decide (y < r[i]?.getD 0)) = (List.range v.length).countP (fun y => decide (y < r[i]?.getD 0)) :=
    hperm.countP_eq _
  have e3 : r.countP (fun y => decide (y < r[i]?.getD 0)) =
      (List.range v.length).countP (fun j => decide (r[j]?.getD 0 < r[i]?.getD 0)) := by
    rw [countP_getD, hlen]
  have e4 : (List.range v.length).countP (fun j => decide (r[j]?.getD 0 < r[i]?.getD 0)) =
      (List.range v.length).countP (fun j => rkLt v j i) := by
    apply List.countP_congr
    intro j hj
    have hj := List.mem_range.1 hj
    simp only [decide_eq_true_eq]
    rw [rkLt_iff, hequiv i j hi hj]
    constructor
    · exact fun h => Or.inl h
    · rintro (h | ⟨h1, h2⟩)
      · exact h
      · exact absurd h1 (hd j i hj hi (by omega))
  unfold rk
  rw [← List.countP_eq_length_filter, ← e4, ← e3, e2, e1]

/-! ### the sequence of neighbourhood calls -/

section
variable {α : Type}

/-- index returned by a call, if it returns -/
def NbOut.idx? : NbOut α → Option Nat
  | .found i _ _ => some i
  | _ => none

theorem nbIdxSeq_ok_iff (calls : List (NbOut α)) :
    ∀ (p : Nat) (l : List Nat), nbIdxSeq p calls = .ok l ↔ calls.map NbOut.idx? = l.map some := by
  induction calls with
  | nil =>
    intro p l
    cases l <;> simp [nbIdxSeq]
  | cons c cs ih =>
    intro p l
    cases c with
    | found i v tr =>
      simp only [nbIdxSeq, List.map_cons, NbOut.idx?]
      cases hrest : nbIdxSeq (p + 1) cs with
      | error e =>
        simp only [Except.map]
        constructor
        · intro h; cases h
        · intro h
          cases l with
          | nil => simp at h
          | cons x xs =>
            simp only [List.map_cons, List.cons.injEq, Option.some.injEq] at h
            have := (ih (p + 1) xs).2 h.2
            rw [hrest] at this; cases this
      | ok l' =>
        simp only [Except.map]
        have hl' := (ih (p + 1) l').1 hrest
        constructor
        · intro h
          cases h
          simp [hl']
        · intro h
          cases l with
          | nil => simp at h
          | cons x xs =>
            simp only [List.map_cons, List.cons.injEq, Option.some.injEq] at h
            have := (ih (p + 1) xs).2 h.2
            rw [hrest] at this
            cases this
            rw [h.1]
    | unbound tr =>
      simp only [nbIdxSeq, List.map_cons, NbOut.idx?]
      constructor
      · intro h; cases h
      · intro h; cases l <;> simp at h
    | negIndex =>
      simp only [nbIdxSeq, List.map_cons, NbOut.idx?]
      constructor
      · intro h; cases h
      · intro h; cases l <;> simp at h

theorem nbIdxSeq_ok_length (calls : List (NbOut α)) (p : Nat) (l : List Nat) (h : nbIdxSeq p calls = .ok l) :
    l.length = calls.length := by
  have := congrArg List.length ((nbIdxSeq_ok_iff calls p l).1 h)
  simpa using this.symm

theorem nbIdxSeq_exists_iff (calls : List (NbOut α)) (p : Nat) :
    (∃ l, nbIdxSeq p calls = .ok l) ↔ ∀ c ∈ calls, ∃ k v tr, c = NbOut.found k v tr := by
  constructor
  · rintro ⟨l, h⟩ c hc
    have hm := (nbIdxSeq_ok_iff calls p l).1 h
    have : NbOut.idx? c ∈ l.map some := hm ▸ List.mem_map_of_mem hc
    obtain ⟨k, _, hk⟩ := List.mem_map.1 this
    cases c with
    | found i v tr => exact ⟨i, v, tr, rfl⟩
    | unbound tr => simp [NbOut.idx?] at hk
    | negIndex => simp [NbOut.idx?] at hk
  · intro h
    induction calls generalizing p with
    | nil => exact ⟨[], rfl⟩
    | cons c cs ih =>
      obtain ⟨k, v, tr, rfl⟩ := h c List.mem_cons_self
      obtain ⟨l, hl⟩ := ih (p + 1) (fun c hc => h c (List.mem_cons_of_mem _ hc))
      exact ⟨k :: l, by simp [nbIdxSeq, hl, Except.map]⟩

end

theorem nbArgs_length (knees : List Nat) : (nbArgs knees).length = knees.length := by
  simp [nbArgs, List.length_zip]

theorem nbArgs_fst (knees : List Nat) : (nbArgs knees).map Prod.fst = knees := by
  unfold nbArgs
  exact List.map_fst_zip (by simp)

theorem zip_prev_lt (knees : List Nat) :
    ∀ prev, (∀ k ∈ knees, prev < k) → knees.Pairwise (· < ·) →
      ∀ ab ∈ knees.zip (prev :: knees), ab.2 < ab.1 := by
  induction knees with
  | nil => intro prev _ _ ab h; simp at h
  | cons k ks ih =>
    intro prev hprev hp ab hab
    rw [List.zip_cons_cons, List.mem_cons] at hab
    rcases hab with rfl | hab
    · exact hprev k List.mem_cons_self
    · rw [List.pairwise_cons] at hp
      exact ih k hp.1 hp.2 ab hab

theorem zip_prev_le (knees : List Nat) :
    ∀ prev, (∀ k ∈ knees, prev ≤ k) → knees.Pairwise (· ≤ ·) →
      ∀ ab ∈ knees.zip (prev :: knees), ab.2 ≤ ab.1 := by
  induction knees with
  | nil => intro prev _ _ ab h; simp at h
  | cons k ks ih =>
    intro prev hprev hp ab hab
    rw [List.zip_cons_cons, List.mem_cons] at hab
    rcases hab with rfl | hab
    · exact hprev k List.mem_cons_self
    · rw [List.pairwise_cons] at hp
      exact ih k hp.1 hp.2 ab hab

end Knee

import Knee.Model.Matching
import Knee.Lemmas.Argmax
import Knee.Lemmas.Geometry
import Knee.Lemmas.GlobalCost
import Mathlib.Tactic.Ring
import Mathlib.Tactic.Linarith
import Mathlib.Tactic.Positivity
import Mathlib.Algebra.Order.Field.Basic
/-!
Helper lemmas for `Props/C19M.lean` (matching-error scores `mae` / `mse` / `rmspe` of
`evaluation.py`): index form of the nearest-neighbour search, squared distance zero, sums of
non-negative terms, the per-point error terms of the three scores.
-/
namespace Knee

/-! ### the nearest neighbour, index form -/

/-- `nearest b p` is the entry of `b` at an in-range index whose squared distance to `p` is
minimal among all entries. -/
theorem nearest_spec {b : List P2} (p : P2) (hb : b ≠ []) :
    ∃ i, ∃ hi : i < b.length, nearest b p = b[i] ∧
      ∀ j (hj : j < b.length), normSq (sub b[i] p) ≤ normSq (sub b[j] p) := by
  have hne : (b.map fun q => normSq (sub q p)) ≠ [] := by simpa using hb
  have hi := argminIdx_lt_length hne
  rw [List.length_map] at hi
  refine ⟨_, hi, ?_, ?_⟩
  · unfold nearest
    rw [List.getElem?_eq_getElem hi, Option.getD_some]
  · intro j hj
    have h := argminIdx_le (l := b.map fun q => normSq (sub q p)) j (by simpa using hj)
    simpa [List.getElem?_eq_getElem hi, List.getElem?_eq_getElem hj] using h

theorem normSq_sub_self (p : P2) : normSq (sub p p) = 0 := by
  obtain ⟨x, y⟩ := p
  simp only [normSq, dot, sub]
  ring

theorem eq_of_normSq_sub_eq_zero {q p : P2} (h : normSq (sub q p) = 0) : q = p := by
  have h0 := normSq_eq_zero h
  obtain ⟨qx, qy⟩ := q
  obtain ⟨px, py⟩ := p
  simp only [sub, Prod.mk.injEq] at h0 ⊢
  constructor <;> linarith [h0.1, h0.2]

/-! ### sums -/

/-- a sum of non-negative terms vanishes iff every term does -/
theorem sum_map_eq_zero_iff {α : Type} (f : α → Rat) :
    ∀ l : List α, (∀ a ∈ l, 0 ≤ f a) → ((l.map f).sum = 0 ↔ ∀ a ∈ l, f a = 0)
  | [], _ => by simp
  | a :: l, h => by
    have h1 := h a (by simp)
    have hl : ∀ b ∈ l, 0 ≤ f b := fun b hb => h b (by simp [hb])
    have h2 := sum_map_nonneg f l hl
    have ih := sum_map_eq_zero_iff f l hl
    simp only [List.map_cons, List.sum_cons, List.mem_cons, forall_eq_or_imp]
    constructor
    · intro hs
      have ha : f a = 0 := by linarith
      exact ⟨ha, ih.1 (by linarith)⟩
    · rintro ⟨ha, hr⟩
      rw [ha, ih.2 hr]
      simp

/-- the divisor `2·|a|` of the side scores is non-negative -/
theorem div_len_nonneg {s : Rat} (hs : 0 ≤ s) (n : Nat) : 0 ≤ s / ((n : Rat) * 2) := by
  apply div_nonneg hs
  have : (0 : Rat) ≤ (n : Rat) := Nat.cast_nonneg n
  linarith

/-- … and non-zero for a non-empty iterated side -/
theorem len_mul_two_ne_zero {α : Type} {a : List α} (ha : a ≠ []) :
    ((a.length : Rat) * 2) ≠ 0 := by
  have h : 0 < a.length := List.length_pos_iff.2 ha
  have : (0 : Rat) < (a.length : Rat) := by exact_mod_cast h
  linarith

/-! ### per-point error terms -/

theorem match_mae_term_nonneg (p q : P2) : 0 ≤ rabs (p.1 - q.1) + rabs (p.2 - q.2) := by
  have h1 := rabs_nonneg (p.1 - q.1)
  have h2 := rabs_nonneg (p.2 - q.2)
  linarith

theorem match_mse_term_nonneg (p q : P2) :
    0 ≤ (p.1 - q.1) * (p.1 - q.1) + (p.2 - q.2) * (p.2 - q.2) := by
  have h1 := mul_self_nonneg (p.1 - q.1)
  have h2 := mul_self_nonneg (p.2 - q.2)
  linarith

theorem match_rmspe_term_nonneg (p q : P2) :
    0 ≤ ((p.1 - q.1) / (p.1 + epsM)) * ((p.1 - q.1) / (p.1 + epsM))
      + ((p.2 - q.2) / (p.2 + epsM)) * ((p.2 - q.2) / (p.2 + epsM)) := by
  have h1 := mul_self_nonneg ((p.1 - q.1) / (p.1 + epsM))
  have h2 := mul_self_nonneg ((p.2 - q.2) / (p.2 + epsM))
  linarith

/-- the squared-error term of a matched pair vanishes iff the two points coincide -/
theorem match_mse_term_eq_zero_iff (p q : P2) :
    (p.1 - q.1) * (p.1 - q.1) + (p.2 - q.2) * (p.2 - q.2) = 0 ↔ q = p := by
  obtain ⟨px, py⟩ := p
  obtain ⟨qx, qy⟩ := q
  simp only [Prod.mk.injEq]
  constructor
  · intro h
    have h1 := mul_self_nonneg (px - qx)
    have h2 := mul_self_nonneg (py - qy)
    have e1 : (px - qx) * (px - qx) = 0 := by linarith
    have e2 : (py - qy) * (py - qy) = 0 := by linarith
    have := mul_self_eq_zero.1 e1
    have := mul_self_eq_zero.1 e2
    constructor <;> linarith
  · rintro ⟨rfl, rfl⟩
    ring

end Knee

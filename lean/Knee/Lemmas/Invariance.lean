import Knee.Lemmas.Geometry
import Knee.Lemmas.Hull
import Knee.Lemmas.Cluster
import Knee.Lemmas.Metrics
import Knee.Model.EvenPoints
import Knee.Model.KneedleQ
import Mathlib.Algebra.Notation.Prod
import Mathlib.Algebra.Order.Field.Basic
import Mathlib.Tactic.Ring
import Mathlib.Tactic.FieldSimp
import Mathlib.Tactic.Linarith
import Mathlib.Tactic.Positivity
/-!
Helper definitions and lemmas for `Props/Invariance.lean` (scale / translation invariance of the
exact Layer-N models).

Transformations of a point `p : P2 = ℚ × ℚ`:
* `p + v`            — translation by `v` (component-wise `+` on pairs, `Mathlib.Algebra.Notation.Prod`);
* `s • p`            — uniform scaling (`(s * p.1, s * p.2)`);
* `axScale sx sy p`  — independent scaling of the two axes (`(sx * p.1, sy * p.2)`);
* `axMap sx sy v p`  — `axScale sx sy p + v` (what a change of units plus a change of origin does to
  a curve; `axMap 1 1 v p = p + v`, `axMap s s 0 p = s • p`).
Lists are transformed element-wise with `List.map`.
-/
namespace Knee

/-! ### the transformations -/

/-- independent scaling of the two axes: `x ↦ sx * x`, `y ↦ sy * y` -/
def axScale (sx sy : Rat) (p : P2) : P2 := (sx * p.1, sy * p.2)

/-- independent scaling of the two axes followed by a translation: `x ↦ sx * x + v.1`,
`y ↦ sy * y + v.2` -/
def axMap (sx sy : Rat) (v : P2) (p : P2) : P2 := (sx * p.1 + v.1, sy * p.2 + v.2)

theorem axMap_eq (sx sy : Rat) (v p : P2) : axMap sx sy v p = axScale sx sy p + v := rfl

theorem axMap_one (v p : P2) : axMap 1 1 v p = p + v := by
  obtain ⟨p1, p2⟩ := p; obtain ⟨v1, v2⟩ := v; simp [axMap]

theorem axMap_zero (sx sy : Rat) (p : P2) : axMap sx sy (0, 0) p = axScale sx sy p := by
  simp [axMap, axScale]

theorem axMap_smul (s : Rat) (p : P2) : axMap s s (0, 0) p = s • p := by
  obtain ⟨p1, p2⟩ := p; simp [axMap]

/-! ### vector algebra under translation and uniform scaling -/

@[simp] theorem sub_add_add (p a v : P2) : sub (p + v) (a + v) = sub p a := by
  obtain ⟨p1, p2⟩ := p; obtain ⟨a1, a2⟩ := a; obtain ⟨v1, v2⟩ := v
  simp [sub]

theorem sub_smul_smul (s : Rat) (p a : P2) : sub (s • p) (s • a) = s • sub p a := by
  obtain ⟨p1, p2⟩ := p; obtain ⟨a1, a2⟩ := a
  simp [sub, mul_sub]

theorem cross_smul_smul (s : Rat) (u v : P2) : cross (s • u) (s • v) = s ^ 2 * cross u v := by
  simp [cross]; ring

theorem dot_smul_smul (s : Rat) (u v : P2) : dot (s • u) (s • v) = s ^ 2 * dot u v := by
  simp [dot]; ring

theorem normSq_smul (s : Rat) (u : P2) : normSq (s • u) = s ^ 2 * normSq u := dot_smul_smul s u u

theorem smul_inj_P2 {s : Rat} (hs : s ≠ 0) (a b : P2) : s • a = s • b ↔ a = b := by
  obtain ⟨a1, a2⟩ := a; obtain ⟨b1, b2⟩ := b
  simp [hs]

/-! ### `rmax`, `rmin`, `rabs` under non-negative scaling and shifts -/

theorem rmax_mul_left {k : Rat} (hk : 0 ≤ k) (a b : Rat) : rmax (k * a) (k * b) = k * rmax a b := by
  rw [rmax_eq_max, rmax_eq_max, mul_max_of_nonneg _ _ hk]

theorem rmin_mul_left {k : Rat} (hk : 0 ≤ k) (a b : Rat) : rmin (k * a) (k * b) = k * rmin a b := by
  rw [rmin_eq_min, rmin_eq_min, mul_min_of_nonneg _ _ hk]

theorem rmax_affine {k : Rat} (hk : 0 ≤ k) (c a b : Rat) :
    rmax (k * a + c) (k * b + c) = k * rmax a b + c := by
  rw [rmax_eq_max, rmax_eq_max, max_add_add_right, mul_max_of_nonneg _ _ hk]

theorem rmin_affine {k : Rat} (hk : 0 ≤ k) (c a b : Rat) :
    rmin (k * a + c) (k * b + c) = k * rmin a b + c := by
  rw [rmin_eq_min, rmin_eq_min, min_add_add_right, mul_min_of_nonneg _ _ hk]

theorem rabs_mul_left {k : Rat} (hk : 0 ≤ k) (a : Rat) : rabs (k * a) = k * rabs a := by
  rw [rabs_eq_abs, rabs_eq_abs, abs_mul, abs_of_nonneg hk]

theorem rmax_zero_mul {k : Rat} (hk : 0 ≤ k) (a : Rat) : rmax 0 (k * a) = k * rmax 0 a := by
  rw [rmax_eq_max, rmax_eq_max, mul_max_of_nonneg _ _ hk, mul_zero]

/-- a normalised extent `|r - l| / d` does not change under `u ↦ s*u + c` (with `d ↦ s*d`) -/
theorem normExtent_affine {s : Rat} (hs : 0 < s) (c l r d : Rat) :
    rabs ((s * r + c) - (s * l + c)) / (s * d) = rabs (r - l) / d := by
  rw [show (s * r + c) - (s * l + c) = s * (r - l) by ring, rabs_mul_left hs.le,
    mul_div_mul_left _ _ hs.ne']

/-! ### hull scans: only the sign of `ccw` matters -/

theorem popLower_congr (pt pt' : Nat → P2)
    (h : ∀ a b c, ccw (pt' a) (pt' b) (pt' c) ≤ 0 ↔ ccw (pt a) (pt b) (pt c) ≤ 0) (i : Nat) :
    ∀ st, popLower pt' i st = popLower pt i st := by
  intro st
  induction st with
  | nil => simp [popLower]
  | cons b st ih =>
    cases st with
    | nil => simp [popLower]
    | cons a rest =>
      simp only [popLower, h]
      split_ifs
      · exact ih
      · rfl

theorem popUpper_congr (pt pt' : Nat → P2)
    (h : ∀ a b c, ccw (pt' a) (pt' b) (pt' c) ≤ 0 ↔ ccw (pt a) (pt b) (pt c) ≤ 0) (i : Nat) :
    ∀ st, popUpper pt' i st = popUpper pt i st := by
  intro st
  induction st with
  | nil => simp [popUpper]
  | cons b st ih =>
    cases st with
    | nil => simp [popUpper]
    | cons a rest =>
      simp only [popUpper, h]
      split_ifs
      · exact ih
      · rfl

theorem hullLower_congr (pt pt' : Nat → P2)
    (h : ∀ a b c, ccw (pt' a) (pt' b) (pt' c) ≤ 0 ↔ ccw (pt a) (pt b) (pt c) ≤ 0) (n : Nat) :
    hullLower pt' n = hullLower pt n := by
  simp only [hullLower, popLower_congr pt pt' h]

theorem hullUpper_congr (pt pt' : Nat → P2)
    (h : ∀ a b c, ccw (pt' a) (pt' b) (pt' c) ≤ 0 ↔ ccw (pt a) (pt b) (pt c) ≤ 0) (n : Nat) :
    hullUpper pt' n = hullUpper pt n := by
  simp only [hullUpper, popUpper_congr pt pt' h]

/-! ### linkage: sums over index ranges, and the skeleton only asks for `start < i` -/

theorem sumRange_empty (f : Nat → Rat) (a b : Nat) (h : b ≤ a) : sumRange f a b = 0 := by
  unfold sumRange
  rw [Nat.sub_eq_zero_of_le h]; rfl

theorem sumRange_affine_add (s c : Rat) (f : Nat → Rat) (a : Nat) : ∀ k : Nat,
    sumRange (fun m => s * f m + c) a (a + k) = s * sumRange f a (a + k) + (k : Rat) * c := by
  intro k
  induction k with
  | zero => simp [sumRange_empty]
  | succ k ih =>
    rw [← Nat.add_assoc, sumRange_succ _ a (a + k) (by omega), sumRange_succ _ a (a + k) (by omega), ih]
    push_cast; ring

theorem sumRange_affine (s c : Rat) (f : Nat → Rat) (a b : Nat) :
    sumRange (fun m => s * f m + c) a b = s * sumRange f a b + ((b - a : Nat) : Rat) * c := by
  rcases Nat.le_total b a with h | h
  · simp [sumRange_empty _ a b h, Nat.sub_eq_zero_of_le h]
  · obtain ⟨k, rfl⟩ := Nat.exists_eq_add_of_le h
    simpa using sumRange_affine_add s c f a k

theorem meanRange_affine (s c : Rat) (x : Nat → Rat) (start i : Nat) (h : start < i) :
    meanRange (fun m => s * x m + c) start i = s * meanRange x start i + c := by
  have hk : ((i - start : Nat) : Rat) ≠ 0 := by
    have : 0 < i - start := by omega
    positivity
  simp only [meanRange, sumRange_affine]
  field_simp

/-- `linkGo` only ever asks for `dist start i` with `start < i` -/
theorem linkGo_congr (d d' : Nat → Nat → Rat) (t : Rat)
    (h : ∀ start i, start < i → d' start i = d start i) :
    ∀ fuel i start label, start < i →
      linkGo d' t fuel i start label = linkGo d t fuel i start label := by
  intro fuel
  induction fuel with
  | zero => intros; simp [linkGo]
  | succ f ih =>
    intro i s l hsi
    simp only [linkGo, h s i hsi]
    split
    · rw [ih (i + 1) i (l + 1) (by omega)]
    · rw [ih (i + 1) s l (by omega)]

theorem linkLabels_congr (d d' : Nat → Nat → Rat) (t : Rat) (n : Nat)
    (h : ∀ start i, start < i → d' start i = d start i) :
    linkLabels d' t n = linkLabels d t n := by
  simp only [linkLabels, linkGo_congr d d' t h _ 1 0 0 (by omega)]

theorem xrange_affine (s c : Rat) (x : Nat → Rat) (n : Nat) :
    (fun m => s * x m + c) (n - 1) - (fun m => s * x m + c) 0 = s * (x (n - 1) - x 0) := by
  ring

/-! ### list sums under element-wise maps -/

theorem sum_zipWith_map (f f' : Rat → Rat → Rat) (gA gB : Rat → Rat) (k : Rat)
    (h : ∀ a b, f' (gA a) (gB b) = k * f a b) :
    ∀ y yh : List Rat,
      (List.zipWith f' (y.map gA) (yh.map gB)).sum = k * (List.zipWith f y yh).sum := by
  intro y
  induction y with
  | nil => intro yh; simp
  | cons a y ih =>
    intro yh
    cases yh with
    | nil => simp
    | cons b yh =>
      simp only [List.map_cons, List.zipWith_cons_cons, List.sum_cons, h, ih yh]
      ring

theorem length_zipWith_map (f f' : Rat → Rat → Rat) (gA gB : Rat → Rat) (y yh : List Rat) :
    (List.zipWith f' (y.map gA) (yh.map gB)).length = (List.zipWith f y yh).length := by
  simp

theorem sum_map_map (f f' g : Rat → Rat) (k : Rat) (h : ∀ a, f' (g a) = k * f a) :
    ∀ l : List Rat, ((l.map g).map f').sum = k * (l.map f).sum := by
  intro l
  induction l with
  | nil => simp
  | cons a l ih => simp only [List.map_cons, List.sum_cons, h, ih]; ring

theorem sum_map_affineQ (s c : Rat) : ∀ l : List Rat,
    (l.map fun v => s * v + c).sum = s * l.sum + (l.length : Rat) * c := by
  intro l
  induction l with
  | nil => simp
  | cons a l ih => simp only [List.map_cons, List.sum_cons, List.length_cons, ih]; push_cast; ring

theorem meanQ_affine (s c : Rat) (l : List Rat) (hl : l ≠ []) :
    meanQ (l.map fun v => s * v + c) = s * meanQ l + c := by
  have hn : (l.length : Rat) ≠ 0 := by
    have : 0 < l.length := List.length_pos_iff.2 hl
    positivity
  simp only [meanQ, sum_map_affineQ, List.length_map]
  field_simp

theorem meanQ_zipWith_map (f f' : Rat → Rat → Rat) (g : Rat → Rat)
    (h : ∀ a b, f' (g a) (g b) = f a b) (y yh : List Rat) :
    meanQ (List.zipWith f' (y.map g) (yh.map g)) = meanQ (List.zipWith f y yh) := by
  unfold meanQ
  rw [sum_zipWith_map f f' g g 1 (fun a b => by rw [h, one_mul]) y yh, one_mul,
    length_zipWith_map f]

/-! ### the eps-guarded ratio metrics with the guard as a parameter -/

/-- `smapeQ` with the absolute guard `eps` as a parameter -/
def smapeE (e : Rat) (y yh : List Rat) : Rat :=
  meanQ (List.zipWith (fun a b => 2 * rabs (b - a) / (rabs a + rabs b + e)) y yh)

/-- `rpdQ` with the absolute guard `eps` as a parameter -/
def rpdE (e : Rat) (y yh : List Rat) : Rat :=
  meanQ (List.zipWith (fun a b => rabs ((a - b) / ((if a ≤ b then b else a) + e))) y yh)

/-- `rmspeSq` with the absolute guard `eps` as a parameter -/
def rmspeSqE (e : Rat) (y yh : List Rat) : Rat :=
  meanQ (List.zipWith (fun a b => ((a - b) / (a + e)) * ((a - b) / (a + e))) y yh)

theorem smapeQ_eq : smapeQ = smapeE epsM := rfl
theorem rpdQ_eq : rpdQ = rpdE epsM := rfl
theorem rmspeSq_eq : rmspeSq = rmspeSqE epsM := rfl

/-! ### Kneedle: minimum / maximum / head / last of a mapped list -/

theorem foldl_min_map (g : Rat → Rat) (hg : ∀ a b, g b < g a ↔ b < a) : ∀ (l : List Rat) (init : Rat),
    (l.map g).foldl (fun a b => if b < a then b else a) (g init)
      = g (l.foldl (fun a b => if b < a then b else a) init) := by
  intro l
  induction l with
  | nil => intro init; rfl
  | cons v l ih =>
    intro init
    simp only [List.map_cons, List.foldl_cons, hg]
    split_ifs
    · exact ih v
    · exact ih init

theorem foldl_max_map (g : Rat → Rat) (hg : ∀ a b, g a < g b ↔ a < b) : ∀ (l : List Rat) (init : Rat),
    (l.map g).foldl (fun a b => if a < b then b else a) (g init)
      = g (l.foldl (fun a b => if a < b then b else a) init) := by
  intro l
  induction l with
  | nil => intro init; rfl
  | cons v l ih =>
    intro init
    simp only [List.map_cons, List.foldl_cons, hg]
    split_ifs
    · exact ih v
    · exact ih init

theorem listMinQ_map (g : Rat → Rat) (hg : ∀ a b, g b < g a ↔ b < a) (l : List Rat) (hl : l ≠ []) :
    listMinQ (l.map g) = g (listMinQ l) := by
  cases l with
  | nil => exact absurd rfl hl
  | cons a l => exact foldl_min_map g hg (a :: l) a

theorem listMaxQ_map (g : Rat → Rat) (hg : ∀ a b, g a < g b ↔ a < b) (l : List Rat) (hl : l ≠ []) :
    listMaxQ (l.map g) = g (listMaxQ l) := by
  cases l with
  | nil => exact absurd rfl hl
  | cons a l => exact foldl_max_map g hg (a :: l) a

theorem foldl_min_le : ∀ (l : List Rat) (init : Rat),
    l.foldl (fun a b => if b < a then b else a) init ≤ init ∧
      ∀ v ∈ l, l.foldl (fun a b => if b < a then b else a) init ≤ v := by
  intro l
  induction l with
  | nil => intro init; simp
  | cons w l ih =>
    intro init
    simp only [List.foldl_cons, List.mem_cons, forall_eq_or_imp]
    split_ifs with h
    · obtain ⟨h1, h2⟩ := ih w
      exact ⟨by linarith, h1, h2⟩
    · obtain ⟨h1, h2⟩ := ih init
      exact ⟨h1, by linarith, h2⟩

theorem le_foldl_max : ∀ (l : List Rat) (init : Rat),
    init ≤ l.foldl (fun a b => if a < b then b else a) init ∧
      ∀ v ∈ l, v ≤ l.foldl (fun a b => if a < b then b else a) init := by
  intro l
  induction l with
  | nil => intro init; simp
  | cons w l ih =>
    intro init
    simp only [List.foldl_cons, List.mem_cons, forall_eq_or_imp]
    split_ifs with h
    · obtain ⟨h1, h2⟩ := ih w
      exact ⟨by linarith, h1, h2⟩
    · obtain ⟨h1, h2⟩ := ih init
      exact ⟨h1, by linarith, h2⟩

theorem listMinQ_le (l : List Rat) : ∀ v ∈ l, listMinQ l ≤ v := (foldl_min_le l _).2
theorem le_listMaxQ (l : List Rat) : ∀ v ∈ l, v ≤ listMaxQ l := (le_foldl_max l _).2

theorem head?_getD_map (g : Rat → Rat) (l : List Rat) (hl : l ≠ []) :
    (l.map g).head?.getD 0 = g (l.head?.getD 0) := by
  cases l with
  | nil => exact absurd rfl hl
  | cons a l => rfl

theorem getLast?_getD_map (g : Rat → Rat) (l : List Rat) (hl : l ≠ []) :
    (l.map g).getLast?.getD 0 = g (l.getLast?.getD 0) := by
  rw [List.getLast?_map]
  cases h : l.getLast? with
  | none => exact absurd (List.getLast?_eq_none_iff.1 h) hl
  | some a => rfl

end Knee

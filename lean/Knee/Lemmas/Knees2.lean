import Knee.Model.Knees2
import Knee.Lemmas.Filters
import Knee.Lemmas.Argmax
/-!
Helper lemmas for `Knee/Model/Knees2.lean` (`zmethod.knees2`, `zmethod.map_index`), used by `Props/X02.lean`.
-/
namespace Knee

/-! ### `np.array_equal` -/

theorem allEq_iff : ∀ (a b : List Nat), a.length = b.length → (allEq a b = true ↔ a = b)
  | [], [], _ => by simp [allEq]
  | [], _ :: _, h => by simp at h
  | _ :: _, [], h => by simp at h
  | x :: xs, y :: ys, h => by
    have hl : xs.length = ys.length := by simpa using h
    simp [allEq, allEq_iff xs ys hl]

theorem arrayEqual_iff (a b : List Nat) : arrayEqual a b = true ↔ a = b := by
  unfold arrayEqual
  by_cases h : a.length = b.length
  · simp [h, allEq_iff a b h]
  · have : a ≠ b := fun e => h (by rw [e])
    simp [h, this]

/-! ### one round -/

theorem refineRound_sublist (near : Nat → Nat → Bool) (score : List Nat → List Rat) (c : List Nat) :
    (refineRound near score c).Sublist c := List.filter_sublist

theorem refineRound_eq_or_lt (near : Nat → Nat → Bool) (score : List Nat → List Rat) (c : List Nat) :
    refineRound near score c = c ∨ (refineRound near score c).length < c.length := by
  have hs := refineRound_sublist near score c
  by_cases h : (refineRound near score c).length < c.length
  · exact Or.inr h
  · exact Or.inl (hs.eq_of_length_le (by omega))

theorem survives_iff (near : Nat → Nat → Bool) (score : List Nat → List Rat) (c : List Nat) (i : Nat) :
    survives near score c i = true ↔
      neighbourhood near c i = [i] ∨
      (2 ≤ (neighbourhood near c i).length ∧
        (neighbourhood near c i)[argmaxIdx (score (neighbourhood near c i))]? = some i) := by
  unfold survives
  generalize neighbourhood near c i = n
  match n with
  | [] => simp
  | [a] => simp
  | a :: b :: rest => simp

/-! ### the loop -/

/-- whatever the fuel: a returned value is a fixed point reached by shrinking rounds -/
theorem refineLoop_some (near : Nat → Nat → Bool) (score : List Nat → List Rat) :
    ∀ (fuel k0 : Nat) (c r : List Nat) (k : Nat) (tr : List (List Nat)),
      refineLoop near score fuel k0 c = some (r, k, tr) →
      r.Sublist c ∧ refineRound near score r = r ∧ k0 + 1 ≤ k ∧ k + r.length ≤ k0 + c.length + 1 ∧
      tr = (List.range (k - k0)).map (fun j => iterRound near score (j) c) ∧
      r = iterRound near score (k - k0 - 1) c ∧
      (∀ j, j + 1 < k - k0 →
        (iterRound near score (j + 1) c).length < (iterRound near score (j) c).length) := by
  intro fuel
  induction fuel with
  | zero => intro k0 c r k tr h; simp [refineLoop] at h
  | succ f ih =>
    intro k0 c r k tr h
    simp only [refineLoop] at h
    by_cases he : arrayEqual (refineRound near score c) c = true
    · rw [if_pos he] at h
      simp only [Option.some.injEq, Prod.mk.injEq] at h
      obtain ⟨h1, h2, h3⟩ := h
      subst h1 h2 h3
      have hk : k0 + 1 - k0 = 1 := by omega
      refine ⟨List.Sublist.refl _, (arrayEqual_iff _ _).1 he, by omega, by omega, ?_, ?_, ?_⟩
      · rw [hk]; rfl
      · rw [hk]; rfl
      · intro j hj; omega
    · rw [if_neg he] at h
      have hne : refineRound near score c ≠ c := fun e => he ((arrayEqual_iff _ _).2 e)
      have hlt : (refineRound near score c).length < c.length :=
        (refineRound_eq_or_lt near score c).resolve_left hne
      cases hrec : refineLoop near score f (k0 + 1) (refineRound near score c) with
      | none => rw [hrec] at h; simp at h
      | some res =>
        obtain ⟨r', k', tr'⟩ := res
        rw [hrec] at h
        simp only [Option.some.injEq, Prod.mk.injEq] at h
        obtain ⟨h1, h2, h3⟩ := h
        subst h1 h2 h3
        obtain ⟨i1, i2, i3, i4, i5, i6, i7⟩ := ih (k0 + 1) _ _ _ _ hrec
        have hk : k' - k0 = (k' - (k0 + 1)) + 1 := by omega
        refine ⟨i1.trans (refineRound_sublist near score c), i2, by omega, by omega, ?_, ?_, ?_⟩
        · rw [hk, List.range_succ_eq_map, List.map_cons, List.map_map, i5]
          rfl
        · have hk2 : k' - k0 - 1 = (k' - (k0 + 1) - 1) + 1 := by omega
          rw [hk2, i6]
          rfl
        · intro j hj
          cases j with
          | zero => exact hlt
          | succ j => exact i7 j (by omega)

/-- the fuel `len(candidates) + 1` (or more) is never exhausted -/
theorem refineLoop_isSome (near : Nat → Nat → Bool) (score : List Nat → List Rat) :
    ∀ (fuel k0 : Nat) (c : List Nat), c.length < fuel →
      (refineLoop near score fuel k0 c).isSome = true := by
  intro fuel
  induction fuel with
  | zero => intro k0 c h; omega
  | succ f ih =>
    intro k0 c h
    simp only [refineLoop]
    by_cases he : arrayEqual (refineRound near score c) c = true
    · rw [if_pos he]; rfl
    · rw [if_neg he]
      have hne : refineRound near score c ≠ c := fun e => he ((arrayEqual_iff _ _).2 e)
      have hlt : (refineRound near score c).length < c.length :=
        (refineRound_eq_or_lt near score c).resolve_left hne
      have := ih (k0 + 1) (refineRound near score c) (by omega)
      cases hrec : refineLoop near score f (k0 + 1) (refineRound near score c) with
      | none => rw [hrec] at this; simp at this
      | some res => obtain ⟨r', k', tr'⟩ := res; rfl

/-- more fuel than needed changes nothing -/
theorem refineLoop_fuel_mono (near : Nat → Nat → Bool) (score : List Nat → List Rat) :
    ∀ (fuel k0 : Nat) (c : List Nat) (res : List Nat × Nat × List (List Nat)),
      refineLoop near score fuel k0 c = some res →
      ∀ fuel', fuel ≤ fuel' → refineLoop near score fuel' k0 c = some res := by
  intro fuel
  induction fuel with
  | zero => intro k0 c res h; simp [refineLoop] at h
  | succ f ih =>
    intro k0 c res h fuel' hle
    obtain ⟨g, rfl⟩ : ∃ g, fuel' = g + 1 := ⟨fuel' - 1, by omega⟩
    simp only [refineLoop] at h ⊢
    by_cases he : arrayEqual (refineRound near score c) c = true
    · rw [if_pos he] at h ⊢; exact h
    · rw [if_neg he] at h ⊢
      cases hrec : refineLoop near score f (k0 + 1) (refineRound near score c) with
      | none => rw [hrec] at h; simp at h
      | some res' =>
        rw [ih _ _ _ hrec g (by omega)]
        rw [hrec] at h
        exact h

/-! ### candidate selection -/

theorem mem_outlierCandidates (v : List Rat) (z : Rat) (i : Nat) :
    i ∈ outlierCandidates v z ↔ i < v.length ∧ z ≤ v[i]?.getD 0 := by
  simp [outlierCandidates, List.mem_filter, List.mem_range]

theorem outlierCandidates_sublist (v : List Rat) (z : Rat) :
    (outlierCandidates v z).Sublist (List.range v.length) := List.filter_sublist

theorem outlierCandidates_increasing (v : List Rat) (z : Rat) :
    (outlierCandidates v z).Pairwise (· < ·) :=
  List.pairwise_lt_range.sublist (outlierCandidates_sublist v z)

/-! ### `rank_corners` -/

theorem rankCornersGo_length (dxf : Nat → Nat → Rat) (prev : Nat) (ks : List Nat) :
    (rankCornersGo dxf prev ks).length = ks.length := by
  induction ks generalizing prev with
  | nil => rfl
  | cons k ks ih => simp [rankCornersGo, ih]

theorem rankCorners_length (dxf : Nat → Nat → Rat) (ks : List Nat) :
    (rankCorners dxf ks).length = ks.length := rankCornersGo_length dxf 0 ks

theorem rankCornersGo_getElem (dxf : Nat → Nat → Rat) (prev : Nat) (ks : List Nat) (q : Nat)
    (hq : q < ks.length) :
    (rankCornersGo dxf prev ks)[q]?.getD 0 =
      dxf (ks[q]?.getD 0) (if q = 0 then prev else ks[q - 1]?.getD 0) := by
  induction ks generalizing prev q with
  | nil => simp at hq
  | cons k ks ih =>
    cases q with
    | zero => simp [rankCornersGo]
    | succ q =>
      have hq' : q < ks.length := by simpa using hq
      simp only [rankCornersGo, List.getElem?_cons_succ, Nat.add_sub_cancel]
      rw [ih k q hq']
      cases q with
      | zero => simp
      | succ q => simp

/-! ### `searchsorted` -/

theorem bisectLeft_spec (key : Nat → Rat) (v : Rat) (N : Nat)
    (hmono : ∀ p q, p ≤ q → q < N → key p ≤ key q) :
    ∀ (fuel lo hi : Nat), lo ≤ hi → hi ≤ N → hi - lo < fuel →
      (∀ j, j < lo → key j < v) → (∀ j, hi ≤ j → j < N → v ≤ key j) →
      lo ≤ bisectLeft key v fuel lo hi ∧ bisectLeft key v fuel lo hi ≤ hi ∧
      (∀ j, j < bisectLeft key v fuel lo hi → key j < v) ∧
      (∀ j, bisectLeft key v fuel lo hi ≤ j → j < N → v ≤ key j) := by
  intro fuel
  induction fuel with
  | zero => intro lo hi _ _ h; omega
  | succ f ih =>
    intro lo hi h1 h2 h3 h4 h5
    simp only [bisectLeft]
    by_cases hlt : lo < hi
    · rw [if_pos hlt]
      have hm1 : lo ≤ lo + (hi - lo) / 2 := by omega
      have hm2 : lo + (hi - lo) / 2 < hi := by omega
      by_cases hk : key (lo + (hi - lo) / 2) < v
      · rw [if_pos hk]
        have := ih (lo + (hi - lo) / 2 + 1) hi (by omega) h2 (by omega)
          (by
            intro j hj
            have hle : key j ≤ key (lo + (hi - lo) / 2) := hmono j _ (by omega) (by omega)
            grind)
          h5
        refine ⟨by omega, this.2.1, this.2.2.1, this.2.2.2⟩
      · rw [if_neg hk]
        have := ih lo (lo + (hi - lo) / 2) (by omega) (by omega) (by omega) h4
          (by
            intro j hj hjN
            have hle : key (lo + (hi - lo) / 2) ≤ key j := hmono _ j hj hjN
            grind)
        refine ⟨this.1, by omega, this.2.2.1, this.2.2.2⟩
    · rw [if_neg hlt]
      have : lo = hi := by omega
      subst this
      exact ⟨Nat.le_refl _, Nat.le_refl _, h4, h5⟩

end Knee

import Knee.Model.LMethodQ
import Knee.Lemmas.ElbowA
import Knee.Props.C03A
/-!
Helper lemmas for `Props/C03D.lean`: the L-method error of every Fit × Cost option
(`lmErrGen`) on an exact two-slope elbow, on the full curve and on every prefix that still
contains three points of the right arm, and the refinement loops on such a curve.
-/
namespace Knee

/-! ## 1. Sums over index lists -/

theorem sum_map_congr {f g : Nat → Rat} : ∀ L : List Nat, (∀ k ∈ L, f k = g k) →
    (L.map f).sum = (L.map g).sum := by
  intro L
  induction L with
  | nil => intro _; rfl
  | cons a L ih =>
    intro h
    simp only [List.map_cons, List.sum_cons]
    rw [h a (by simp), ih (fun k hk => h k (by simp [hk]))]

theorem sum_map_zero : ∀ L : List Nat, (L.map fun _ => (0 : Rat)).sum = 0 := by
  intro L
  induction L with
  | nil => rfl
  | cons a L ih => simp only [List.map_cons, List.sum_cons, ih, add_zero]

theorem sum_map_affine (f : Nat → Rat) (a s : Rat) : ∀ L : List Nat,
    (L.map fun k => a + s * f k).sum = (L.length : Rat) * a + s * (L.map f).sum := by
  intro L
  induction L with
  | nil => simp
  | cons b L ih =>
    simp only [List.map_cons, List.sum_cons, ih, List.length_cons, Nat.cast_add, Nat.cast_one]
    ring

theorem sum_map_smul (f : Nat → Rat) (s : Rat) : ∀ L : List Nat,
    (L.map fun k => s * f k).sum = s * (L.map f).sum := by
  intro L
  induction L with
  | nil => simp
  | cons b L ih =>
    simp only [List.map_cons, List.sum_cons, ih]
    ring

theorem sum_map_sq_nonneg (f : Nat → Rat) : ∀ L : List Nat, 0 ≤ (L.map fun k => f k * f k).sum := by
  intro L
  induction L with
  | nil => simp
  | cons b L ih =>
    simp only [List.map_cons, List.sum_cons]
    have := mul_self_nonneg (f b)
    linarith

/-- a vanishing sum of squares has only vanishing terms -/
theorem sum_map_sq_eq_zero (f : Nat → Rat) : ∀ L : List Nat, (L.map fun k => f k * f k).sum = 0 →
    ∀ k ∈ L, f k = 0 := by
  intro L
  induction L with
  | nil => intro _ k hk; simp at hk
  | cons b L ih =>
    intro h k hk
    simp only [List.map_cons, List.sum_cons] at h
    have h1 := mul_self_nonneg (f b)
    have h2 := sum_map_sq_nonneg f L
    have hb : f b * f b = 0 := by linarith
    have hL : (L.map fun k => f k * f k).sum = 0 := by linarith
    rcases List.mem_cons.mp hk with e | hkL
    · rw [e]; exact mul_self_eq_zero.mp hb
    · exact ih hL k hkL

/-! ## 2. Least squares -/

/-- the least-squares residual over an index list, term by term -/
theorem olsRss_map (x y : Nat → Rat) (L : List Nat) :
    olsRss (L.map x) (L.map y) =
      (L.map fun k =>
        (y k - meanQ (L.map y) -
            (L.map fun k => (x k - meanQ (L.map x)) * (y k - meanQ (L.map y))).sum /
              (L.map fun k => (x k - meanQ (L.map x)) * (x k - meanQ (L.map x))).sum *
            (x k - meanQ (L.map x))) *
        (y k - meanQ (L.map y) -
            (L.map fun k => (x k - meanQ (L.map x)) * (y k - meanQ (L.map y))).sum /
              (L.map fun k => (x k - meanQ (L.map x)) * (x k - meanQ (L.map x))).sum *
            (x k - meanQ (L.map x)))).sum := by
  unfold olsRss
  simp only [List.zipWith_map, List.zipWith_self, List.map_map]
  rfl

theorem olsRss_nonneg (xs ys : List Rat) : 0 ≤ olsRss xs ys := by
  unfold olsRss
  exact zipWith_sum_nonneg _ (fun a b => mul_self_nonneg _) xs ys

/-- `Σ (x − mean x)² > 0` as soon as two abscissae differ -/
theorem sxx_pos (x : Nat → Rat) (L : List Nat) (p q : Nat) (hp : p ∈ L) (hq : q ∈ L)
    (hne : x p ≠ x q) :
    0 < (L.map fun k => (x k - meanQ (L.map x)) * (x k - meanQ (L.map x))).sum := by
  have hnn := sum_map_sq_nonneg (fun k => x k - meanQ (L.map x)) L
  rcases lt_or_eq_of_le hnn with h | h
  · exact h
  · exfalso
    have hz := sum_map_sq_eq_zero (fun k => x k - meanQ (L.map x)) L h.symm
    have h1 := hz p hp
    have h2 := hz q hq
    apply hne
    linarith

/-- the mean of collinear ordinates lies on the line -/
theorem meanQ_collinear (x y : Nat → Rat) (a s : Rat) (L : List Nat) (hne : L ≠ [])
    (hline : ∀ k ∈ L, y k = a + s * x k) :
    meanQ (L.map y) = a + s * meanQ (L.map x) := by
  have hlen : ((L.length : Nat) : Rat) ≠ 0 := by
    have : 0 < L.length := List.length_pos_iff.mpr hne
    exact_mod_cast (Nat.pos_iff_ne_zero.mp this)
  unfold meanQ
  rw [sum_map_congr (f := y) (g := fun k => a + s * x k) L hline, sum_map_affine]
  simp only [List.length_map]
  field_simp

/-- **least squares on collinear points**: the residual vanishes -/
theorem olsRss_collinear (x y : Nat → Rat) (a s : Rat) (L : List Nat) (p q : Nat)
    (hp : p ∈ L) (hq : q ∈ L) (hne : x p ≠ x q) (hline : ∀ k ∈ L, y k = a + s * x k) :
    olsRss (L.map x) (L.map y) = 0 := by
  have hL : L ≠ [] := by intro e; rw [e] at hp; simp at hp
  have hmy := meanQ_collinear x y a s L hL hline
  have hsxx := sxx_pos x L p q hp hq hne
  have hsxy : (L.map fun k => (x k - meanQ (L.map x)) * (y k - meanQ (L.map y))).sum =
      s * (L.map fun k => (x k - meanQ (L.map x)) * (x k - meanQ (L.map x))).sum := by
    rw [← sum_map_smul]
    apply sum_map_congr
    intro k hk
    rw [hmy, hline k hk]
    ring
  rw [olsRss_map, hsxy, mul_div_assoc, div_self (ne_of_gt hsxx), mul_one]
  rw [sum_map_congr (g := fun _ => (0 : Rat)) L, sum_map_zero]
  intro k hk
  rw [hmy, hline k hk]
  ring

/-- a vanishing least-squares residual puts every point on the fitted line -/
theorem olsRss_zero_on_line (x y : Nat → Rat) (L : List Nat) (h : olsRss (L.map x) (L.map y) = 0) :
    ∃ m b : Rat, ∀ k ∈ L, y k = x k * m + b := by
  rw [olsRss_map] at h
  refine ⟨(L.map fun k => (x k - meanQ (L.map x)) * (y k - meanQ (L.map y))).sum /
      (L.map fun k => (x k - meanQ (L.map x)) * (x k - meanQ (L.map x))).sum,
    meanQ (L.map y) - (L.map fun k => (x k - meanQ (L.map x)) * (y k - meanQ (L.map y))).sum /
      (L.map fun k => (x k - meanQ (L.map x)) * (x k - meanQ (L.map x))).sum * meanQ (L.map x), ?_⟩
  intro k hk
  have := sum_map_sq_eq_zero _ L h k hk
  linarith

/-- **least squares on three non-collinear points**: the residual is positive -/
theorem olsRss_pos_of_not_collinear (x y : Nat → Rat) (s1 s2 : Rat) (L : List Nat) (p q r : Nat)
    (hp : p ∈ L) (hq : q ∈ L) (hr : r ∈ L) (h1 : x p < x q) (h2 : x q < x r) (hs : s1 ≠ s2)
    (e1 : y p = y q + s1 * (x p - x q)) (e3 : y r = y q + s2 * (x r - x q)) :
    0 < olsRss (L.map x) (L.map y) := by
  rcases lt_or_eq_of_le (olsRss_nonneg (L.map x) (L.map y)) with h | h
  · exact h
  · exfalso
    obtain ⟨m, b, hline⟩ := olsRss_zero_on_line x y L h.symm
    exact off_chord s1 s2 (x p) (x q) (x r) (y p) (y q) (y r) m b h1 h2 hs e1 e3
      (hline p hp).symm (hline r hr).symm (hline q hq)

/-! ## 3. The general split error: one-side residual and cost combination -/

/-- residual of one side of the split: least-squares (`bestfit`) or end-point fit -/
def lmResid (bestfit : Bool) (xs ys : List Rat) : Rat :=
  if bestfit then olsRss xs ys else rssQ ys (lineQ xs (fitQ xs ys))

/-- the cost combination of `compute_error`: RMSE-like or RSS -/
def lmCost (sq : Rat → Rat) (rmse : Bool) (lr rr rl rrt : Rat) : Rat :=
  if rmse then lr * sq (rl * lr) + rr * sq (rr * rrt) else rl * lr + rrt * rr

/-- the split error written over index lists -/
theorem lmErrGen_eq (sq : Rat → Rat) (bestfit rmse : Bool) (x y : Nat → Rat) (len i : Nat)
    (hi : i < len) :
    lmErrGen sq bestfit rmse x y len i =
      lmCost sq rmse ((x i - x 0) / (x (len - 1) - x 0)) ((x (len - 1) - x i) / (x (len - 1) - x 0))
        (lmResid bestfit ((List.range (i + 1)).map x) ((List.range (i + 1)).map y))
        (lmResid bestfit ((List.range' i (len - i)).map x) ((List.range' i (len - i)).map y)) := by
  have ht : (List.range len).take (i + 1) = List.range (i + 1) := by
    rw [List.take_range, Nat.min_eq_left (by omega)]
  have hd : (List.range len).drop i = List.range' i (len - i) := by
    rw [List.range_eq_range', List.drop_range']; simp
  unfold lmErrGen lmCost lmResid
  simp only [← List.map_take, ← List.map_drop, ht, hd]

theorem sq_nonneg_of {sq : Rat → Rat} (hsq0 : sq 0 = 0) (hsqpos : ∀ v, 0 < v → 0 < sq v) (v : Rat)
    (hv : 0 ≤ v) : 0 ≤ sq v := by
  rcases lt_or_eq_of_le hv with h | h
  · exact (hsqpos v h).le
  · rw [← h, hsq0]

theorem lmCost_zero {sq : Rat → Rat} (hsq0 : sq 0 = 0) (rmse : Bool) (lr rr : Rat) :
    lmCost sq rmse lr rr 0 0 = 0 := by
  unfold lmCost
  cases rmse
  · simp
  · simp [hsq0]

theorem lmCost_pos {sq : Rat → Rat} (hsq0 : sq 0 = 0) (hsqpos : ∀ v, 0 < v → 0 < sq v)
    (rmse : Bool) (lr rr rl rrt : Rat) (hlr : 0 < lr) (hrr : 0 < rr) (hrl : 0 ≤ rl) (hrrt : 0 ≤ rrt)
    (hpos : 0 < rl ∨ 0 < rrt) : 0 < lmCost sq rmse lr rr rl rrt := by
  unfold lmCost
  cases rmse
  · simp only [Bool.false_eq_true, if_false]
    have a1 := mul_nonneg hrl hlr.le
    have a2 := mul_nonneg hrrt hrr.le
    rcases hpos with h | h
    · have := mul_pos h hlr; linarith
    · have := mul_pos h hrr; linarith
  · simp only [if_true]
    have a1 := mul_nonneg hlr.le (sq_nonneg_of hsq0 hsqpos _ (mul_nonneg hrl hlr.le))
    have a2 := mul_nonneg hrr.le (sq_nonneg_of hsq0 hsqpos _ (mul_nonneg hrr.le hrrt))
    rcases hpos with h | h
    · have := mul_pos hlr (hsqpos _ (mul_pos h hlr)); linarith
    · have := mul_pos hrr (hsqpos _ (mul_pos hrr h)); linarith

theorem lmResid_nonneg (bestfit : Bool) (xs ys : List Rat) : 0 ≤ lmResid bestfit xs ys := by
  unfold lmResid
  cases bestfit
  · simp only [Bool.false_eq_true, if_false]; exact rss_nonneg _ _
  · simp only [if_true]; exact olsRss_nonneg _ _

/-- both fits reproduce a straight side exactly -/
theorem lmResid_zero (bestfit : Bool) (x y : Nat → Rat) (a s : Rat) (L : List Nat) (i0 il : Nat)
    (hh : L.head? = some i0) (hl : L.getLast? = some il) (hne : x i0 ≠ x il)
    (hline : ∀ k ∈ L, y k = a + s * x k) :
    lmResid bestfit (L.map x) (L.map y) = 0 := by
  unfold lmResid
  cases bestfit
  · simp only [Bool.false_eq_true, if_false]
    exact rss_fit_zero x y a s L i0 il hh hl hne hline
  · simp only [if_true]
    exact olsRss_collinear x y a s L i0 il (List.mem_of_mem_head? hh) (List.mem_of_mem_getLast? hl)
      hne hline

/-- both fits leave a positive residual on a side that contains the corner in its interior -/
theorem lmResid_pos (bestfit : Bool) (x y : Nat → Rat) (s1 s2 : Rat) (L : List Nat) (i0 il k : Nat)
    (hh : L.head? = some i0) (hl : L.getLast? = some il) (hk : k ∈ L)
    (h1 : x i0 < x k) (h2 : x k < x il) (hs : s1 ≠ s2)
    (e1 : y i0 = y k + s1 * (x i0 - x k)) (e3 : y il = y k + s2 * (x il - x k)) :
    0 < lmResid bestfit (L.map x) (L.map y) := by
  unfold lmResid
  cases bestfit
  · simp only [Bool.false_eq_true, if_false]
    exact rss_fit_pos x y s1 s2 L i0 il k hh hl hk h1 h2 hs e1 e3
  · simp only [if_true]
    exact olsRss_pos_of_not_collinear x y s1 s2 L i0 k il (List.mem_of_mem_head? hh) hk
      (List.mem_of_mem_getLast? hl) h1 h2 hs e1 e3

/-! ## 4. The general split error on a prefix of an elbow -/

section elbow
variable {x y : Nat → Rat} {n c : Nat} {s1 s2 : Rat}

/-- on every prefix with at least three right-arm points the split at the corner costs `0` -/
theorem IsElbow.lmErrGen_corner (h : IsElbow x y n c s1 s2) {sq : Rat → Rat} (hsq0 : sq 0 = 0)
    (bestfit rmse : Bool) (len : Nat) (hc : c + 3 ≤ len) (hn : len ≤ n) :
    lmErrGen sq bestfit rmse x y len c = 0 := by
  have h1 := h.arm1
  rw [lmErrGen_eq sq bestfit rmse x y len c (by omega)]
  have hL := lmResid_zero bestfit x y (y 0 - s1 * x 0) s1 (List.range (c + 1)) 0 c
    (by simp [List.head?_range]) (by simp [List.getLast?_range])
    (h.ne (by omega) (by omega))
    (fun k hk => h.left_line k (by have := List.mem_range.mp hk; omega))
  have hR := lmResid_zero bestfit x y (y c - s2 * x c) s2 (List.range' c (len - c)) c (len - 1)
    (by rw [List.head?_range', if_neg (by omega)])
    (by rw [List.getLast?_range', if_neg (by omega)]; congr 1; omega)
    (h.ne (by omega) (by omega))
    (fun k hk => by
      have := List.mem_range'_1.mp hk
      exact h.right_line k (by omega) (by omega))
  rw [hL, hR]
  exact lmCost_zero hsq0 rmse _ _

/-- … and every other admissible split `2 ≤ i ≤ len - 3` costs strictly more -/
theorem IsElbow.lmErrGen_off (h : IsElbow x y n c s1 s2) {sq : Rat → Rat} (hsq0 : sq 0 = 0)
    (hsqpos : ∀ v, 0 < v → 0 < sq v) (bestfit rmse : Bool) (len : Nat) (hc : c + 3 ≤ len)
    (hn : len ≤ n) (i : Nat) (hi2 : 2 ≤ i) (hin : i + 3 ≤ len) (hic : i ≠ c) :
    0 < lmErrGen sq bestfit rmse x y len i := by
  have h1 := h.arm1
  rw [lmErrGen_eq sq bestfit rmse x y len i (by omega)]
  have hlen : 0 < x (len - 1) - x 0 := by
    have := h.lt (i := 0) (j := len - 1) (by omega) (by omega); linarith
  have hwl : 0 < (x i - x 0) / (x (len - 1) - x 0) := by
    apply div_pos _ hlen
    have := h.lt (i := 0) (j := i) (by omega) (by omega); linarith
  have hwr : 0 < (x (len - 1) - x i) / (x (len - 1) - x 0) := by
    apply div_pos _ hlen
    have := h.lt (i := i) (j := len - 1) (by omega) (by omega); linarith
  apply lmCost_pos hsq0 hsqpos rmse _ _ _ _ hwl hwr (lmResid_nonneg _ _ _) (lmResid_nonneg _ _ _)
  rcases Nat.lt_or_gt_of_ne hic with hlt | hgt
  · -- the corner is strictly inside the right part
    right
    exact lmResid_pos bestfit x y s1 s2 (List.range' i (len - i)) i (len - 1) c
      (by rw [List.head?_range', if_neg (by omega)])
      (by rw [List.getLast?_range', if_neg (by omega)]; congr 1; omega)
      (List.mem_range'_1.mpr (by omega))
      (h.lt hlt (by omega)) (h.lt (by omega) (by omega)) h.slopes
      (h.left_corner i (by omega)) (h.right (len - 1) (by omega) (by omega))
  · -- the corner is strictly inside the left part
    left
    exact lmResid_pos bestfit x y s1 s2 (List.range (i + 1)) 0 i c
      (by simp [List.head?_range]) (by simp [List.getLast?_range])
      (List.mem_range.mpr (by omega))
      (h.lt (by omega) (by omega)) (h.lt hgt (by omega)) h.slopes
      (h.left_corner 0 (by omega)) (h.right i (by omega) (by omega))

theorem lmErrsGen_length (sq : Rat → Rat) (bestfit rmse : Bool) (x y : Nat → Rat) (len : Nat) :
    (lmErrsGen sq bestfit rmse x y len).length = len - 4 := by simp [lmErrsGen]

theorem lmErrsGen_getD (sq : Rat → Rat) (bestfit rmse : Bool) (x y : Nat → Rat) (len k : Nat)
    (hk : k < len - 4) :
    (lmErrsGen sq bestfit rmse x y len)[k]?.getD 0 = lmErrGen sq bestfit rmse x y len (k + 2) :=
  map_range_getD (fun k => lmErrGen sq bestfit rmse x y len (k + 2)) (len - 4) k hk

/-- one scan on a prefix with at least three right-arm points returns the corner -/
theorem IsElbow.scan_prefix (h : IsElbow x y n c s1 s2) {sq : Rat → Rat} (hsq0 : sq 0 = 0)
    (hsqpos : ∀ v, 0 < v → 0 < sq v) (bestfit rmse : Bool) (len : Nat) (hc : c + 3 ≤ len)
    (hn : len ≤ n) : lmethodScan (lmErrsGen sq bestfit rmse x y len) = c := by
  have h1 := h.arm1
  have hlen := lmErrsGen_length sq bestfit rmse x y len
  unfold lmethodScan
  have := argminIdx_unique_zero (l := lmErrsGen sq bestfit rmse x y len) (k := c - 2)
    (by
      intro j hj hjc
      rw [hlen] at hj
      rw [lmErrsGen_getD sq bestfit rmse x y len j hj]
      exact h.lmErrGen_off hsq0 hsqpos bestfit rmse len hc hn (j + 2) (by omega) (by omega)
        (by omega))
    (by
      rw [lmErrsGen_getD sq bestfit rmse x y len (c - 2) (by omega)]
      have e : c - 2 + 2 = c := by omega
      rw [e]
      exact h.lmErrGen_corner hsq0 bestfit rmse len hc hn)
    (by rw [hlen]; omega)
  rw [this]
  omega

/-- the scan of the refinement loop at any cutoff `≥ c + 2` returns the corner -/
theorem IsElbow.scanAt (h : IsElbow x y n c s1 s2) {sq : Rat → Rat} (hsq0 : sq 0 = 0)
    (hsqpos : ∀ v, 0 < v → 0 < sq v) (bestfit rmse : Bool) (cutoff : Nat) (hc : c + 2 ≤ cutoff) :
    lmScanAt (lmErrsGen sq bestfit rmse x y) n cutoff = c := by
  have h2 := h.arm2
  unfold lmScanAt
  exact h.scan_prefix hsq0 hsqpos bestfit rmse _ (by omega) (by omega)

end elbow

/-! ## 5. The refinement loops when every sufficiently long prefix scans to the same index -/

theorem lmethodKnee_none_of_scan (errs : Nat → List Rat) (n limit c : Nat)
    (hscan : lmScanAt errs n n = c) : lmethodKnee errs .none n limit = some c := by
  unfold lmethodKnee
  have e : n + 8 = (n + 6 + 1) + 1 := by omega
  rw [e, lmethodLoop_step_none _ _ _ _ _ _ _ (by omega),
    lmethodLoop_stop _ _ _ _ _ _ _ _ _ (by simp), hscan]

/-- `original`: round 1 finds `c`, the cutoff `max limit (min (2c) n)` keeps `c + 3` points, round 2
finds `c` again, which sets `done` -/
theorem lmethodKnee_original_of_scan (errs : Nat → List Rat) (n limit c : Nat) (hc : 3 ≤ c)
    (hn : c + 4 ≤ n) (hscan : ∀ cutoff, c + 2 ≤ cutoff → lmScanAt errs n cutoff = c) :
    lmethodKnee errs .original n limit = some c := by
  unfold lmethodKnee
  have e : n + 8 = ((n + 5 + 1) + 1) + 1 := by omega
  have hd : decide (n ≤ c) = false := by simp; omega
  rw [e, lmethodLoop_step_original _ _ _ _ _ _ _ (by omega), hscan n (by omega), hd,
    lmethodLoop_step_original _ _ _ _ _ _ _ (by omega), hscan _ (by omega),
    lmethodLoop_stop _ _ _ _ _ _ _ _ _ (by simp)]

/-- `adjusted`: round 1 finds `c`, the cutoff `max limit ((c + n) / 2)` keeps `c + 3` points,
round 2 finds `c` again and the loop condition `current ≠ last` fails -/
theorem lmethodKnee_adjusted_of_scan (errs : Nat → List Rat) (n limit c : Nat)
    (hn : c + 4 ≤ n) (hscan : ∀ cutoff, c + 2 ≤ cutoff → lmScanAt errs n cutoff = c) :
    lmethodKnee errs .adjusted n limit = some c := by
  unfold lmethodKnee
  have e : n + 8 = ((n + 5 + 1) + 1) + 1 := by omega
  rw [e, lmethodLoop_step_adjusted _ _ _ _ _ _ _ (by omega), hscan n (by omega),
    lmethodLoop_step_adjusted _ _ _ _ _ _ _ (by omega), hscan _ (by omega),
    lmethodLoop_stop _ _ _ _ _ _ _ _ _ (by simp)]

end Knee

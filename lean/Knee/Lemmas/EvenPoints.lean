import Knee.Model.EvenPoints
import Knee.Lemmas.Pipeline
/-!
Lemmas for `add_points_even` / `add_points_even_knees` (C14): the inserted index list,
`np.unique` (`dedupSort`), the gaps between consecutive knees, and the local `pairs` recursion.
-/
namespace Knee

/-! ### `evenInsert` -/

theorem mem_evenInsert {l r k x : Nat} :
    x ∈ evenInsert l r k ↔ ∃ j, j < k ∧ x = l + (j + 1) * ((r - l) / k) := by
  simp only [evenInsert, List.mem_map, List.mem_range]
  constructor
  · rintro ⟨j, hj, rfl⟩; exact ⟨j, hj, rfl⟩
  · rintro ⟨j, hj, rfl⟩; exact ⟨j, hj, rfl⟩

theorem evenInsert_le {l r k x : Nat} (hlr : l ≤ r) (hx : x ∈ evenInsert l r k) : x ≤ r := by
  rcases mem_evenInsert.1 hx with ⟨j, hj, rfl⟩
  have h1 : (j + 1) * ((r - l) / k) ≤ k * ((r - l) / k) := Nat.mul_le_mul_right _ hj
  have h2 : k * ((r - l) / k) ≤ r - l := Nat.mul_div_le _ _
  omega

/-! ### `insertUniq` / `dedupSort` -/

theorem mem_insertUniq {x y : Nat} : ∀ {l : List Nat}, y ∈ insertUniq x l ↔ y = x ∨ y ∈ l := by
  intro l
  induction l with
  | nil => simp [insertUniq]
  | cons a t ih =>
    unfold insertUniq
    split
    · simp
    · split
      · rename_i h; subst h; simp
      · simp only [List.mem_cons, ih]
        constructor
        · rintro (h | h | h) <;> simp [h]
        · rintro (h | h | h) <;> simp [h]

theorem insertUniq_strict (x : Nat) : ∀ {l : List Nat}, l.Pairwise (· < ·) →
    (insertUniq x l).Pairwise (· < ·) := by
  intro l
  induction l with
  | nil => intro _; simp [insertUniq]
  | cons a t ih =>
    intro hp
    have hp' := List.pairwise_cons.1 hp
    unfold insertUniq
    split
    · rename_i hxa
      refine List.pairwise_cons.2 ⟨?_, hp⟩
      intro b hb
      rcases List.mem_cons.1 hb with rfl | hb
      · exact hxa
      · exact Nat.lt_trans hxa (hp'.1 b hb)
    · split
      · exact hp
      · refine List.pairwise_cons.2 ⟨?_, ih hp'.2⟩
        intro b hb
        rcases mem_insertUniq.1 hb with rfl | hb
        · omega
        · exact hp'.1 b hb

theorem dedupSort_cons (a : Nat) (t : List Nat) :
    dedupSort (a :: t) = insertUniq a (dedupSort t) := rfl

theorem dedupSort_strict' : ∀ (l : List Nat), (dedupSort l).Pairwise (· < ·) := by
  intro l
  induction l with
  | nil => simp [dedupSort]
  | cons a t ih => rw [dedupSort_cons]; exact insertUniq_strict a ih

theorem mem_dedupSort' {x : Nat} : ∀ {l : List Nat}, x ∈ dedupSort l ↔ x ∈ l := by
  intro l
  induction l with
  | nil => simp [dedupSort]
  | cons a t ih => rw [dedupSort_cons, mem_insertUniq, ih, List.mem_cons]

theorem insertUniq_of_lt (a : Nat) : ∀ {t : List Nat}, (∀ b ∈ t, a < b) → insertUniq a t = a :: t := by
  intro t h
  cases t with
  | nil => rfl
  | cons b t => simp [insertUniq, h b (List.mem_cons_self)]

theorem dedupSort_of_strict' : ∀ {l : List Nat}, l.Pairwise (· < ·) → dedupSort l = l := by
  intro l
  induction l with
  | nil => intro _; rfl
  | cons a t ih =>
    intro hp
    have hp' := List.pairwise_cons.1 hp
    rw [dedupSort_cons, ih hp'.2, insertUniq_of_lt a hp'.1]

/-! ### consecutive pairs -/

/-- every consecutive pair of a pairwise-related list is related -/
theorem zip_drop_one_rel {R : Nat → Nat → Prop} : ∀ (l : List Nat), l.Pairwise R →
    ∀ p ∈ l.zip (l.drop 1), R p.1 p.2 := by
  intro l
  induction l with
  | nil => intro _ p hp; simp at hp
  | cons x t ih =>
    intro hl p hp
    have hl' := List.pairwise_cons.1 hl
    cases t with
    | nil => simp at hp
    | cons y t' =>
      simp only [List.drop_succ_cons, List.drop_zero, List.zip_cons_cons, List.mem_cons] at hp
      rcases hp with rfl | hp
      · exact hl'.1 y List.mem_cons_self
      · exact ih hl'.2 p (by simpa using hp)

/-- every gap `(a, b)` between consecutive markers has `a ≤ b < n` -/
theorem gapsOfKnees_bounds (n : Nat) (knees : List Nat) (hn : 2 ≤ n)
    (hk : ∀ k ∈ knees, k < n) (hks : knees.Pairwise (· < ·)) :
    ∀ g ∈ gapsOfKnees n knees, g.1 ≤ g.2 ∧ g.2 < n := by
  intro g hg
  unfold gapsOfKnees at hg
  have hall : ∀ x ∈ (0 :: knees ++ [n - 1]), x < n := by
    intro x hx
    simp only [List.cons_append, List.mem_cons, List.mem_append,
      List.not_mem_nil, or_false] at hx
    rcases hx with rfl | hx | rfl
    · omega
    · exact hk x hx
    · omega
  have hpw : (0 :: knees ++ [n - 1]).Pairwise (· ≤ ·) := by
    rw [List.cons_append, List.pairwise_cons]
    refine ⟨fun _ _ => Nat.zero_le _, ?_⟩
    rw [List.pairwise_append]
    refine ⟨strict_to_le hks, by simp, ?_⟩
    intro a ha b hb
    have := hk a ha
    simp only [List.mem_singleton] at hb
    omega
  refine ⟨zip_drop_one_rel _ hpw g hg, ?_⟩
  have hg' : (g.1, g.2) ∈ (0 :: knees ++ [n - 1]).zip ((0 :: knees ++ [n - 1]).drop 1) := hg
  have := (List.of_mem_zip hg').2
  exact hall _ (List.mem_of_mem_drop this)

/-! ### the segment positions of `addEven` and its local `pairs` recursion -/

theorem segPositions_mono : ∀ (segs : List Nat), segs.Pairwise (· < ·) →
    (segs.flatMap fun i => [i, i + 1]).Pairwise (· ≤ ·) := by
  intro segs
  induction segs with
  | nil => intro _; simp
  | cons a t ih =>
    intro hp
    have hp' := List.pairwise_cons.1 hp
    have hrest : ∀ b ∈ (t.flatMap fun i => [i, i + 1]), a + 1 ≤ b := by
      intro b hb
      rcases List.mem_flatMap.1 hb with ⟨j, hj, hbj⟩
      have := hp'.1 j hj
      simp only [List.mem_cons, List.not_mem_nil, or_false] at hbj
      omega
    simp only [List.flatMap_cons, List.cons_append, List.nil_append]
    refine List.pairwise_cons.2 ⟨?_, List.pairwise_cons.2 ⟨?_, ih hp'.2⟩⟩
    · intro b hb
      rcases List.mem_cons.1 hb with rfl | hb
      · omega
      · have := hrest b hb; omega
    · exact hrest

theorem pairs_eq (npts : Nat → Nat) (f : Nat → Nat) : ∀ (segs : List Nat),
    addEven.pairs npts segs ((segs.flatMap fun i => [i, i + 1]).map f)
      = segs.flatMap fun i => evenInsert (f i) (f (i + 1)) (npts i) := by
  intro segs
  induction segs with
  | nil => simp [addEven.pairs]
  | cons a t ih =>
    simp only [List.flatMap_cons, List.cons_append, List.nil_append, List.map_cons,
      addEven.pairs, ih]

theorem segs_strict (wide : Nat → Bool) (m : Nat) :
    ((List.range m).filter wide).Pairwise (· < ·) :=
  List.Pairwise.sublist List.filter_sublist List.pairwise_lt_range

/-! ### Layer N -/

/-- a wide segment gets at least two inserted points -/
theorem nptsQ_ge_two' {xl yl xr yr dx dy tx ty : Rat}
    (hw : wideQ xl yl xr yr dx dy tx ty = true) (htx : 0 < tx) : 2 ≤ nptsQ xl xr dx tx := by
  simp only [wideQ, Bool.and_eq_true, decide_eq_true_eq] at hw
  have h2 : (0 : Rat) < 2 * tx := by grind
  have h1 : (1 : Rat) < (rabs (xr - xl) / dx) / (2 * tx) :=
    (Rat.lt_div_iff h2).2 (by rw [Rat.one_mul]; exact hw.1)
  have h3 : (1 : Int) < Rat.ceil ((rabs (xr - xl) / dx) / (2 * tx)) :=
    Rat.lt_ceil_iff.2 (by simpa using h1)
  unfold nptsQ
  omega

end Knee

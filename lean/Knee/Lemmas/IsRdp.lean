import Knee.Model.Rdp
import Knee.Lemmas.Rdp
import Knee.Lemmas.Argmax
/-! C04: the threshold-RDP loop produces a recursive Ramer-Douglas-Peucker partition. -/
namespace Knee

/-- Nondeterministic specification of a recursive RDP partition of the half-open range `[l, r)`
(`l + 2 ≤ r`), under the cost oracle `cst`, distance oracle `dst` and threshold `t`:
`IsRDP … l r segs` says `segs` (accepted sub-ranges, left to right) is obtained by
* leaf: the range's cost is on the accepting side of `t` → `[(l, r)]`;
* node: the cost is on the rejecting side, a split `s` strictly inside with no interior point
  farther from the chord than `s` (`∀ interior j, d[j] ≤ d[s]`), and the concatenation of a
  partition of `[l, l+s+1)` and one of `[l+s, r)`. -/
inductive IsRDP (isR2 : Bool) (t : Rat) (cst : Nat → Nat → Rat) (dst : Nat → Nat → List Rat) :
    Nat → Nat → List (Nat × Nat) → Prop
  | leaf (l r : Nat) : curved isR2 t (segCost isR2 cst l r) = false → IsRDP isR2 t cst dst l r [(l, r)]
  | node (l r s : Nat) (L R : List (Nat × Nat)) :
      curved isR2 t (segCost isR2 cst l r) = true →
      1 ≤ s → s + 2 ≤ r - l →
      (∀ j, 1 ≤ j → j + 1 < r - l → (dst l r)[j]?.getD 0 ≤ (dst l r)[s]?.getD 0) →
      IsRDP isR2 t cst dst l (l + s + 1) L → IsRDP isR2 t cst dst (l + s) r R →
      IsRDP isR2 t cst dst l r (L ++ R)

/-! ### the loop computes an `IsRDP` partition -/

/-- `RDPParts … st parts`: `parts` lists, in stack order, one RDP partition per range of `st`. -/
def RDPParts (isR2 : Bool) (t : Rat) (cst : Nat → Nat → Rat) (dst : Nat → Nat → List Rat) :
    List (Nat × Nat) → List (List (Nat × Nat)) → Prop
  | [], [] => True
  | p :: st, part :: parts => IsRDP isR2 t cst dst p.1 p.2 part ∧ RDPParts isR2 t cst dst st parts
  | _, _ => False

theorem RDPParts_length {isR2 t cst dst} : ∀ (st : List (Nat × Nat)) (parts : List (List (Nat × Nat))),
    RDPParts isR2 t cst dst st parts → parts.length = st.length := by
  intro st
  induction st with
  | nil => intro parts h; cases parts with
    | nil => rfl
    | cons _ _ => exact absurd h (by simp [RDPParts])
  | cons p st ih => intro parts h; cases parts with
    | nil => exact absurd h (by simp [RDPParts])
    | cons part parts =>
      simp only [RDPParts] at h
      simp [ih parts h.2]

theorem RDPParts_get {isR2 t cst dst} : ∀ (st : List (Nat × Nat)) (parts : List (List (Nat × Nat))),
    RDPParts isR2 t cst dst st parts → ∀ i (hi : i < st.length), ∃ (hp : i < parts.length),
      IsRDP isR2 t cst dst (st[i]).1 (st[i]).2 (parts[i]) := by
  intro st
  induction st with
  | nil => intro parts _ i hi; simp at hi
  | cons p st ih => intro parts h; cases parts with
    | nil => exact absurd h (by simp [RDPParts])
    | cons part parts =>
      simp only [RDPParts] at h
      intro i hi
      cases i with
      | zero => exact ⟨by simp, h.1⟩
      | succ i =>
        obtain ⟨hp, hr⟩ := ih parts h.2 i (by simpa using hi)
        exact ⟨by simpa using hp, by simpa using hr⟩

/-- When the loop returns `res`, the segments accepted after `out` are the concatenation, in stack
order, of an RDP partition of every range on the stack. -/
theorem rdpLoop_parts (isR2 : Bool) (t : Rat) (cst : Nat → Nat → Rat) (dst : Nat → Nat → List Rat)
    (ht : if isR2 then t ≤ 1 else 0 < t) (hd : ∀ l r, (dst l r).length = r - l) :
    ∀ (fuel : Nat) (st out res : List (Nat × Nat)),
      rdpLoop isR2 t cst dst fuel st out = some res →
      ∃ parts : List (List (Nat × Nat)), RDPParts isR2 t cst dst st parts ∧
        res.reverse = out.reverse ++ parts.flatten := by
  intro fuel
  induction fuel with
  | zero => intro st out res h; simp [rdpLoop] at h
  | succ f ih =>
    intro st out res h
    match st with
    | [] =>
      simp only [rdpLoop, Option.some.injEq] at h
      subst h
      exact ⟨[], trivial, by simp⟩
    | (l, r) :: st' =>
      simp only [rdpLoop] at h
      split at h
      · rename_i hcur
        have hm := curved_len isR2 t cst l r ht hcur
        have hlen : 3 ≤ (dst l r).length := by rw [hd]; exact hm
        have hsp := splitOf_interior hlen
        have hmax := fun j => splitOf_max hlen j
        rw [hd] at hsp hmax
        generalize splitOf (dst l r) = i at hsp hmax h
        obtain ⟨parts, hparts, hres⟩ := ih _ _ _ h
        match parts, hparts with
        | L :: R :: parts', hp =>
          simp only [RDPParts] at hp
          obtain ⟨hL, hR, hrest⟩ := hp
          refine ⟨(L ++ R) :: parts', ⟨?_, hrest⟩, ?_⟩
          · exact IsRDP.node l r i L R hcur hsp.1 hsp.2 hmax hL hR
          · rw [hres]; simp
      · rename_i hcur
        obtain ⟨parts, hparts, hres⟩ := ih _ _ _ h
        refine ⟨[(l, r)] :: parts, ⟨?_, hparts⟩, ?_⟩
        · exact IsRDP.leaf l r (by simpa using hcur)
        · rw [hres]; simp

/-- index form of `rdpLoop_parts` -/
theorem rdpLoop_isRDP (isR2 : Bool) (t : Rat) (cst : Nat → Nat → Rat) (dst : Nat → Nat → List Rat)
    (ht : if isR2 then t ≤ 1 else 0 < t) (hd : ∀ l r, (dst l r).length = r - l) :
    ∀ (fuel : Nat) (st out res : List (Nat × Nat)),
      rdpLoop isR2 t cst dst fuel st out = some res →
      ∃ parts : List (List (Nat × Nat)), parts.length = st.length ∧
        res.reverse = out.reverse ++ parts.flatten ∧
        ∀ i (hi : i < st.length), ∃ (hp : i < parts.length),
          IsRDP isR2 t cst dst (st[i]).1 (st[i]).2 (parts[i]) := by
  intro fuel st out res h
  obtain ⟨parts, hparts, hres⟩ := rdpLoop_parts isR2 t cst dst ht hd fuel st out res h
  exact ⟨parts, RDPParts_length st parts hparts, hres, RDPParts_get st parts hparts⟩

/-- C04: `rdp` returns the result of some recursive RDP partition of `[0, n)`. -/
theorem rdp_isRDP (isR2 : Bool) (t : Rat) (cst : Nat → Nat → Rat) (dst : Nat → Nat → List Rat)
    (n : Nat) (hn : 2 ≤ n) (ht : if isR2 then t ≤ 1 else 0 < t)
    (hd : ∀ l r, (dst l r).length = r - l) :
    ∃ segs, IsRDP isR2 t cst dst 0 n segs ∧
      rdp isR2 t cst dst n = some (segsToResult n segs) := by
  obtain ⟨res, hres, _⟩ := rdpLoop_spec isR2 t cst dst n ht hd (2 * n) [(0, n)] []
    (by exact ⟨rfl, by omega, (by omega : n - 1 + 1 = n)⟩)
    (by simp only [pot]; omega)
  obtain ⟨parts, hparts, hrev⟩ := rdpLoop_parts isR2 t cst dst ht hd _ _ _ _ hres
  match parts, hparts with
  | [segs], hp =>
    simp only [RDPParts] at hp
    refine ⟨segs, hp.1, ?_⟩
    simp only [rdp, hres, Option.map_some]
    rw [hrev]
    simp

/-! ### structural facts about `IsRDP` derivations -/

/-- every retained segment is on the accepting side of the threshold -/
theorem IsRDP_leaf_accepting {isR2 t cst dst l r segs} (h : IsRDP isR2 t cst dst l r segs) :
    ∀ p ∈ segs, curved isR2 t (segCost isR2 cst p.1 p.2) = false := by
  induction h with
  | leaf l r hc =>
    intro p hp
    simp only [List.mem_singleton] at hp
    subst hp
    exact hc
  | node l r s L R _ _ _ _ _ _ ihL ihR =>
    intro p hp
    rcases List.mem_append.mp hp with hp | hp
    · exact ihL p hp
    · exact ihR p hp

/-- the first retained range of a partition of `[l, r)` starts at `l` -/
theorem IsRDP_head {isR2 t cst dst l r segs} (h : IsRDP isR2 t cst dst l r segs) :
    ∃ r1 rest, segs = (l, r1) :: rest := by
  induction h with
  | leaf l r _ => exact ⟨r, [], rfl⟩
  | node l r s L R _ _ _ _ _ _ ihL _ =>
    obtain ⟨r1, rest, hL⟩ := ihL
    exact ⟨r1, rest ++ R, by rw [hL]; rfl⟩

theorem IsRDP_ne_nil {isR2 t cst dst l r segs} (h : IsRDP isR2 t cst dst l r segs) : segs ≠ [] := by
  obtain ⟨r1, rest, hs⟩ := IsRDP_head h
  rw [hs]; exact List.cons_ne_nil _ _

/-- tiling, composable form: a partition of `[l, r)` followed by a chain that starts at the last
point `r - 1` is a chain that starts at `l`. -/
theorem IsRDP_chain_append {isR2 t cst dst l r segs} (h : IsRDP isR2 t cst dst l r segs) :
    l + 2 ≤ r → ∀ (rest : List (Nat × Nat)) (n : Nat), IsChain n (r - 1) rest →
      IsChain n l (segs ++ rest) := by
  induction h with
  | leaf l r _ =>
    intro hlr rest n hrest
    exact ⟨rfl, hlr, hrest⟩
  | node l r s L R _ h1 h2 _ _ _ ihL ihR =>
    intro hlr rest n hrest
    rw [List.append_assoc]
    apply ihL (by omega)
    have e : l + s + 1 - 1 = l + s := by omega
    rw [e]
    exact ihR (by omega) rest n hrest

/-- tiling: the retained ranges of a partition of `[l, r)` tile `[l, r)`: the first starts at `l`,
each has ≥ 2 points and starts at the last point of the previous one, the last ends at `r`. -/
theorem IsRDP_tiles {isR2 t cst dst l r segs} (h : IsRDP isR2 t cst dst l r segs)
    (hlr : l + 2 ≤ r) : IsChain r l segs := by
  have := IsRDP_chain_append h hlr [] r (by show r - 1 + 1 = r; omega)
  simpa using this

/-- explicit reading of `IsChain`: sizes, shared end points, end of the last range -/
theorem IsChain_explicit {n : Nat} : ∀ (segs : List (Nat × Nat)) (a : Nat), IsChain n a segs →
    (∀ p ∈ segs, p.1 + 2 ≤ p.2) ∧
    (∀ i (hi : i + 1 < segs.length), (segs[i]).2 - 1 = (segs[i + 1]).1) ∧
    (∀ p, segs.head? = some p → p.1 = a) ∧
    (∀ p, segs.getLast? = some p → p.2 = n) := by
  intro segs
  induction segs with
  | nil => intro a _; simp
  | cons x xs ih =>
    intro a h
    obtain ⟨l, r⟩ := x
    obtain ⟨hla, hlr, hrest⟩ := h
    obtain ⟨i1, i2, i3, i4⟩ := ih (r - 1) hrest
    refine ⟨?_, ?_, ?_, ?_⟩
    · intro p hp
      rcases List.mem_cons.mp hp with rfl | hp
      · exact hlr
      · exact i1 p hp
    · intro i hi
      cases i with
      | zero =>
        match xs, hi, i3 with
        | y :: ys, _, i3 =>
          have := i3 y rfl
          simp only [List.getElem_cons_zero, List.getElem_cons_succ]
          omega
      | succ i =>
        simp only [List.getElem_cons_succ]
        exact i2 i (by simpa using hi)
    · intro p hp
      simp only [List.head?_cons, Option.some.injEq] at hp
      subst hp
      exact hla
    · intro p hp
      match xs, hrest, i4 with
      | [], hrest, _ =>
        simp only [List.getLast?_singleton, Option.some.injEq] at hp
        subst hp
        simp only [IsChain] at hrest
        show r = n
        omega
      | y :: ys, _, i4 =>
        rw [List.getLast?_cons_cons] at hp
        exact i4 p hp

/-- tiling, explicit form -/
theorem IsRDP_tiles_explicit {isR2 t cst dst l r segs} (h : IsRDP isR2 t cst dst l r segs)
    (hlr : l + 2 ≤ r) :
    segs ≠ [] ∧
    (∀ p ∈ segs, p.1 + 2 ≤ p.2) ∧
    (∀ i (hi : i + 1 < segs.length), (segs[i]).2 - 1 = (segs[i + 1]).1) ∧
    (∀ p, segs.head? = some p → p.1 = l) ∧
    (∀ p, segs.getLast? = some p → p.2 = r) :=
  ⟨IsRDP_ne_nil h, IsChain_explicit segs l (IsRDP_tiles h hlr)⟩

/-- every retained interior boundary is the split of a visited rejecting range `[l', r')` inside
`[l, r)` in which no interior point is farther from the chord than the split -/
theorem IsRDP_interior_explained {isR2 t cst dst l r segs} (h : IsRDP isR2 t cst dst l r segs) :
    ∀ p ∈ segs, p.1 ≠ l → ∃ l' r' s,
      curved isR2 t (segCost isR2 cst l' r') = true ∧ 1 ≤ s ∧ s + 2 ≤ r' - l' ∧
      l ≤ l' ∧ r' ≤ r ∧ p.1 = l' + s ∧
      ∀ j, 1 ≤ j → j + 1 < r' - l' → (dst l' r')[j]?.getD 0 ≤ (dst l' r')[s]?.getD 0 := by
  induction h with
  | leaf l r _ =>
    intro p hp hne
    simp only [List.mem_singleton] at hp
    subst hp
    exact absurd rfl hne
  | node l r s L R hc h1 h2 hmax _ _ ihL ihR =>
    intro p hp hne
    rcases List.mem_append.mp hp with hp | hp
    · obtain ⟨l', r', s', a1, a2, a3, a4, a5, a6, a7⟩ := ihL p hp hne
      exact ⟨l', r', s', a1, a2, a3, a4, by omega, a6, a7⟩
    · by_cases hps : p.1 = l + s
      · exact ⟨l, r, s, hc, h1, h2, Nat.le_refl _, Nat.le_refl _, hps, hmax⟩
      · obtain ⟨l', r', s', a1, a2, a3, a4, a5, a6, a7⟩ := ihR p hp hps
        exact ⟨l', r', s', a1, a2, a3, by omega, a5, a6, a7⟩

end Knee

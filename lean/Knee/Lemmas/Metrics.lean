import Knee.Model.Metrics
import Mathlib.Tactic.Ring
import Mathlib.Tactic.Linarith
import Mathlib.Tactic.Positivity
import Mathlib.Tactic.FieldSimp
import Mathlib.Tactic.NormNum
import Mathlib.Algebra.Order.Field.Basic
/-!
Helper lemmas for `Props/C16.lean` (regression metrics over ℚ).
-/
namespace Knee

theorem rabs_nonneg (x : Rat) : 0 ≤ rabs x := by
  unfold rabs; split <;> linarith

theorem rabs_zero : rabs 0 = 0 := by simp [rabs]

theorem rabs_neg (x : Rat) : rabs (-x) = rabs x := by
  unfold rabs
  split <;> split <;> linarith

theorem rabs_sub_comm (a b : Rat) : rabs (a - b) = rabs (b - a) := by
  rw [← rabs_neg (a - b)]; congr 1; ring

theorem rabs_sub_le (a b : Rat) : rabs (b - a) ≤ rabs a + rabs b := by
  unfold rabs
  split <;> split <;> split <;> linarith

theorem epsM_pos : 0 < epsM := by unfold epsM; norm_num

/-! ### sums of `zipWith` / `map` -/

theorem zipWith_sum_nonneg (f : Rat → Rat → Rat) (hf : ∀ a b, 0 ≤ f a b) :
    ∀ y yh : List Rat, 0 ≤ (List.zipWith f y yh).sum := by
  intro y
  induction y with
  | nil => intro yh; simp
  | cons a y ih =>
    intro yh
    cases yh with
    | nil => simp
    | cons b yh =>
      simp only [List.zipWith_cons_cons, List.sum_cons]
      have := ih yh; have := hf a b; linarith

theorem zipWith_sum_le (f : Rat → Rat → Rat) (c : Rat) (hf : ∀ a b, f a b ≤ c) :
    ∀ y yh : List Rat, (List.zipWith f y yh).sum ≤ c * ((List.zipWith f y yh).length : Rat) := by
  intro y
  induction y with
  | nil => intro yh; simp
  | cons a y ih =>
    intro yh
    cases yh with
    | nil => simp
    | cons b yh =>
      simp only [List.zipWith_cons_cons, List.sum_cons, List.length_cons, Nat.cast_add,
        Nat.cast_one]
      have := ih yh; have := hf a b; linarith

theorem zipWith_self_sum_zero (f : Rat → Rat → Rat) (hf : ∀ a, f a a = 0) :
    ∀ y : List Rat, (List.zipWith f y y).sum = 0 := by
  intro y
  induction y with
  | nil => simp
  | cons a y ih => simp only [List.zipWith_cons_cons, List.sum_cons, hf a, ih, add_zero]

theorem map_sum_nonneg (f : Rat → Rat) (hf : ∀ a, 0 ≤ f a) :
    ∀ y : List Rat, 0 ≤ (y.map f).sum := by
  intro y
  induction y with
  | nil => simp
  | cons a y ih =>
    simp only [List.map_cons, List.sum_cons]
    have := hf a; linarith

theorem zipWith_swap (f : Rat → Rat → Rat) (hf : ∀ a b, f a b = f b a) (y yh : List Rat) :
    List.zipWith f y yh = List.zipWith f yh y := by
  rw [List.zipWith_comm]
  congr 1
  funext a b
  exact hf b a

/-! ### `meanQ` -/

theorem meanQ_nil : meanQ [] = 0 := by simp [meanQ]

theorem meanQ_nonneg (l : List Rat) (h : 0 ≤ l.sum) : 0 ≤ meanQ l := by
  unfold meanQ
  exact div_nonneg h (Nat.cast_nonneg _)

theorem meanQ_eq_zero (l : List Rat) (h : l.sum = 0) : meanQ l = 0 := by
  unfold meanQ; rw [h]; simp

theorem meanQ_le (l : List Rat) (c : Rat) (hc : 0 ≤ c) (h : l.sum ≤ c * (l.length : Rat)) :
    meanQ l ≤ c := by
  unfold meanQ
  rcases Nat.eq_zero_or_pos l.length with h0 | hpos
  · rw [h0]; simpa using hc
  · have hp : (0 : Rat) < (l.length : Rat) := by exact_mod_cast hpos
    rw [div_le_iff₀ hp]; exact h

/-! ### SMAPE term bounds -/

theorem smape_term_nonneg (a b : Rat) : 0 ≤ 2 * rabs (b - a) / (rabs a + rabs b + epsM) := by
  have h1 := rabs_nonneg a
  have h2 := rabs_nonneg b
  have h3 := rabs_nonneg (b - a)
  have h4 := epsM_pos
  apply div_nonneg <;> linarith

theorem smape_term_le_two (a b : Rat) : 2 * rabs (b - a) / (rabs a + rabs b + epsM) ≤ 2 := by
  have h1 := rabs_nonneg a
  have h2 := rabs_nonneg b
  have h3 := rabs_sub_le a b
  have h4 := epsM_pos
  have hd : 0 < rabs a + rabs b + epsM := by linarith
  rw [div_le_iff₀ hd]; linarith

/-! ### Cauchy–Schwarz for lists (truncating `zipWith`) -/

theorem two_mul_le_of_sq_le (s a b A B : Rat) (hA : 0 ≤ A) (hB : 0 ≤ B) (hs : s * s ≤ A * B) :
    2 * s * a * b ≤ A * (b * b) + B * (a * a) := by
  have hR : 0 ≤ A * (b * b) + B * (a * a) :=
    add_nonneg (mul_nonneg hA (mul_self_nonneg b)) (mul_nonneg hB (mul_self_nonneg a))
  have hsq : (2 * s * a * b) ^ 2 ≤ (A * (b * b) + B * (a * a)) ^ 2 := by
    have h1 : (2 * s * a * b) ^ 2 = 4 * (s * s) * ((a * a) * (b * b)) := by ring
    have h2 : 4 * (s * s) * ((a * a) * (b * b)) ≤ 4 * (A * B) * ((a * a) * (b * b)) := by
      have : 0 ≤ (a * a) * (b * b) := mul_nonneg (mul_self_nonneg a) (mul_self_nonneg b)
      nlinarith
    have h3 : 4 * (A * B) * ((a * a) * (b * b)) ≤ (A * (b * b) + B * (a * a)) ^ 2 := by
      nlinarith [sq_nonneg (A * (b * b) - B * (a * a))]
    linarith
  exact le_of_sq_le_sq hsq hR

theorem cauchy_schwarz_list : ∀ l1 l2 : List Rat,
    (List.zipWith (fun a b => a * b) l1 l2).sum * (List.zipWith (fun a b => a * b) l1 l2).sum
      ≤ (l1.map fun a => a * a).sum * (l2.map fun b => b * b).sum := by
  intro l1
  induction l1 with
  | nil =>
    intro l2; simp
  | cons a l1 ih =>
    intro l2
    cases l2 with
    | nil =>
      simp only [List.zipWith_nil_right, List.sum_nil, List.map_nil, mul_zero, le_refl]
    | cons b l2 =>
      simp only [List.zipWith_cons_cons, List.sum_cons, List.map_cons]
      have hA := map_sum_nonneg (fun a => a * a) (fun a => mul_self_nonneg a) l1
      have hB := map_sum_nonneg (fun a => a * a) (fun a => mul_self_nonneg a) l2
      have hs := ih l2
      have := two_mul_le_of_sq_le _ a b _ _ hA hB hs
      nlinarith

end Knee

import Knee.Lemmas.ElbowA
import Knee.Lemmas.ElbowB
import Knee.Props.C03B
import Knee.Model.KneedleQ
/-!
Helper lemmas for `Props/C03.lean`:

* the gradient array (`cfdQ`) of an exact two-slope elbow is `elbowG c g (n-1-c) s1 s2` with the
  corner gradient `g` strictly between the slopes, hence DFDT finds the corner on the *curve*;
* Kneedle (no smoothing) on a monotone elbow.
-/
namespace Knee

/-! ## 1. The three-point first derivative at the corner -/

/-- first derivative at the middle point of a corner: the convex combination of the two slopes -/
theorem lagrangeD_corner (s1 s2 x1 x2 x3 y1 y2 y3 : Rat) (h12 : x1 < x2) (h23 : x2 < x3)
    (e1 : y1 = y2 + s1 * (x1 - x2)) (e3 : y3 = y2 + s2 * (x3 - x2)) :
    lagrangeD x2 x1 x2 x3 y1 y2 y3 = (s1 * (x3 - x2) + s2 * (x2 - x1)) / (x3 - x1) := by
  have d12 : x1 - x2 ≠ 0 := ne_of_lt (by linarith)
  have d13 : x1 - x3 ≠ 0 := ne_of_lt (by linarith)
  have d23 : x2 - x3 ≠ 0 := ne_of_lt (by linarith)
  have d21 : x2 - x1 ≠ 0 := ne_of_gt (by linarith)
  have d31 : x3 - x1 ≠ 0 := ne_of_gt (by linarith)
  have d32 : x3 - x2 ≠ 0 := ne_of_gt (by linarith)
  subst e1 e3
  unfold lagrangeD
  field_simp
  ring

/-- a convex combination with strictly positive weights lies strictly between its arguments -/
theorem convex_between (s1 s2 u v : Rat) (hu : 0 < u) (hv : 0 < v) (hs : s1 ≠ s2) :
    min s1 s2 < (s1 * u + s2 * v) / (u + v) ∧ (s1 * u + s2 * v) / (u + v) < max s1 s2 := by
  have huv : 0 < u + v := by linarith
  rw [lt_div_iff₀ huv, div_lt_iff₀ huv]
  rcases lt_or_gt_of_ne hs with h | h
  · rw [min_eq_left h.le, max_eq_right h.le]
    constructor <;> nlinarith
  · rw [min_eq_right h.le, max_eq_left h.le]
    constructor <;> nlinarith

section elbow
variable {x y : Nat → Rat} {n c : Nat} {s1 s2 : Rat}

/-- closed form of the corner gradient -/
theorem IsElbow.cfd_corner (h : IsElbow x y n c s1 s2) :
    cfdQ x y n c =
      (s1 * (x (c + 1) - x c) + s2 * (x c - x (c - 1))) / (x (c + 1) - x (c - 1)) := by
  have h1 := h.arm1
  have h2 := h.arm2
  unfold cfdQ
  have h0 : c ≠ 0 := by omega
  have hl : c + 1 ≠ n := by omega
  simp only [h0, hl, if_false]
  exact lagrangeD_corner s1 s2 _ _ _ _ _ _ (h.lt (by omega) (by omega))
    (h.lt (by omega) (by omega)) (h.left_corner _ (by omega)) (h.right _ (by omega) (by omega))

/-- the corner gradient lies strictly between the two slopes -/
theorem cfd_corner_between (h : IsElbow x y n c s1 s2) :
    min s1 s2 < cfdQ x y n c ∧ cfdQ x y n c < max s1 s2 := by
  have h1 := h.arm1
  have h2 := h.arm2
  have l12 := h.lt (i := c - 1) (j := c) (by omega) (by omega)
  have l23 := h.lt (i := c) (j := c + 1) (by omega) (by omega)
  have e : x (c + 1) - x (c - 1) = (x (c + 1) - x c) + (x c - x (c - 1)) := by ring
  rw [h.cfd_corner, e]
  exact convex_between s1 s2 _ _ (by linarith) (by linarith) h.slopes

/-- the gradient array of an exact elbow -/
theorem gradient_elbow (h : IsElbow x y n c s1 s2) :
    (List.range n).map (cfdQ x y n) = elbowG c (cfdQ x y n c) (n - 1 - c) s1 s2 := by
  have h1 := h.arm1
  have h2 := h.arm2
  have hlen : (elbowG c (cfdQ x y n c) (n - 1 - c) s1 s2).length = n := by
    rw [elbowG_length]; omega
  apply List.ext_getElem
  · rw [hlen]; simp
  · intro i hi1 hi2
    have hin : i < n := by simpa using hi1
    have hr : (elbowG c (cfdQ x y n c) (n - 1 - c) s1 s2)[i] =
        (elbowG c (cfdQ x y n c) (n - 1 - c) s1 s2)[i]?.getD 0 := by
      rw [List.getElem?_eq_getElem hi2]; rfl
    rw [hr, List.getElem_map, List.getElem_range]
    rcases Nat.lt_trichotomy i c with hlt | heq | hgt
    · rw [elbowG_get_left _ _ _ _ _ i hlt]; exact h.cfd_left i hlt
    · subst heq; rw [elbowG_get_mid]
    · rw [elbowG_get_right _ _ _ _ _ i hgt (by omega)]; exact h.cfd_right i hgt hin

/-- **DFDT on the curve.** -/
theorem dfdt_elbow_curve (h : IsElbow x y n c s1 s2) :
    dfdtKnee (dfdtDiffsQ ((List.range n).map (cfdQ x y n))) n = c := by
  have h1 := h.arm1
  have h2 := h.arm2
  obtain ⟨hlo, hhi⟩ := cfd_corner_between h
  have e : n = c + 1 + (n - 1 - c) := by omega
  rw [gradient_elbow h]
  have := dfdt_elbow' c (n - 1 - c) (cfdQ x y n c) s1 s2 (by omega) (by omega) hlo hhi
  rw [← e] at this
  exact this

end elbow

/-! ## 2. Kneedle: a unimodal difference curve has its only strict peak at the mode -/

/-- the only peak of a unimodal curve -/
theorem unimodal_allPeaks_mem (d : List Rat) (c : Nat)
    (hup : ∀ i, i < c → d[i]?.getD 0 < d[i + 1]?.getD 0)
    (hdown : ∀ i, c ≤ i → i + 1 < d.length → d[i + 1]?.getD 0 < d[i]?.getD 0) :
    ∀ p ∈ allPeaks d, p = c := by
  intro p hp
  rw [mem_allPeaks] at hp
  obtain ⟨hp1, hp2, ha, hb⟩ := hp
  rcases Nat.lt_trichotomy p c with hlt | heq | hgt
  · exact absurd (hup p hlt) (not_lt.mpr hb.le)
  · exact heq
  · have := hdown (p - 1) (by omega) (by omega)
    have e : p - 1 + 1 = p := by omega
    rw [e] at this
    exact absurd this (not_lt.mpr ha.le)

/-- strictly increasing up to `c`, strictly decreasing after it: the highest peak is `c` -/
theorem unimodal_peak (d : List Rat) (c : Nat) (hc1 : 1 ≤ c) (hc2 : c + 1 < d.length)
    (hup : ∀ i, i < c → d[i]?.getD 0 < d[i + 1]?.getD 0)
    (hdown : ∀ i, c ≤ i → i + 1 < d.length → d[i + 1]?.getD 0 < d[i]?.getD 0) :
    kneedleKnee d = some c := by
  have hmem : c ∈ allPeaks d := by
    rw [mem_allPeaks]
    refine ⟨hc1, hc2, ?_, hdown c (Nat.le_refl _) hc2⟩
    have := hup (c - 1) (by omega)
    have e : c - 1 + 1 = c := by omega
    rwa [e] at this
  have huniq := unimodal_allPeaks_mem d c hup hdown
  cases hk : kneedleKnee d with
  | none =>
    rw [kneedleKnee_eq_none] at hk
    rw [hk] at hmem
    simp at hmem
  | some k => rw [huniq k (kneedleKnee_some hk).1]

/-! ## 3. Lists indexed by `List.range n` -/

theorem zipWith_map_range {α β γ : Type} (f : α → β → γ) (g : Nat → α) (h : Nat → β) (n : Nat) :
    List.zipWith f ((List.range n).map g) ((List.range n).map h) =
      (List.range n).map fun i => f (g i) (h i) := by
  rw [List.zipWith_map, List.zipWith_self]

theorem foldl_min_spec (l : List Rat) : ∀ init : Rat,
    (l.foldl (fun a b => if b < a then b else a) init ∈ init :: l) ∧
      ∀ w ∈ init :: l, l.foldl (fun a b => if b < a then b else a) init ≤ w := by
  induction l with
  | nil => intro init; simp
  | cons h t ih =>
    intro init
    rw [List.foldl_cons]
    have hmin : (if h < init then h else init) ≤ init ∧ (if h < init then h else init) ≤ h := by
      split_ifs with hc
      · exact ⟨hc.le, le_refl _⟩
      · exact ⟨le_refl _, not_lt.mp hc⟩
    have hmem : (if h < init then h else init) = init ∨ (if h < init then h else init) = h := by
      split_ifs
      · exact Or.inr rfl
      · exact Or.inl rfl
    obtain ⟨hm, hle⟩ := ih (if h < init then h else init)
    constructor
    · rcases List.mem_cons.mp hm with e | e
      · rw [e]
        rcases hmem with e' | e' <;> rw [e'] <;> simp
      · exact List.mem_cons_of_mem _ (List.mem_cons_of_mem _ e)
    · intro w hw
      have hi := hle _ List.mem_cons_self
      rcases List.mem_cons.mp hw with e | e
      · rw [e]; exact le_trans hi hmin.1
      · rcases List.mem_cons.mp e with e' | e'
        · rw [e']; exact le_trans hi hmin.2
        · exact hle w (List.mem_cons_of_mem _ e')

theorem foldl_max_spec (l : List Rat) : ∀ init : Rat,
    (l.foldl (fun a b => if a < b then b else a) init ∈ init :: l) ∧
      ∀ w ∈ init :: l, w ≤ l.foldl (fun a b => if a < b then b else a) init := by
  induction l with
  | nil => intro init; simp
  | cons h t ih =>
    intro init
    rw [List.foldl_cons]
    have hmax : init ≤ (if init < h then h else init) ∧ h ≤ (if init < h then h else init) := by
      split_ifs with hc
      · exact ⟨hc.le, le_refl _⟩
      · exact ⟨le_refl _, not_lt.mp hc⟩
    have hmem : (if init < h then h else init) = init ∨ (if init < h then h else init) = h := by
      split_ifs
      · exact Or.inr rfl
      · exact Or.inl rfl
    obtain ⟨hm, hle⟩ := ih (if init < h then h else init)
    constructor
    · rcases List.mem_cons.mp hm with e | e
      · rw [e]
        rcases hmem with e' | e' <;> rw [e'] <;> simp
      · exact List.mem_cons_of_mem _ (List.mem_cons_of_mem _ e)
    · intro w hw
      have hi := hle _ List.mem_cons_self
      rcases List.mem_cons.mp hw with e | e
      · rw [e]; exact le_trans hmax.1 hi
      · rcases List.mem_cons.mp e with e' | e'
        · rw [e']; exact le_trans hmax.2 hi
        · exact hle w (List.mem_cons_of_mem _ e')

/-- `min(l)` is the member that is below every member -/
theorem listMinQ_eq (l : List Rat) (v : Rat) (hv : v ∈ l) (hle : ∀ w ∈ l, v ≤ w) :
    listMinQ l = v := by
  cases l with
  | nil => simp at hv
  | cons a t =>
    unfold listMinQ
    simp only [List.head?_cons, Option.getD_some]
    obtain ⟨hm, hmin⟩ := foldl_min_spec (a :: t) a
    have hm' : (a :: t).foldl (fun a b => if b < a then b else a) a ∈ a :: t := by
      rcases List.mem_cons.mp hm with e | e
      · rw [e]; simp
      · exact e
    exact le_antisymm (hmin v (List.mem_cons_of_mem _ hv)) (hle _ hm')

/-- `max(l)` is the member that is above every member -/
theorem listMaxQ_eq (l : List Rat) (v : Rat) (hv : v ∈ l) (hle : ∀ w ∈ l, w ≤ v) :
    listMaxQ l = v := by
  cases l with
  | nil => simp at hv
  | cons a t =>
    unfold listMaxQ
    simp only [List.head?_cons, Option.getD_some]
    obtain ⟨hm, hmax⟩ := foldl_max_spec (a :: t) a
    have hm' : (a :: t).foldl (fun a b => if a < b then b else a) a ∈ a :: t := by
      rcases List.mem_cons.mp hm with e | e
      · rw [e]; simp
      · exact e
    exact le_antisymm (hle _ hm') (hmax v (List.mem_cons_of_mem _ hv))

theorem listMinQ_range (f : Nat → Rat) (n k : Nat) (hk : k < n) (hle : ∀ i, i < n → f k ≤ f i) :
    listMinQ ((List.range n).map f) = f k := by
  apply listMinQ_eq
  · exact List.mem_map.mpr ⟨k, List.mem_range.mpr hk, rfl⟩
  · intro w hw
    obtain ⟨i, hi, e⟩ := List.mem_map.mp hw
    rw [← e]
    exact hle i (List.mem_range.mp hi)

theorem listMaxQ_range (f : Nat → Rat) (n k : Nat) (hk : k < n) (hle : ∀ i, i < n → f i ≤ f k) :
    listMaxQ ((List.range n).map f) = f k := by
  apply listMaxQ_eq
  · exact List.mem_map.mpr ⟨k, List.mem_range.mpr hk, rfl⟩
  · intro w hw
    obtain ⟨i, hi, e⟩ := List.mem_map.mp hw
    rw [← e]
    exact hle i (List.mem_range.mp hi)

theorem sum_map_nonneg_nat (f : Nat → Rat) : ∀ L : List Nat, (∀ k ∈ L, 0 ≤ f k) →
    0 ≤ (L.map f).sum := by
  intro L
  induction L with
  | nil => intro _; simp
  | cons a L ih =>
    intro hnn
    rw [List.map_cons, List.sum_cons]
    have ha := hnn a List.mem_cons_self
    have := ih (fun k hk => hnn k (List.mem_cons_of_mem _ hk))
    linarith

theorem sum_map_pos_nat (f : Nat → Rat) : ∀ L : List Nat, (∀ k ∈ L, 0 ≤ f k) →
    (∃ k ∈ L, 0 < f k) → 0 < (L.map f).sum := by
  intro L
  induction L with
  | nil => intro _ ⟨k, hk, _⟩; simp at hk
  | cons a L ih =>
    intro hnn ⟨k, hk, hpos⟩
    rw [List.map_cons, List.sum_cons]
    have ha := hnn a List.mem_cons_self
    have hnn' : ∀ k ∈ L, 0 ≤ f k := fun k hk => hnn k (List.mem_cons_of_mem _ hk)
    rcases List.mem_cons.mp hk with e | e
    · subst e
      have := sum_map_nonneg_nat f L hnn'
      linarith
    · have := ih hnn' ⟨k, e, hpos⟩
      linarith

theorem sum_map_neg_eq_nat (f : Nat → Rat) (L : List Nat) :
    (L.map fun k => -f k).sum = -(L.map f).sum := by
  induction L with
  | nil => simp
  | cons a L ih => rw [List.map_cons, List.sum_cons, List.map_cons, List.sum_cons, ih]; ring

theorem sum_map_neg_nat (f : Nat → Rat) (L : List Nat) (hnp : ∀ k ∈ L, f k ≤ 0)
    (hex : ∃ k ∈ L, f k < 0) : (L.map f).sum < 0 := by
  have := sum_map_pos_nat (fun k => -f k) L (fun k hk => by have := hnp k hk; linarith)
    (by obtain ⟨k, hk, h⟩ := hex; exact ⟨k, hk, by linarith⟩)
  rw [sum_map_neg_eq_nat] at this
  linarith

/-- `kneedle.differences` on index-given curves, for known normalisation constants -/
theorem kneedleDiffQ_range (x y : Nat → Rat) (n : Nat) (b m xlo xD ylo yD : Rat)
    (hfit : fitQ ((List.range n).map x) ((List.range n).map y) = (b, m))
    (hxlo : listMinQ ((List.range n).map x) = xlo)
    (hxD : listMaxQ ((List.range n).map x) - xlo = xD) (hxD0 : xD ≠ 0)
    (hylo : listMinQ ((List.range n).map y) = ylo)
    (hyD : listMaxQ ((List.range n).map y) - ylo = yD) (hyD0 : yD ≠ 0) :
    kneedleDiffQ ((List.range n).map x) ((List.range n).map y) =
      (List.range n).map fun i =>
        if 0 < m then
          (if 0 < ((List.range n).map fun i => y i - (x i * m + b)).sum
            then (y i - ylo) / yD - (x i - xlo) / xD
            else rabs ((y i - ylo) / yD - (x i - xlo) / xD))
        else
          (if 0 < ((List.range n).map fun i => y i - (x i * m + b)).sum
            then (x i - xlo) / xD + (y i - ylo) / yD
            else 1 - ((x i - xlo) / xD + (y i - ylo) / yD)) := by
  unfold kneedleDiffQ normQ
  simp only [hfit, hxlo, hxD, hylo, hyD, if_neg hxD0, if_neg hyD0, List.map_map,
    zipWith_map_range, decide_eq_true_eq, Function.comp_def]

/-! ## 4. The chord of an elbow -/

/-- slope of the chord through the first and the last point (what `linear_fit` returns) -/
def chordM (x y : Nat → Rat) (n : Nat) : Rat := (y 0 - y (n - 1)) / (x 0 - x (n - 1))

section chord
variable {x y : Nat → Rat} {n c : Nat} {s1 s2 : Rat}

theorem IsElbow.u_pos (h : IsElbow x y n c s1 s2) : 0 < x c - x 0 := by
  have h1 := h.arm1
  have := h.lt (i := 0) (j := c) (by omega) h.cn
  linarith

theorem IsElbow.v_pos (h : IsElbow x y n c s1 s2) : 0 < x (n - 1) - x c := by
  have h2 := h.arm2
  have := h.lt (i := c) (j := n - 1) (by omega) (by omega)
  linarith

theorem IsElbow.y_corner (h : IsElbow x y n c s1 s2) : y c = y 0 + s1 * (x c - x 0) :=
  h.left c (Nat.le_refl c)

theorem IsElbow.y_last (h : IsElbow x y n c s1 s2) :
    y (n - 1) = y 0 + s1 * (x c - x 0) + s2 * (x (n - 1) - x c) := by
  have h2 := h.arm2
  rw [h.right (n - 1) (by omega) (by omega), h.y_corner]

theorem IsElbow.chordM_eq (h : IsElbow x y n c s1 s2) :
    chordM x y n =
      (s1 * (x c - x 0) + s2 * (x (n - 1) - x c)) / ((x c - x 0) + (x (n - 1) - x c)) := by
  have hu := h.u_pos
  have hv := h.v_pos
  have d1 : x 0 - x (n - 1) ≠ 0 := ne_of_lt (by linarith)
  have d2 : (x c - x 0) + (x (n - 1) - x c) ≠ 0 := ne_of_gt (by linarith)
  unfold chordM
  rw [h.y_last, div_eq_div_iff d1 d2]
  ring

theorem IsElbow.chordM_between (h : IsElbow x y n c s1 s2) :
    min s1 s2 < chordM x y n ∧ chordM x y n < max s1 s2 := by
  rw [h.chordM_eq]
  exact convex_between s1 s2 _ _ h.u_pos h.v_pos h.slopes

theorem IsElbow.chordM_mul (h : IsElbow x y n c s1 s2) :
    chordM x y n * (x (n - 1) - x 0) = y (n - 1) - y 0 := by
  have hu := h.u_pos
  have hv := h.v_pos
  have d1 : x 0 - x (n - 1) ≠ 0 := ne_of_lt (by linarith)
  unfold chordM
  field_simp
  ring

/-- `linear_fit` of an elbow: the chord -/
theorem IsElbow.fit (h : IsElbow x y n c s1 s2) :
    fitQ ((List.range n).map x) ((List.range n).map y) =
      (y 0 - chordM x y n * x 0, chordM x y n) := by
  have h2 := h.arm2
  have hu := h.u_pos
  have hv := h.v_pos
  have hd : x 0 - x (n - 1) ≠ 0 := ne_of_lt (by linarith)
  have hn : n ≠ 0 := by omega
  have hh : ∀ f : Nat → Rat, ((List.range n).map f).head? = some (f 0) := by
    intro f
    simp [List.head?_range, hn]
  have hl : ∀ f : Nat → Rat, ((List.range n).map f).getLast? = some (f (n - 1)) := by
    intro f
    simp [List.getLast?_range, hn]
  simp only [fitQ, hh, hl, Option.getD_some, ne_eq, hd, not_false_eq_true, if_true, chordM]

/-- signed vertical distance to the chord, first arm -/
theorem IsElbow.dev_left (h : IsElbow x y n c s1 s2) (i : Nat) (hi : i ≤ c) :
    y i - (x i * chordM x y n + (y 0 - chordM x y n * x 0)) =
      (s1 - chordM x y n) * (x i - x 0) := by
  rw [h.left i hi]
  ring

/-- signed vertical distance to the chord, second arm -/
theorem IsElbow.dev_right (h : IsElbow x y n c s1 s2) (i : Nat) (hi : c ≤ i) (hn : i < n) :
    y i - (x i * chordM x y n + (y 0 - chordM x y n * x 0)) =
      (chordM x y n - s2) * (x (n - 1) - x i) := by
  have h2 := h.arm2
  have hm := h.chordM_mul
  have e1 := h.right i hi hn
  have e2 := h.right (n - 1) (by omega) (by omega)
  rw [e1]
  linarith

theorem IsElbow.x_ge_first (h : IsElbow x y n c s1 s2) (i : Nat) (hi : i < n) : x 0 ≤ x i := by
  rcases Nat.eq_zero_or_pos i with e | e
  · rw [e]
  · exact (h.lt e hi).le

theorem IsElbow.x_le_last (h : IsElbow x y n c s1 s2) (i : Nat) (hi : i < n) :
    x i ≤ x (n - 1) := by
  rcases Nat.lt_or_ge i (n - 1) with e | e
  · exact (h.lt e (by omega)).le
  · have : i = n - 1 := by omega
    rw [this]

/-- the vote `Σ (y − ŷ)` of a concave-down elbow (`s2 < s1`: above its chord) is positive -/
theorem IsElbow.vote_pos (h : IsElbow x y n c s1 s2) (hs : s2 < s1) :
    0 < ((List.range n).map fun i =>
      y i - (x i * chordM x y n + (y 0 - chordM x y n * x 0))).sum := by
  have hb := h.chordM_between
  rw [min_eq_right hs.le, max_eq_left hs.le] at hb
  apply sum_map_pos_nat
  · intro k hk
    have hkn := List.mem_range.mp hk
    rcases Nat.le_total k c with hkc | hkc
    · rw [h.dev_left k hkc]
      have := h.x_ge_first k hkn
      exact mul_nonneg (by linarith) (by linarith)
    · rw [h.dev_right k hkc hkn]
      have := h.x_le_last k hkn
      exact mul_nonneg (by linarith) (by linarith)
  · refine ⟨c, List.mem_range.mpr h.cn, ?_⟩
    rw [h.dev_left c (Nat.le_refl c)]
    exact mul_pos (by linarith) h.u_pos

/-- the vote of a concave-up elbow (`s1 < s2`: below its chord) is negative -/
theorem IsElbow.vote_neg (h : IsElbow x y n c s1 s2) (hs : s1 < s2) :
    ((List.range n).map fun i =>
      y i - (x i * chordM x y n + (y 0 - chordM x y n * x 0))).sum < 0 := by
  have hb := h.chordM_between
  rw [min_eq_left hs.le, max_eq_right hs.le] at hb
  apply sum_map_neg_nat
  · intro k hk
    have hkn := List.mem_range.mp hk
    rcases Nat.le_total k c with hkc | hkc
    · rw [h.dev_left k hkc]
      have := h.x_ge_first k hkn
      exact mul_nonpos_of_nonpos_of_nonneg (by linarith) (by linarith)
    · rw [h.dev_right k hkc hkn]
      have := h.x_le_last k hkn
      exact mul_nonpos_of_nonpos_of_nonneg (by linarith) (by linarith)
  · refine ⟨c, List.mem_range.mpr h.cn, ?_⟩
    rw [h.dev_left c (Nat.le_refl c)]
    exact mul_neg_of_neg_of_pos (by linarith) h.u_pos

theorem IsElbow.xs_min (h : IsElbow x y n c s1 s2) : listMinQ ((List.range n).map x) = x 0 :=
  listMinQ_range x n 0 (by have := h.cn; omega) (fun i hi => h.x_ge_first i hi)

theorem IsElbow.xs_max (h : IsElbow x y n c s1 s2) :
    listMaxQ ((List.range n).map x) = x (n - 1) :=
  listMaxQ_range x n (n - 1) (by have := h.cn; omega) (fun i hi => h.x_le_last i hi)

/-- an affine function of the points of an elbow that grows along the first arm and decreases
along the second has its only strict peak at the corner -/
theorem IsElbow.affine_unimodal (h : IsElbow x y n c s1 s2) (a b k : Rat)
    (h1 : 0 < a + b * s1) (h2 : a + b * s2 < 0) :
    kneedleKnee ((List.range n).map fun i => a * x i + b * y i + k) = some c := by
  have hc1 := h.arm1
  have hc2 := h.arm2
  apply unimodal_peak
  · omega
  · simp only [List.length_map, List.length_range]; omega
  · intro i hi
    rw [map_range_getD _ n i (by omega), map_range_getD _ n (i + 1) (by omega)]
    have hx := h.lt (i := i) (j := i + 1) (by omega) (by omega)
    rw [h.left_line i (by omega), h.left_line (i + 1) (by omega)]
    have : 0 < (a + b * s1) * (x (i + 1) - x i) := mul_pos h1 (by linarith)
    linarith
  · intro i hi hlen
    simp only [List.length_map, List.length_range] at hlen
    rw [map_range_getD _ n i (by omega), map_range_getD _ n (i + 1) (by omega)]
    have hx := h.lt (i := i) (j := i + 1) (by omega) (by omega)
    rw [h.right_line i (by omega) (by omega), h.right_line (i + 1) (by omega) (by omega)]
    have : (a + b * s2) * (x (i + 1) - x i) < 0 := mul_neg_of_neg_of_pos h2 (by linarith)
    linarith

/-! ## 5. Kneedle on a monotone elbow: the four (direction × concavity) cases -/

theorem coef_inc (X Y m s : Rat) (hX : X ≠ 0) (hY : Y ≠ 0) (hm : m * X = Y) :
    -1 / X + 1 / Y * s = (s - m) / Y := by
  have e : m = Y / X := eq_div_of_mul_eq hX hm
  subst e
  field_simp
  ring

theorem coef_dec (X Y m s : Rat) (hX : X ≠ 0) (hY : Y ≠ 0) (hm : m * X = -Y) :
    1 / X + 1 / Y * s = (s - m) / Y := by
  have e : m = -Y / X := eq_div_of_mul_eq hX hm
  subst e
  field_simp
  ring

theorem rabs_of_nonpos (z : Rat) (hz : z ≤ 0) : rabs z = -z := by
  unfold rabs
  split_ifs with h
  · have : z = 0 := le_antisymm hz h
    rw [this]; simp
  · rfl

theorem IsElbow.x_mono (h : IsElbow x y n c s1 s2) {i j : Nat} (hij : i ≤ j) (hj : j < n) :
    x i ≤ x j := by
  rcases Nat.eq_or_lt_of_le hij with e | e
  · rw [e]
  · exact (h.lt e hj).le

/-- a non-decreasing elbow stays between its end points -/
theorem IsElbow.y_bounds_inc (h : IsElbow x y n c s1 s2) (h1 : 0 ≤ s1) (h2 : 0 ≤ s2) (i : Nat)
    (hi : i < n) : y 0 ≤ y i ∧ y i ≤ y (n - 1) := by
  have ha := h.arm2
  have hcn := h.cn
  have hv := h.v_pos
  have hu := h.u_pos
  have el := h.right (n - 1) (by omega) (by omega)
  have ec := h.y_corner
  rcases Nat.le_total i c with hic | hic
  · have e := h.left_corner i hic
    have e0 := h.left i hic
    have hx0 := h.x_mono (Nat.zero_le i) hi
    have hxc := h.x_mono hic hcn
    have p1 : 0 ≤ s1 * (x i - x 0) := mul_nonneg h1 (by linarith)
    have p2 : 0 ≤ s1 * (x c - x i) := mul_nonneg h1 (by linarith)
    have p3 : 0 ≤ s2 * (x (n - 1) - x c) := mul_nonneg h2 hv.le
    constructor <;> linarith
  · have e := h.right i hic hi
    have hxc := h.x_mono hic hi
    have hxl := h.x_le_last i hi
    have p1 : 0 ≤ s1 * (x c - x 0) := mul_nonneg h1 hu.le
    have p2 : 0 ≤ s2 * (x i - x c) := mul_nonneg h2 (by linarith)
    have p3 : 0 ≤ s2 * (x (n - 1) - x i) := mul_nonneg h2 (by linarith)
    constructor <;> linarith

/-- a non-increasing elbow stays between its end points -/
theorem IsElbow.y_bounds_dec (h : IsElbow x y n c s1 s2) (h1 : s1 ≤ 0) (h2 : s2 ≤ 0) (i : Nat)
    (hi : i < n) : y (n - 1) ≤ y i ∧ y i ≤ y 0 := by
  have ha := h.arm2
  have hcn := h.cn
  have hv := h.v_pos
  have hu := h.u_pos
  have el := h.right (n - 1) (by omega) (by omega)
  have ec := h.y_corner
  rcases Nat.le_total i c with hic | hic
  · have e := h.left_corner i hic
    have e0 := h.left i hic
    have hx0 := h.x_mono (Nat.zero_le i) hi
    have hxc := h.x_mono hic hcn
    have p1 : s1 * (x i - x 0) ≤ 0 := mul_nonpos_of_nonpos_of_nonneg h1 (by linarith)
    have p2 : s1 * (x c - x i) ≤ 0 := mul_nonpos_of_nonpos_of_nonneg h1 (by linarith)
    have p3 : s2 * (x (n - 1) - x c) ≤ 0 := mul_nonpos_of_nonpos_of_nonneg h2 hv.le
    constructor <;> linarith
  · have e := h.right i hic hi
    have hxc := h.x_mono hic hi
    have hxl := h.x_le_last i hi
    have p1 : s1 * (x c - x 0) ≤ 0 := mul_nonpos_of_nonpos_of_nonneg h1 hu.le
    have p2 : s2 * (x i - x c) ≤ 0 := mul_nonpos_of_nonpos_of_nonneg h2 (by linarith)
    have p3 : s2 * (x (n - 1) - x i) ≤ 0 := mul_nonpos_of_nonpos_of_nonneg h2 (by linarith)
    constructor <;> linarith

/-- total rise of an increasing elbow -/
theorem IsElbow.rise_pos (h : IsElbow x y n c s1 s2) (h1 : 0 ≤ s1) (h2 : 0 ≤ s2)
    (hp : 0 < s1 ∨ 0 < s2) : 0 < y (n - 1) - y 0 := by
  have hv := h.v_pos
  have hu := h.u_pos
  rw [h.y_last]
  rcases hp with hp | hp
  · have := mul_pos hp hu
    have := mul_nonneg h2 hv.le
    linarith
  · have := mul_pos hp hv
    have := mul_nonneg h1 hu.le
    linarith

/-- total drop of a decreasing elbow -/
theorem IsElbow.drop_pos (h : IsElbow x y n c s1 s2) (h1 : s1 ≤ 0) (h2 : s2 ≤ 0)
    (hp : s1 < 0 ∨ s2 < 0) : 0 < y 0 - y (n - 1) := by
  have hv := h.v_pos
  have hu := h.u_pos
  rw [h.y_last]
  rcases hp with hp | hp
  · have := mul_neg_of_neg_of_pos hp hu
    have := mul_nonpos_of_nonpos_of_nonneg h2 hv.le
    linarith
  · have := mul_neg_of_neg_of_pos hp hv
    have := mul_nonpos_of_nonpos_of_nonneg h1 hu.le
    linarith

theorem IsElbow.X_pos (h : IsElbow x y n c s1 s2) : 0 < x (n - 1) - x 0 := by
  have := h.u_pos
  have := h.v_pos
  linarith

/-- signed distance to the chord: non-negative for `s2 < s1` -/
theorem IsElbow.dev_nonneg (h : IsElbow x y n c s1 s2) (hs : s2 < s1) (i : Nat) (hi : i < n) :
    0 ≤ y i - (x i * chordM x y n + (y 0 - chordM x y n * x 0)) := by
  have hb := h.chordM_between
  rw [min_eq_right hs.le, max_eq_left hs.le] at hb
  rcases Nat.le_total i c with hkc | hkc
  · rw [h.dev_left i hkc]
    have := h.x_ge_first i hi
    exact mul_nonneg (by linarith) (by linarith)
  · rw [h.dev_right i hkc hi]
    have := h.x_le_last i hi
    exact mul_nonneg (by linarith) (by linarith)

/-- signed distance to the chord: non-positive for `s1 < s2` -/
theorem IsElbow.dev_nonpos (h : IsElbow x y n c s1 s2) (hs : s1 < s2) (i : Nat) (hi : i < n) :
    y i - (x i * chordM x y n + (y 0 - chordM x y n * x 0)) ≤ 0 := by
  have hb := h.chordM_between
  rw [min_eq_left hs.le, max_eq_right hs.le] at hb
  rcases Nat.le_total i c with hkc | hkc
  · rw [h.dev_left i hkc]
    have := h.x_ge_first i hi
    exact mul_nonpos_of_nonpos_of_nonneg (by linarith) (by linarith)
  · rw [h.dev_right i hkc hi]
    have := h.x_le_last i hi
    exact mul_nonpos_of_nonpos_of_nonneg (by linarith) (by linarith)

/-- the difference curve of an increasing elbow -/
theorem IsElbow.kneedleDiff_inc (h : IsElbow x y n c s1 s2) (h1 : 0 ≤ s1) (h2 : 0 ≤ s2)
    (hp : 0 < s1 ∨ 0 < s2) :
    kneedleDiffQ ((List.range n).map x) ((List.range n).map y) =
      (List.range n).map fun i =>
        if 0 < ((List.range n).map fun i =>
            y i - (x i * chordM x y n + (y 0 - chordM x y n * x 0))).sum
          then (y i - y 0) / (y (n - 1) - y 0) - (x i - x 0) / (x (n - 1) - x 0)
          else rabs ((y i - y 0) / (y (n - 1) - y 0) - (x i - x 0) / (x (n - 1) - x 0)) := by
  have hcn := h.cn
  have hY := h.rise_pos h1 h2 hp
  have hX := h.X_pos
  have hm : 0 < chordM x y n := by
    have := h.chordM_mul
    by_contra hc
    have := mul_nonpos_of_nonpos_of_nonneg (not_lt.mp hc) hX.le
    linarith
  have hylo : listMinQ ((List.range n).map y) = y 0 :=
    listMinQ_range y n 0 (by omega) (fun i hi => (h.y_bounds_inc h1 h2 i hi).1)
  have hyhi : listMaxQ ((List.range n).map y) = y (n - 1) :=
    listMaxQ_range y n (n - 1) (by omega) (fun i hi => (h.y_bounds_inc h1 h2 i hi).2)
  rw [kneedleDiffQ_range x y n _ _ (x 0) (x (n - 1) - x 0) (y 0) (y (n - 1) - y 0) h.fit h.xs_min
    (by rw [h.xs_max]) (ne_of_gt hX) hylo (by rw [hyhi]) (ne_of_gt hY)]
  simp only [if_pos hm]

/-- the difference curve of a decreasing elbow -/
theorem IsElbow.kneedleDiff_dec (h : IsElbow x y n c s1 s2) (h1 : s1 ≤ 0) (h2 : s2 ≤ 0)
    (hp : s1 < 0 ∨ s2 < 0) :
    kneedleDiffQ ((List.range n).map x) ((List.range n).map y) =
      (List.range n).map fun i =>
        if 0 < ((List.range n).map fun i =>
            y i - (x i * chordM x y n + (y 0 - chordM x y n * x 0))).sum
          then (x i - x 0) / (x (n - 1) - x 0) + (y i - y (n - 1)) / (y 0 - y (n - 1))
          else 1 - ((x i - x 0) / (x (n - 1) - x 0) + (y i - y (n - 1)) / (y 0 - y (n - 1))) := by
  have hcn := h.cn
  have hY := h.drop_pos h1 h2 hp
  have hX := h.X_pos
  have hm : ¬ 0 < chordM x y n := by
    have := h.chordM_mul
    intro hc
    have := mul_pos hc hX
    linarith
  have hylo : listMinQ ((List.range n).map y) = y (n - 1) :=
    listMinQ_range y n (n - 1) (by omega) (fun i hi => (h.y_bounds_dec h1 h2 i hi).1)
  have hyhi : listMaxQ ((List.range n).map y) = y 0 :=
    listMaxQ_range y n 0 (by omega) (fun i hi => (h.y_bounds_dec h1 h2 i hi).2)
  rw [kneedleDiffQ_range x y n _ _ (x 0) (x (n - 1) - x 0) (y (n - 1)) (y 0 - y (n - 1)) h.fit
    h.xs_min (by rw [h.xs_max]) (ne_of_gt hX) hylo (by rw [hyhi]) (ne_of_gt hY)]
  simp only [if_neg hm]

/-- **Kneedle, increasing concave-down elbow** (`0 ≤ s2 < s1`): `y_n − x_n` peaks at the corner -/
theorem kneedle_elbow_increasing_concave (h : IsElbow x y n c s1 s2) (h2 : 0 ≤ s2) (hs : s2 < s1) :
    kneedleKneeQ ((List.range n).map x) ((List.range n).map y) = some c := by
  have h1 : 0 ≤ s1 := by linarith
  have hp : 0 < s1 ∨ 0 < s2 := Or.inl (by linarith)
  have hY := h.rise_pos h1 h2 hp
  have hX := h.X_pos
  have hb := h.chordM_between
  rw [min_eq_right hs.le, max_eq_left hs.le] at hb
  have hmul : chordM x y n * (x (n - 1) - x 0) = y (n - 1) - y 0 := h.chordM_mul
  unfold kneedleKneeQ
  rw [h.kneedleDiff_inc h1 h2 hp]
  simp only [if_pos (h.vote_pos hs)]
  have e : ((List.range n).map fun i =>
      (y i - y 0) / (y (n - 1) - y 0) - (x i - x 0) / (x (n - 1) - x 0)) =
      (List.range n).map fun i => (-1 / (x (n - 1) - x 0)) * x i + (1 / (y (n - 1) - y 0)) * y i +
        (x 0 / (x (n - 1) - x 0) - y 0 / (y (n - 1) - y 0)) :=
    List.map_congr_left (fun i _ => by ring)
  rw [e]
  apply h.affine_unimodal
  · rw [coef_inc _ _ _ s1 (ne_of_gt hX) (ne_of_gt hY) hmul]
    exact div_pos (by linarith) hY
  · rw [coef_inc _ _ _ s2 (ne_of_gt hX) (ne_of_gt hY) hmul]
    exact div_neg_of_neg_of_pos (by linarith) hY

/-- **Kneedle, increasing concave-up elbow** (`0 ≤ s1 < s2`): `|y_n − x_n| = x_n − y_n` peaks at
the corner -/
theorem kneedle_elbow_increasing_convex (h : IsElbow x y n c s1 s2) (h1 : 0 ≤ s1) (hs : s1 < s2) :
    kneedleKneeQ ((List.range n).map x) ((List.range n).map y) = some c := by
  have h2 : 0 ≤ s2 := by linarith
  have hp : 0 < s1 ∨ 0 < s2 := Or.inr (by linarith)
  have hY := h.rise_pos h1 h2 hp
  have hX := h.X_pos
  have hb := h.chordM_between
  rw [min_eq_left hs.le, max_eq_right hs.le] at hb
  have hmul : chordM x y n * (x (n - 1) - x 0) = y (n - 1) - y 0 := h.chordM_mul
  unfold kneedleKneeQ
  rw [h.kneedleDiff_inc h1 h2 hp]
  simp only [if_neg (not_lt.mpr (h.vote_neg hs).le)]
  have e : ((List.range n).map fun i =>
      rabs ((y i - y 0) / (y (n - 1) - y 0) - (x i - x 0) / (x (n - 1) - x 0))) =
      (List.range n).map fun i => (1 / (x (n - 1) - x 0)) * x i + (-1 / (y (n - 1) - y 0)) * y i +
        (y 0 / (y (n - 1) - y 0) - x 0 / (x (n - 1) - x 0)) := by
    apply List.map_congr_left
    intro i hi
    have hin := List.mem_range.mp hi
    have hdev := h.dev_nonpos hs i hin
    have hz : (y i - y 0) / (y (n - 1) - y 0) - (x i - x 0) / (x (n - 1) - x 0) =
        (y i - (x i * chordM x y n + (y 0 - chordM x y n * x 0))) / (y (n - 1) - y 0) := by
      have em : chordM x y n = (y (n - 1) - y 0) / (x (n - 1) - x 0) :=
        eq_div_of_mul_eq (ne_of_gt hX) hmul
      rw [em]
      have dX := ne_of_gt hX
      have dY := ne_of_gt hY
      field_simp
      ring
    rw [rabs_of_nonpos _ (by rw [hz]; exact div_nonpos_of_nonpos_of_nonneg hdev hY.le)]
    ring
  rw [e]
  apply h.affine_unimodal
  · have := coef_inc _ _ _ s1 (ne_of_gt hX) (ne_of_gt hY) hmul
    have e2 : 1 / (x (n - 1) - x 0) + -1 / (y (n - 1) - y 0) * s1 =
        -(-1 / (x (n - 1) - x 0) + 1 / (y (n - 1) - y 0) * s1) := by ring
    rw [e2, this]
    have := div_neg_of_neg_of_pos (by linarith : s1 - chordM x y n < 0) hY
    linarith
  · have := coef_inc _ _ _ s2 (ne_of_gt hX) (ne_of_gt hY) hmul
    have e2 : 1 / (x (n - 1) - x 0) + -1 / (y (n - 1) - y 0) * s2 =
        -(-1 / (x (n - 1) - x 0) + 1 / (y (n - 1) - y 0) * s2) := by ring
    rw [e2, this]
    have := div_pos (by linarith : 0 < s2 - chordM x y n) hY
    linarith

/-- **Kneedle, decreasing concave-down elbow** (`s2 < s1 ≤ 0`): `x_n + y_n` peaks at the corner -/
theorem kneedle_elbow_decreasing_concave (h : IsElbow x y n c s1 s2) (h1 : s1 ≤ 0) (hs : s2 < s1) :
    kneedleKneeQ ((List.range n).map x) ((List.range n).map y) = some c := by
  have h2 : s2 ≤ 0 := by linarith
  have hp : s1 < 0 ∨ s2 < 0 := Or.inr (by linarith)
  have hY := h.drop_pos h1 h2 hp
  have hX := h.X_pos
  have hb := h.chordM_between
  rw [min_eq_right hs.le, max_eq_left hs.le] at hb
  have hmul : chordM x y n * (x (n - 1) - x 0) = -(y 0 - y (n - 1)) := by
    rw [h.chordM_mul]; ring
  unfold kneedleKneeQ
  rw [h.kneedleDiff_dec h1 h2 hp]
  simp only [if_pos (h.vote_pos hs)]
  have e : ((List.range n).map fun i =>
      (x i - x 0) / (x (n - 1) - x 0) + (y i - y (n - 1)) / (y 0 - y (n - 1))) =
      (List.range n).map fun i => (1 / (x (n - 1) - x 0)) * x i + (1 / (y 0 - y (n - 1))) * y i +
        (-(x 0 / (x (n - 1) - x 0)) - y (n - 1) / (y 0 - y (n - 1))) :=
    List.map_congr_left (fun i _ => by ring)
  rw [e]
  apply h.affine_unimodal
  · rw [coef_dec _ _ _ s1 (ne_of_gt hX) (ne_of_gt hY) hmul]
    exact div_pos (by linarith) hY
  · rw [coef_dec _ _ _ s2 (ne_of_gt hX) (ne_of_gt hY) hmul]
    exact div_neg_of_neg_of_pos (by linarith) hY

/-- **Kneedle, decreasing concave-up elbow** (`s1 < s2 ≤ 0`, the classic "elbow" of a cost curve):
`1 − (x_n + y_n)` peaks at the corner -/
theorem kneedle_elbow_decreasing_convex (h : IsElbow x y n c s1 s2) (h2 : s2 ≤ 0) (hs : s1 < s2) :
    kneedleKneeQ ((List.range n).map x) ((List.range n).map y) = some c := by
  have h1 : s1 ≤ 0 := by linarith
  have hp : s1 < 0 ∨ s2 < 0 := Or.inl (by linarith)
  have hY := h.drop_pos h1 h2 hp
  have hX := h.X_pos
  have hb := h.chordM_between
  rw [min_eq_left hs.le, max_eq_right hs.le] at hb
  have hmul : chordM x y n * (x (n - 1) - x 0) = -(y 0 - y (n - 1)) := by
    rw [h.chordM_mul]; ring
  unfold kneedleKneeQ
  rw [h.kneedleDiff_dec h1 h2 hp]
  simp only [if_neg (not_lt.mpr (h.vote_neg hs).le)]
  have e : ((List.range n).map fun i =>
      1 - ((x i - x 0) / (x (n - 1) - x 0) + (y i - y (n - 1)) / (y 0 - y (n - 1)))) =
      (List.range n).map fun i => (-1 / (x (n - 1) - x 0)) * x i + (-1 / (y 0 - y (n - 1))) * y i +
        (1 + x 0 / (x (n - 1) - x 0) + y (n - 1) / (y 0 - y (n - 1))) :=
    List.map_congr_left (fun i _ => by ring)
  rw [e]
  apply h.affine_unimodal
  · have := coef_dec _ _ _ s1 (ne_of_gt hX) (ne_of_gt hY) hmul
    have e2 : -1 / (x (n - 1) - x 0) + -1 / (y 0 - y (n - 1)) * s1 =
        -(1 / (x (n - 1) - x 0) + 1 / (y 0 - y (n - 1)) * s1) := by ring
    rw [e2, this]
    have := div_neg_of_neg_of_pos (by linarith : s1 - chordM x y n < 0) hY
    linarith
  · have := coef_dec _ _ _ s2 (ne_of_gt hX) (ne_of_gt hY) hmul
    have e2 : -1 / (x (n - 1) - x 0) + -1 / (y 0 - y (n - 1)) * s2 =
        -(1 / (x (n - 1) - x 0) + 1 / (y 0 - y (n - 1)) * s2) := by ring
    rw [e2, this]
    have := div_pos (by linarith : 0 < s2 - chordM x y n) hY
    linarith

/-- **Kneedle on a monotone elbow** (no smoothing): the highest strict peak of the difference curve
is the corner, in all four direction × concavity cases. -/
theorem kneedle_elbow (h : IsElbow x y n c s1 s2)
    (hmono : (0 ≤ s1 ∧ 0 ≤ s2 ∧ (0 < s1 ∨ 0 < s2)) ∨ (s1 ≤ 0 ∧ s2 ≤ 0 ∧ (s1 < 0 ∨ s2 < 0))) :
    kneedleKneeQ ((List.range n).map x) ((List.range n).map y) = some c := by
  rcases hmono with ⟨h1, h2, _⟩ | ⟨h1, h2, _⟩
  · rcases lt_or_gt_of_ne h.slopes with hs | hs
    · exact kneedle_elbow_increasing_convex h h1 hs
    · exact kneedle_elbow_increasing_concave h h2 hs
  · rcases lt_or_gt_of_ne h.slopes with hs | hs
    · exact kneedle_elbow_decreasing_convex h h2 hs
    · exact kneedle_elbow_decreasing_concave h h1 hs

end chord

end Knee

import Knee.Model.Filters
/-!
Helper lemmas for `worstGo` / `worstFilter` (running-minimum filter) and for the two
complementary corner filters.  Used by `Props/C13.lean`.
-/
namespace Knee

/-! ### `worstGo` -/

theorem worstGo_sublist (h : Nat → Rat) (m : Rat) (ks : List Nat) :
    (worstGo h m ks).Sublist ks := by
  induction ks generalizing m with
  | nil => simp [worstGo]
  | cons a ks ih =>
    simp only [worstGo]
    split
    · exact (ih _).cons_cons _
    · exact (ih _).cons _

/-- every kept knee is at most the current running minimum -/
theorem worstGo_le (h : Nat → Rat) (m : Rat) (ks : List Nat) :
    ∀ k ∈ worstGo h m ks, h k ≤ m := by
  induction ks generalizing m with
  | nil => simp [worstGo]
  | cons a ks ih =>
    intro k hk
    simp only [worstGo] at hk
    split at hk
    · rcases List.mem_cons.1 hk with rfl | hk
      · assumption
      · have := ih _ k hk
        grind
    · exact ih _ k hk

theorem worstGo_pairwise (h : Nat → Rat) (m : Rat) (ks : List Nat) :
    (worstGo h m ks).Pairwise (fun a b => h b ≤ h a) := by
  induction ks generalizing m with
  | nil => simp [worstGo]
  | cons a ks ih =>
    simp only [worstGo]
    split
    · exact List.pairwise_cons.2 ⟨fun b hb => worstGo_le h _ ks b hb, ih _⟩
    · exact ih _

/-- a non-increasing list that starts below the running minimum is kept entirely -/
theorem worstGo_fix (h : Nat → Rat) (m : Rat) (ks : List Nat)
    (hp : ks.Pairwise (fun a b => h b ≤ h a)) (hm : ∀ k ∈ ks, h k ≤ m) :
    worstGo h m ks = ks := by
  induction ks generalizing m with
  | nil => simp [worstGo]
  | cons a ks ih =>
    have ha : h a ≤ m := hm a (by simp)
    rw [List.pairwise_cons] at hp
    simp only [worstGo, ha, if_true]
    rw [ih _ hp.2 hp.1]

theorem worstGo_idem (h : Nat → Rat) (m : Rat) (ks : List Nat) :
    worstGo h m (worstGo h m ks) = worstGo h m ks :=
  worstGo_fix h m _ (worstGo_pairwise h m ks) (worstGo_le h m ks)

/-- membership in `worstGo`: some occurrence of `k` is below the start value and below every
earlier input knee (kept or dropped). -/
theorem mem_worstGo (h : Nat → Rat) (m : Rat) (ks : List Nat) (k : Nat) :
    k ∈ worstGo h m ks ↔
      ∃ pre post, ks = pre ++ k :: post ∧ h k ≤ m ∧ ∀ j ∈ pre, h k ≤ h j := by
  induction ks generalizing m with
  | nil => simp [worstGo]
  | cons a ks ih =>
    simp only [worstGo]
    by_cases ha : h a ≤ m
    · simp only [ha, if_true, List.mem_cons]
      constructor
      · rintro (rfl | hk)
        · exact ⟨[], ks, rfl, ha, by simp⟩
        · obtain ⟨pre, post, rfl, hka, hpre⟩ := (ih _).1 hk
          refine ⟨a :: pre, post, rfl, by grind, ?_⟩
          intro j hj
          rcases List.mem_cons.1 hj with rfl | hj
          · exact hka
          · exact hpre j hj
      · rintro ⟨pre, post, heq, hkm, hpre⟩
        cases pre with
        | nil =>
          simp only [List.nil_append, List.cons.injEq] at heq
          exact Or.inl heq.1.symm
        | cons b pre =>
          simp only [List.cons_append, List.cons.injEq] at heq
          obtain ⟨rfl, rfl⟩ := heq
          refine Or.inr ((ih _).2 ⟨pre, post, rfl, hpre _ (by simp), ?_⟩)
          intro j hj
          exact hpre j (by simp [hj])
    · simp only [ha, if_false]
      constructor
      · intro hk
        obtain ⟨pre, post, rfl, hkm, hpre⟩ := (ih _).1 hk
        refine ⟨a :: pre, post, rfl, hkm, ?_⟩
        intro j hj
        rcases List.mem_cons.1 hj with rfl | hj
        · grind
        · exact hpre j hj
      · rintro ⟨pre, post, heq, hkm, hpre⟩
        cases pre with
        | nil =>
          simp only [List.nil_append, List.cons.injEq] at heq
          obtain ⟨rfl, rfl⟩ := heq
          exact absurd hkm ha
        | cons b pre =>
          simp only [List.cons_append, List.cons.injEq] at heq
          obtain ⟨rfl, rfl⟩ := heq
          refine (ih _).2 ⟨pre, post, rfl, hkm, ?_⟩
          intro j hj
          exact hpre j (by simp [hj])

/-! ### `worstFilter` -/

theorem mem_worstFilter (h : Nat → Rat) (ks : List Nat) (k : Nat) :
    k ∈ worstFilter h ks ↔ ∃ pre post, ks = pre ++ k :: post ∧ ∀ j ∈ pre, h k ≤ h j := by
  cases ks with
  | nil => simp [worstFilter]
  | cons a ks =>
    simp only [worstFilter, List.mem_cons, mem_worstGo]
    constructor
    · rintro (rfl | ⟨pre, post, rfl, hka, hpre⟩)
      · exact ⟨[], ks, rfl, by simp⟩
      · refine ⟨a :: pre, post, rfl, ?_⟩
        intro j hj
        rcases List.mem_cons.1 hj with rfl | hj
        · exact hka
        · exact hpre j hj
    · rintro ⟨pre, post, heq, hpre⟩
      cases pre with
      | nil =>
        simp only [List.nil_append, List.cons.injEq] at heq
        exact Or.inl heq.1.symm
      | cons b pre =>
        simp only [List.cons_append, List.cons.injEq] at heq
        obtain ⟨rfl, rfl⟩ := heq
        exact Or.inr ⟨pre, post, rfl, hpre _ (by simp), fun j hj => hpre j (by simp [hj])⟩

/-! ### corner filters -/

/-- the `cornerSelect` predicate is the Boolean negation of the `cornerFilter` predicate -/
theorem cornerSelect_pred (n : Nat) (iou : Nat → Rat) (t : Rat) (k : Nat) :
    (hasNeighbours n k && decide (t ≤ iou k)) =
      !(if hasNeighbours n k then decide (iou k < t) else true) := by
  cases hN : hasNeighbours n k
  · simp
  · simp only [Bool.true_and, if_true]
    by_cases hlt : iou k < t
    · have : ¬ t ≤ iou k := by grind
      simp [hlt, this]
    · have : t ≤ iou k := by grind
      simp [hlt, this]

/-- a filter and the filter by the negated predicate partition the list -/
theorem filter_append_filter_not_perm {α : Type} (p : α → Bool) (l : List α) :
    (l.filter p ++ l.filter (fun a => !p a)).Perm l := by
  induction l with
  | nil => simp
  | cons a l ih =>
    cases hp : p a
    · simp only [List.filter_cons, hp, Bool.not_false, if_true]
      exact (List.perm_middle).trans (ih.cons a)
    · simp only [List.filter_cons, hp, Bool.not_true, if_true, List.cons_append]
      simpa using ih.cons a

end Knee

import Knee.Model.RdpM
/-! Bridging lemmas: each monadic twin, run at `Id` with pure oracles, *is* the pure model. -/
namespace Knee

theorem segCostM_id (isR2 : Bool) (cst : Nat → Nat → Rat) (l r : Nat) :
    segCostM (m := Id) isR2 (fun l r => pure (cst l r)) l r = pure (segCost isR2 cst l r) := by
  unfold segCostM segCost; split <;> rfl

theorem rdpLoopM_id (isR2 : Bool) (t : Rat) (cst : Nat → Nat → Rat) (dst : Nat → Nat → List Rat) :
    ∀ (f : Nat) (st out : List (Nat × Nat)),
      rdpLoopM (m := Id) isR2 t (fun l r => pure (cst l r)) (fun l r => pure (dst l r)) f st out
        = pure (rdpLoop isR2 t cst dst f st out) := by
  intro f
  induction f with
  | zero => intro st out; rfl
  | succ f ih =>
    intro st out
    match st with
    | [] => rfl
    | (l, r) :: st' =>
      simp only [rdpLoopM, rdpLoop, segCostM_id, pure_bind]
      split
      · simp only [ih]
      · simp only [ih]

theorem rdpM_id (isR2 : Bool) (t : Rat) (cst : Nat → Nat → Rat) (dst : Nat → Nat → List Rat) (n : Nat) :
    rdpM (m := Id) isR2 t (fun l r => pure (cst l r)) (fun l r => pure (dst l r)) n = pure (rdp isR2 t cst dst n) := by
  simp only [rdpM, rdp, rdpLoopM_id, pure_bind]

theorem refineStepM_id (dst : Nat → Nat → List Rat) (key : Nat → Nat → Nat → Rat × Rat) (s : RState) :
    refineStepM (m := Id) (fun l r => pure (dst l r)) (fun l r i => pure (key l r i)) s = pure (refineStep dst key s) := by
  unfold refineStepM refineStep
  cases h : s.stack.getLast? with
  | none => rfl
  | some top =>
    obtain ⟨k, l, r⟩ := top
    simp only [pure_bind]

theorem fixedLoopM_id (dst : Nat → Nat → List Rat) (key : Nat → Nat → Nat → Rat × Rat) :
    ∀ (k : Nat) (s : RState),
      fixedLoopM (m := Id) (fun l r => pure (dst l r)) (fun l r i => pure (key l r i)) k s = pure (fixedLoop dst key k s) := by
  intro k
  induction k with
  | zero => intro s; rfl
  | succ k ih =>
    intro s
    simp only [fixedLoopM, fixedLoop, refineStepM_id, pure_bind, ih]
    split <;> rfl

theorem grdpLoopM_id (accept : List Nat → Bool) (dst : Nat → Nat → List Rat) (key : Nat → Nat → Nat → Rat × Rat) :
    ∀ (f : Nat) (s : RState),
      grdpLoopM (m := Id) (fun red => pure (accept red)) (fun l r => pure (dst l r)) (fun l r i => pure (key l r i)) f s
        = pure (grdpLoop accept dst key f s) := by
  intro f
  induction f with
  | zero => intro s; rfl
  | succ f ih =>
    intro s
    simp only [grdpLoopM, grdpLoop, refineStepM_id, pure_bind, ih]
    split <;> rfl

theorem mpGrdpM_id (accept : List Nat → Bool) (dst : Nat → Nat → List Rat) (key : Nat → Nat → Nat → Rat × Rat) (n mp : Nat) :
    mpGrdpM (m := Id) (fun red => pure (accept red)) (fun l r => pure (dst l r)) (fun l r i => pure (key l r i)) n mp
      = pure (mpGrdp accept dst key n mp) := by
  simp only [mpGrdpM, mpGrdp, grdpLoopM_id, fixedLoopM_id, pure_bind]
  split <;> rfl

theorem minPointRdpM_id (acceptAt : Rat → List Nat → Bool) (dst : Nat → Nat → List Rat) (key : Nat → Nat → Nat → Rat × Rat) (n mp : Nat) :
    ∀ ts, minPointRdpM (m := Id) (fun t red => pure (acceptAt t red)) (fun l r => pure (dst l r)) (fun l r i => pure (key l r i)) n mp ts
      = pure (minPointRdp acceptAt dst key n mp ts) := by
  intro ts
  induction ts with
  | nil => simp only [minPointRdpM, minPointRdp, rdpFixed, fixedLoopM_id, pure_bind]
  | cons t ts ih =>
    simp only [minPointRdpM, minPointRdp, grdp, grdpLoopM_id, pure_bind, ih]
    split <;> rename_i h <;> simp only [h, if_true, if_false]

end Knee

import Knee.Model.ClusterFilter
import Knee.Lemmas.Basic
import Knee.Lemmas.Argmax
import Knee.Lemmas.Geometry
/-!
Helper lemmas for `Model/ClusterFilter.lean` (C12): the grouping of the knees into contiguous
label runs, the rank-based picker, generic facts about `filterMap` over a list of groups, and the
named per-group pickers of the three filter variants.
-/
namespace Knee

/-! ### grouping -/

theorem groupGo_flatten : ∀ (ls ks : List Nat) (lab : Nat) (cur : List Nat),
    ls.length = ks.length → (groupGo ls ks lab cur).flatten = cur.reverse ++ ks := by
  intro ls
  induction ls with
  | nil =>
    intro ks lab cur h
    have hk : ks = [] := List.length_eq_zero_iff.1 (by simpa using h.symm)
    subst hk
    cases cur <;> simp [groupGo]
  | cons l ls ih =>
    intro ks lab cur h
    cases ks with
    | nil => simp at h
    | cons k ks =>
      have h' : ls.length = ks.length := by simpa using h
      unfold groupGo
      split
      · rw [ih ks lab (k :: cur) h']; simp
      · rw [List.flatten_append, ih ks l [k] h']
        cases cur <;> simp

theorem groupGo_nonempty : ∀ (ls ks : List Nat) (lab : Nat) (cur : List Nat),
    ∀ c ∈ groupGo ls ks lab cur, c ≠ [] := by
  intro ls
  induction ls with
  | nil =>
    intro ks lab cur c hc
    cases cur with
    | nil => simp [groupGo] at hc
    | cons a as => simp [groupGo] at hc; subst hc; simp
  | cons l ls ih =>
    intro ks lab cur c hc
    cases ks with
    | nil =>
      cases cur with
      | nil => simp [groupGo] at hc
      | cons a as => simp [groupGo] at hc; subst hc; simp
    | cons k ks =>
      unfold groupGo at hc
      split at hc
      · exact ih ks lab (k :: cur) c hc
      · rcases List.mem_append.1 hc with h1 | h1
        · cases cur with
          | nil => simp at h1
          | cons a as => simp at h1; subst h1; simp
        · exact ih ks l [k] c h1

theorem groupByLabels_flatten (labels knees : List Nat) (h : labels.length = knees.length) :
    (groupByLabels labels knees).flatten = knees := by
  cases labels with
  | nil =>
    have hk : knees = [] := List.length_eq_zero_iff.1 (by simpa using h.symm)
    simp [groupByLabels, hk]
  | cons l ls => simpa [groupByLabels] using groupGo_flatten (l :: ls) knees l [] h

theorem groupByLabels_nonempty (labels knees : List Nat) :
    ∀ c ∈ groupByLabels labels knees, c ≠ [] := by
  cases labels with
  | nil => simp [groupByLabels]
  | cons l ls => simpa [groupByLabels] using groupGo_nonempty (l :: ls) knees l []

/-- a member of a list of lists is a contiguous block of the concatenation -/
theorem infix_flatten_of_mem {α : Type} {G : List (List α)} {c : List α} (hc : c ∈ G) :
    c <:+: G.flatten := by
  obtain ⟨s, t, rfl⟩ := List.append_of_mem hc
  exact ⟨s.flatten, t.flatten, by simp⟩

/-! ### generic `filterMap` facts -/

/-- picking at most one member from every group gives a sublist of the concatenation -/
theorem filterMap_pick_sublist {α : Type} (f : List α → Option α)
    (hf : ∀ c k, f c = some k → k ∈ c) (G : List (List α)) :
    (G.filterMap f).Sublist G.flatten := by
  induction G with
  | nil => simp
  | cons c G ih =>
    rw [List.filterMap_cons, List.flatten_cons]
    cases hfc : f c with
    | none => exact List.Sublist.trans ih (List.sublist_append_right _ _)
    | some k =>
      have : [k].Sublist c := List.singleton_sublist.2 (hf c k hfc)
      exact List.Sublist.append this ih

/-- a picker that succeeds on every group yields exactly one output per group, in order -/
theorem filterMap_all_some {α β : Type} (f : α → Option β) (G : List α)
    (hf : ∀ c ∈ G, ∃ k, f c = some k) :
    (G.filterMap f).length = G.length ∧
      ∀ i (hi : i < G.length), (G.filterMap f)[i]? = f G[i] := by
  induction G with
  | nil => simp
  | cons c G ih =>
    obtain ⟨k, hk⟩ := hf c List.mem_cons_self
    obtain ⟨ih1, ih2⟩ := ih (fun c hc => hf c (List.mem_cons_of_mem _ hc))
    rw [List.filterMap_cons, hk]
    refine ⟨by simp [ih1], ?_⟩
    intro i hi
    cases i with
    | zero => simp [hk]
    | succ i =>
      have hi' : i < G.length := by simpa using hi
      simpa using ih2 i hi'

/-! ### the rank picker -/

/-- the ranks as rationals (as passed to `argmaxIdx` in the model) -/
def ranksQ (scores : List Rat) : List Rat :=
  (rankOf scores).map fun (r : Nat) => ((r : Int) : Rat)

theorem pickByRank_eq (scores : List Rat) (c : List Nat) :
    pickByRank scores c = c[argmaxIdx (ranksQ scores)]? := rfl

theorem ranksQ_length (scores : List Rat) : (ranksQ scores).length = scores.length := by
  simp [ranksQ, rankOf]

theorem ranksQ_getD (scores : List Rat) {i : Nat} (hi : i < scores.length) :
    (ranksQ scores)[i]?.getD 0 = (((rk scores i : Nat) : Int) : Rat) := by
  have h := rankOf_getD scores hi
  have hl : i < (rankOf scores).length := by simpa [rankOf] using hi
  rw [List.getElem?_eq_getElem hl] at h
  simp only [Option.getD_some] at h
  simp [ranksQ, hl, h]

theorem natIntRat_le {a b : Nat} (h : (((a : Nat) : Int) : Rat) ≤ (((b : Nat) : Int) : Rat)) :
    a ≤ b := by
  have := Rat.intCast_le_intCast.1 h
  omega

/-- the argmax of the ranks is a maximiser of the scores -/
theorem argmax_ranksQ_max (scores : List Rat) (j : Nat) (hj : j < scores.length) :
    scores[j]?.getD 0 ≤ scores[argmaxIdx (ranksQ scores)]?.getD 0 := by
  have hne : ranksQ scores ≠ [] := by
    intro h0
    have := ranksQ_length scores
    rw [h0] at this
    simp at this
    omega
  have hi : argmaxIdx (ranksQ scores) < scores.length := by
    have := argmaxIdx_lt_length hne
    rwa [ranksQ_length] at this
  have hge := argmaxIdx_ge (l := ranksQ scores) j (by rw [ranksQ_length]; exact hj)
  rw [ranksQ_getD scores hj, ranksQ_getD scores hi] at hge
  have hle : rk scores j ≤ rk scores (argmaxIdx (ranksQ scores)) := natIntRat_le hge
  by_contra hlt
  have hlt' : scores[argmaxIdx (ranksQ scores)]?.getD 0 < scores[j]?.getD 0 := by grind
  have := rk_lt_of_rkLt scores hi ((rkLt_iff scores _ j).2 (Or.inl hlt'))
  omega

theorem argmax_ranksQ_lt (scores : List Rat) (hne : scores ≠ []) :
    argmaxIdx (ranksQ scores) < scores.length := by
  have hne' : ranksQ scores ≠ [] := by
    intro h0
    have := ranksQ_length scores
    rw [h0] at this
    exact hne (List.length_eq_zero_iff.1 this.symm)
  have := argmaxIdx_lt_length hne'
  rwa [ranksQ_length] at this

/-! ### per-group pickers -/

/-- left / linear / right mode: picker of one group -/
def rankPick (score : List Nat → List Rat) (c : List Nat) : Option Nat :=
  if c.length > 1 then pickByRank (score c) c else c.head?

/-- hull mode: picker of one group -/
def hullPick (hull : List Nat) (herr : List Nat → Nat → Rat) (c : List Nat) : Option Nat :=
  if c.length > 1 then
    let a := c.head?.getD 0
    let b := c.getLast?.getD 0
    let hw := hull.filter fun h => a ≤ h ∧ h ≤ b
    if hw.length > 1 then pickByRank (hullScores hw herr c) c
    else if hw.length = 1 then pickByRank (c.map fun j => if j ∈ hw then (1 : Rat) else 0) c
    else none
  else
    match c.head? with
    | some k => if k ∈ hull then some k else none
    | none => none

/-- corner variant: picker of one group -/
def cornerPick (area : List Nat → List Rat) (c : List Nat) : Option Nat :=
  c[argmaxIdx (area c)]?

theorem clusterFilter_eq (score : List Nat → List Rat) (labels knees : List Nat)
    (h2 : 2 ≤ knees.length) :
    clusterFilter score labels knees = (groupByLabels labels knees).filterMap (rankPick score) := by
  have : ¬ knees.length ≤ 1 := by omega
  simp only [clusterFilter, this, if_false]
  rfl

theorem clusterFilterHull_eq (hull : List Nat) (herr : List Nat → Nat → Rat)
    (labels knees : List Nat) (h2 : 2 ≤ knees.length) :
    clusterFilterHull hull herr labels knees =
      (groupByLabels labels knees).filterMap (hullPick hull herr) := by
  have : ¬ knees.length ≤ 1 := by omega
  simp only [clusterFilterHull, this, if_false]
  rfl

theorem clusterFilterCorners_eq (area : List Nat → List Rat) (labels knees : List Nat) :
    clusterFilterCorners area labels knees =
      (groupByLabels labels knees).filterMap (cornerPick area) := rfl

theorem pickByRank_mem' {scores : List Rat} {c : List Nat} {k : Nat}
    (h : pickByRank scores c = some k) : k ∈ c :=
  List.mem_of_getElem? h

theorem rankPick_mem (score : List Nat → List Rat) (c : List Nat) (k : Nat)
    (h : rankPick score c = some k) : k ∈ c := by
  unfold rankPick at h
  split at h
  · exact pickByRank_mem' h
  · exact List.mem_of_mem_head? h

theorem hullPick_mem (hull : List Nat) (herr : List Nat → Nat → Rat) (c : List Nat) (k : Nat)
    (h : hullPick hull herr c = some k) : k ∈ c := by
  unfold hullPick at h
  split at h
  · simp only at h
    split at h
    · exact pickByRank_mem' h
    · split at h
      · exact pickByRank_mem' h
      · simp at h
  · split at h
    · rename_i k' hk'
      split at h
      · simp at h; subst h; exact List.mem_of_mem_head? hk'
      · simp at h
    · simp at h

theorem cornerPick_mem (area : List Nat → List Rat) (c : List Nat) (k : Nat)
    (h : cornerPick area c = some k) : k ∈ c :=
  List.mem_of_getElem? h

end Knee

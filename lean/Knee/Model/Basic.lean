/-
Model layer, shared basics.  Import-free (core Lean only) so that the driver can be
compiled/run without Mathlib.  Everything here is executable.
-/
namespace Knee

/-- `|x|` on core `Rat`, written with an `if` so that `split`/`grind` see it. -/
def rabs (x : Rat) : Rat := if 0 ≤ x then x else -x

/-- `numpy.argmax` on a finite, NaN-free array: index of the *first* maximum.
`bi`/`bv` = best index/value so far, `i` = index of the head of the remaining list. -/
def argmaxGo (bi : Nat) (bv : Rat) (i : Nat) : List Rat → Nat
  | [] => bi
  | x :: xs => if bv < x then argmaxGo i x (i + 1) xs else argmaxGo bi bv (i + 1) xs

def argmaxIdx : List Rat → Nat
  | [] => 0
  | x :: xs => argmaxGo 0 x 1 xs

/-- `numpy.argmin`: index of the first minimum. -/
def argminGo (bi : Nat) (bv : Rat) (i : Nat) : List Rat → Nat
  | [] => bi
  | x :: xs => if x < bv then argminGo i x (i + 1) xs else argminGo bi bv (i + 1) xs

def argminIdx : List Rat → Nat
  | [] => 0
  | x :: xs => argminGo 0 x 1 xs

/-- `a[1:-1]` -/
def interior {α} (l : List α) : List α := (l.drop 1).dropLast

/-- insertion into an ascending list (models `list.append(x); list.sort()`). -/
def insertSorted (x : Nat) : List Nat → List Nat
  | [] => [x]
  | y :: ys => if x ≤ y then x :: y :: ys else y :: insertSorted x ys

end Knee

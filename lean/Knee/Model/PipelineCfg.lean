import Knee.Model.Rdp
import Knee.Model.RdpM
import Knee.Model.MultiKnee
import Knee.Model.Pipeline
import Knee.Model.EvenPoints
/-
The end-to-end pipeline for EVERY configuration the package offers (C08 quantifies over "every
simplifier, detector and filter configuration"):

  simplifier  ∈ { rdp, grdp, rdp_fixed, mp_grdp, min_point_rdp }          (`Simplifier`)
  multi-knee  with any detector / straightness gate / size gate           (`det`, `gate`, `t2` oracles)
  worst-knee filter → corner filter                                       (`h`, `iou`, `tc`)
  cluster filter ∈ { left/linear/right ranking, hull ranking, corners }   (`ClusterMode`)
  final stage ∈ { rdp.mapping, postprocessing.add_points_even }           (`Final`)

`pipelineFull` (threshold RDP, rank modes, mapping) is the instance
`pipelineCfg (.rdp isR2 t) … (.rank score) .map`.
All floating-point quantities are oracles.  Oracles of the later stages are indexed in REDUCED
space, exactly as the code evaluates them on `points[reduced]`; `hOrig` (heights of the original
curve), `wide`, `npts` belong to `add_points_even`, which works on the original curve.
-/
namespace Knee

/-- which simplifier produces `(reduced, removed)` -/
inductive Simplifier where
  | rdp (isR2 : Bool) (t : Rat)
  | grdp (isR2 : Bool) (t : Rat)
  | fixed (k : Nat)
  | mpGrdp (isR2 : Bool) (t : Rat) (m : Nat)
  | minPoint (isR2 : Bool) (m : Nat) (ts : List Rat)
deriving Repr

/-- the floating-point quantities a simplifier consults -/
structure SimpOracles where
  cst : Nat → Nat → Rat
  dst : Nat → Nat → List Rat
  key : Nat → Nat → Nat → Rat × Rat
  gcs : List Nat → Rat

/-- Every simplifier returns `(reduced, removed)`; the four stack-ordered variants compute the
removed table with `compute_removed_points(reduced)` in the code itself (rdp.py), threshold RDP
builds it from its segment list. `none` only if threshold RDP ran out of fuel (proved impossible). -/
def simplify (s : Simplifier) (o : SimpOracles) (n : Nat) : Option (List Nat × List (Nat × Nat)) :=
  match s with
  | .rdp isR2 t => rdp isR2 t o.cst o.dst n
  | .grdp isR2 t => let r := grdp (acceptOf isR2 t o.gcs) o.dst o.key n; some (r, computeRemoved r)
  | .fixed k => let r := rdpFixed o.dst o.key n k; some (r, computeRemoved r)
  | .mpGrdp isR2 t m => let r := mpGrdp (acceptOf isR2 t o.gcs) o.dst o.key n m; some (r, computeRemoved r)
  | .minPoint isR2 m ts =>
    let r := minPointRdp (fun t => acceptOf isR2 t o.gcs) o.dst o.key n m (sortDesc ts); some (r, computeRemoved r)

/-- which cluster filter picks the representative of each cluster -/
inductive ClusterMode where
  | rank (score : List Nat → List Rat)
  | hull (hull : List Nat) (herr : List Nat → Nat → Rat)
  | corners (area : List Nat → List Rat)

def clusterStage (m : ClusterMode) (labels knees : List Nat) : List Nat :=
  match m with
  | .rank score => clusterFilter score labels knees
  | .hull hull herr => clusterFilterHull hull herr labels knees
  | .corners area => clusterFilterCorners area labels knees

/-- how reduced-space knees become original-curve indices -/
inductive Final where
  | map
  | addEven (hOrig : Nat → Rat) (wide : Nat → Bool) (npts : Nat → Nat) (extremes : Bool)

structure StagesCfg where
  reduced : List Nat
  removed : List (Nat × Nat)
  knees : List Nat
  worst : List Nat
  corner : List Nat
  cluster : List Nat
  out : List Nat
deriving Repr

def pipelineCfg (s : Simplifier) (o : SimpOracles) (n : Nat)
    (det : Nat → Nat → Option Nat) (gate : Nat → Nat → Bool) (t2 : Nat)
    (h : Nat → Rat) (iou : Nat → Rat) (tc : Rat) (labelsOf : List Nat → List Nat)
    (cm : ClusterMode) (fin : Final) : Option StagesCfg :=
  match simplify s o n with
  | none => none
  | some (reduced, removed) =>
    match multiKnee det gate t2 reduced.length with
    | none => none
    | some knees =>
      let w := worstFilter h knees
      let c := cornerFilter reduced.length iou tc w
      let k := clusterStage cm (labelsOf c) c
      let out := match fin with
        | .map => mapping k reduced removed true
        | .addEven hOrig wide npts ext => addEven hOrig n reduced removed k wide npts ext
      some { reduced := reduced, removed := removed, knees := knees, worst := w, corner := c, cluster := k, out := out }

end Knee

import Knee.Model.Basic
import Knee.Model.Mapping
import Knee.Model.Filters
import Knee.Model.MultiKnee
/-
Model of `postprocessing.add_points_even` and `add_points_even_knees` (postprocessing.py:303-430).
Layer S: the two floating-point decisions per segment are oracles —
* `wide i`  : normalised width `> 2*tx` and normalised height `> ty` for segment `i`
* `npts i`  : `int(math.ceil(pdx / (2.0*tx)))` for segment `i`
(their exact definitions over ℚ are `wideQ` / `nptsQ`); index arithmetic, `mapping`, `np.unique`,
and the final worst-knee filter are modelled exactly.  `h k` = height of point `k`.
-/
namespace Knee

/-- the `number_points` indices `left + j*inc`, `j = 1 … number_points`, `inc = int((right-left)/number_points)` -/
def evenInsert (left right npts : Nat) : List Nat :=
  (List.range npts).map fun j => left + (j + 1) * ((right - left) / npts)

/-- `np.unique` (sorted, duplicate-free) -/
def insertUniq (x : Nat) : List Nat → List Nat
  | [] => [x]
  | y :: ys => if x < y then x :: y :: ys else if x = y then y :: ys else y :: insertUniq x ys
def dedupSort (l : List Nat) : List Nat := l.foldr insertUniq []

/-- `add_points_even`: segments are consecutive pairs of `reduced` (segment `i` = positions `i, i+1`) -/
def addEven (h : Nat → Rat) (n : Nat) (reduced : List Nat) (removed : List (Nat × Nat)) (knees : List Nat)
    (wide : Nat → Bool) (npts : Nat → Nat) (extremes : Bool) : List Nat :=
  let segs := (List.range (reduced.length - 1)).filter wide
  let cand := mapping (segs.flatMap fun i => [i, i + 1]) reduced removed true
  let rec pairs : List Nat → List Nat → List Nat
    | i :: is, l :: r :: rest => evenInsert l r (npts i) ++ pairs is rest
    | _, _ => []
  let new := pairs segs cand
  let mapped := mapping knees reduced removed true
  worstFilter h (dedupSort (mapped ++ new ++ (if extremes then [0, n - 1] else [])))

/-- `add_points_even_knees`: markers are the knees themselves (original indices); gaps are
`(0, k₀), (k₀, k₁), …, (k_last, n-1)`, gap `i` = i-th of that list -/
def gapsOfKnees (n : Nat) (knees : List Nat) : List (Nat × Nat) :=
  let ks := 0 :: knees ++ [n - 1]
  ks.zip (ks.drop 1)

def addEvenKnees (h : Nat → Rat) (n : Nat) (knees : List Nat) (wide : Nat → Bool) (npts : Nat → Nat) (extremes : Bool) : List Nat :=
  let gaps := gapsOfKnees n knees
  let new := ((List.range gaps.length).filter wide).flatMap fun i =>
    let g := gaps[i]?.getD (0, 0)
    evenInsert g.1 g.2 (npts i)
  worstFilter h (dedupSort (knees ++ new ++ (if extremes then [0, n - 1] else [])))

/-! ### Layer N: the exact decisions -/

/-- width/height test of a segment with end points `(xl,yl)`, `(xr,yr)` on a curve of extent `dx × dy` -/
def wideQ (xl yl xr yr dx dy tx ty : Rat) : Bool :=
  decide (2 * tx < rabs (xr - xl) / dx) && decide (ty < rabs (yr - yl) / dy)

/-- `ceil(pdx / (2*tx))` -/
def nptsQ (xl xr dx tx : Rat) : Nat := (Rat.ceil ((rabs (xr - xl) / dx) / (2 * tx))).toNat

end Knee

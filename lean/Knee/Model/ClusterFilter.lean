import Knee.Model.Basic
import Knee.Model.Geometry
/-
Model of `postprocessing.filter_clusters` (left / linear / right / hull ranking) and
`filter_clusters_corners` (postprocessing.py:130-300).  Layer S:
* `labels` – cluster label of every knee (from the linkage, C11: starts at 0, steps 0/1);
* `score c` – `knee_ranking.smooth_ranking(points, c, method)` for the members `c` of one cluster;
* `herr c j` – hull mode: length-weighted two-chord error of member `j` in cluster `c`;
* `area c` – corner variant: `rank_corners_triangle(points, c)`.
`kr.rank` is modelled by `rankOf` (a stable order; NumPy's argsort tie order is not specified, so on
equal scores the correspondence is relational: the chosen member must attain the maximal score).
-/
namespace Knee

/-- consecutive runs of equal labels -/
def groupGo : List Nat → List Nat → Nat → List Nat → List (List Nat)
  | [], _, _, cur => if cur.isEmpty then [] else [cur.reverse]
  | _ :: _, [], _, cur => if cur.isEmpty then [] else [cur.reverse]
  | l :: ls, k :: ks, lab, cur =>
    if l = lab then groupGo ls ks lab (k :: cur)
    else (if cur.isEmpty then [] else [cur.reverse]) ++ groupGo ls ks l [k]

/-- `knees[clusters == i]` for i = 0 … max: the knees grouped by (contiguous) label -/
def groupByLabels (labels knees : List Nat) : List (List Nat) :=
  match labels with
  | [] => []
  | l :: _ => groupGo labels knees l []

/-- `idx = np.argmax(kr.rank(rankings)); best = cluster[idx]` -/
def pickByRank (scores : List Rat) (members : List Nat) : Option Nat :=
  members[argmaxIdx ((rankOf scores).map fun (r : Nat) => ((r : Int) : Rat))]?

/-- left / linear / right ranking -/
def clusterFilter (score : List Nat → List Rat) (labels knees : List Nat) : List Nat :=
  if knees.length ≤ 1 then knees else
    (groupByLabels labels knees).filterMap fun c =>
      if c.length > 1 then pickByRank (score c) c else c.head?

def listMax (l : List Rat) : Rat := l.foldl (fun a b => if a ≤ b then b else a) (l.head?.getD 0)

/-- hull ranking of one multi-member cluster -/
def hullScores (hw : List Nat) (herr : List Nat → Nat → Rat) (c : List Nat) : List Rat :=
  let raw := c.map fun j => if j ∈ hw then herr c j else (-1 : Rat)
  let mx := listMax raw
  let raw' := raw.map fun v => if v < 0 then mx else v
  let mx' := listMax raw'
  raw'.map fun v => mx' - v

def clusterFilterHull (hull : List Nat) (herr : List Nat → Nat → Rat) (labels knees : List Nat) : List Nat :=
  if knees.length ≤ 1 then knees else
    (groupByLabels labels knees).filterMap fun c =>
      if c.length > 1 then
        let a := c.head?.getD 0
        let b := c.getLast?.getD 0
        let hw := hull.filter fun h => a ≤ h ∧ h ≤ b
        if hw.length > 1 then pickByRank (hullScores hw herr c) c
        else if hw.length = 1 then pickByRank (c.map fun j => if j ∈ hw then (1 : Rat) else 0) c
        else none
      else
        match c.head? with
        | some k => if k ∈ hull then some k else none
        | none => none

/-- `filter_clusters_corners`: per cluster the first maximiser of the corner-triangle score -/
def clusterFilterCorners (area : List Nat → List Rat) (labels knees : List Nat) : List Nat :=
  (groupByLabels labels knees).filterMap fun c => c[argmaxIdx (area c)]?

end Knee

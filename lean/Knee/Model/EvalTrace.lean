import Knee.Model.Basic
import Knee.Model.Metrics
import Knee.Model.Ranking
import Knee.Model.GlobalCost
/-
Layer N (exact ℚ) models of the remaining evaluation / ranking arithmetic (suite X03):

* `accTrace`      – `evaluation.accuracy_trace(points, knees)`; the per-gap `linear_r2` values are an ORACLE
                    `coef l r` (value of `lf.linear_r2` on the slice `l … r` with its end-point line); `accTraceQ` plugs in
                    the exact definition `coefQ`.
* `rankCornersQ`  – `postprocessing.rank_corners(points, knees)` (x gaps);
* `dist2sim`      – `knee_ranking.distance_to_similarity` (already in `Model/Ranking.lean`);
* `hvResQ`        – `linear_fit.linear_hv_residuals(x, y)`;
* `fitTransformQ`, `fitTransformVQ` – `linear_fit.linear_fit_transform(x, y, vertical)`;
* `costCoefQ`     – `rdp.compute_cost_coef(pt, coef, cost)` (dispatch table `Metrics` → `linear_fit` helper);
* `angleArg`, `angleQ` – `linear_fit.angle(coef1, coef2)`: the argument of `atan` exactly, `atan` a parameter.

What Python does when a division by zero occurs (NumPy: nan/inf + RuntimeWarning, no exception) is modelled by `none`
in the affected output; what makes Python RAISE (IndexError) is modelled by the outer `none`.
-/
namespace Knee

/-- `v[i]` -/
def ptAt (v : List Rat) (i : Nat) : Rat := v[i]?.getD 0

/-- `v[l : r+1]` (empty when `r < l`) -/
def sliceQ (v : List Rat) (l r : Nat) : List Rat := (v.drop l).take (r + 1 - l)

/-- the gaps walked by `accuracy_trace` / `rank_corners`: `(0, k₀), (k₀, k₁), …` -/
def gapsOf (knees : List Nat) : List (Nat × Nat) := (0 :: knees).zip knees

/-- `accuracy_trace` completes (no IndexError) iff there is a knee (`knees[0]`), every knee is an index of the curve,
and no gap runs backwards (`x[a:b+1]` with `b < a` is empty and `linear_fit` reads its `x[0]`). -/
def kneesOk (n : Nat) (knees : List Nat) : Bool :=
  !knees.isEmpty && knees.all (fun k => decide (k < n)) && (gapsOf knees).all (fun g => decide (g.1 ≤ g.2))

/-- `math.fabs(previous - current)` per gap (un-normalised) -/
def gapAbs (v : List Rat) (knees : List Nat) : List Rat :=
  (gapsOf knees).map fun g => rabs (ptAt v g.1 - ptAt v g.2)

/-- `math.fabs(slope)` of the end-point line of each gap's slice -/
def gapSlopes (xs ys : List Rat) (knees : List Nat) : List Rat :=
  (gapsOf knees).map fun g => rabs (fitQ (sliceQ xs g.1 g.2) (sliceQ ys g.1 g.2)).2

def gapCoefs (coef : Nat → Nat → Rat) (knees : List Nat) : List Rat :=
  (gapsOf knees).map fun g => coef g.1 g.2

/-- `math.fabs(v[-1] - v[0])` -/
def extent (v : List Rat) : Rat := rabs (ptAt v (v.length - 1) - ptAt v 0)

/-- `np.array(v) / d`: `none` = a division by zero happened (NumPy: inf / nan entries and a RuntimeWarning) -/
def divAll (v : List Rat) (d : Rat) : Option (List Rat) := if d = 0 then none else some (v.map fun a => a / d)

/-- `c[c < 0] = 0.0` -/
def clip0 (c : Rat) : Rat := if c < 0 then 0 else c

/-- `a * b * c` elementwise -/
def mul3 (a b c : List Rat) : List Rat :=
  List.zipWith (fun u w => u * w) (List.zipWith (fun u w => u * w) a b) c

structure AccTrace where
  avgX : Option Rat
  avgY : Option Rat
  avgSlope : Option Rat
  avgCoef : Option Rat
  cost : Option Rat
deriving DecidableEq, Repr

def accNormX (xs : List Rat) (knees : List Nat) : Option (List Rat) := divAll (gapAbs xs knees) (extent xs)
def accNormSlopes (xs ys : List Rat) (knees : List Nat) : Option (List Rat) :=
  divAll (gapSlopes xs ys knees) (listMax (gapSlopes xs ys knees))
def accNormCoefs (coef : Nat → Nat → Rat) (knees : List Nat) : Option (List Rat) :=
  (divAll (gapCoefs coef knees) (listMax (gapCoefs coef knees))).map fun l => l.map clip0
def accP (coef : Nat → Nat → Rat) (xs ys : List Rat) (knees : List Nat) : Option (List Rat) :=
  match accNormSlopes xs ys knees, accNormX ys knees, accNormCoefs coef knees with
  | some a, some b, some c => some (mul3 a b c)
  | _, _, _ => none
def accCost (coef : Nat → Nat → Rat) (xs ys : List Rat) (knees : List Nat) : Option Rat :=
  match accNormX xs knees, accP coef xs ys knees with
  | some dx, some p => if meanQ p = 0 then none else some (meanQ dx / meanQ p)
  | _, _ => none

/-- `evaluation.accuracy_trace`.  Outer `none`: Python raises IndexError.  Inner `none`s: that output went through a division
by zero (`total_x = 0`, `total_y = 0`, `slopes.max() = 0`, `coeffients.max() = 0`, `np.average(p) = 0`). -/
def accTrace (coef : Nat → Nat → Rat) (xs ys : List Rat) (knees : List Nat) : Option AccTrace :=
  if kneesOk xs.length knees then
    some { avgX := (accNormX xs knees).map meanQ
           avgY := (accNormX ys knees).map meanQ
           avgSlope := (accNormSlopes xs ys knees).map meanQ
           avgCoef := (accNormCoefs coef knees).map meanQ
           cost := accCost coef xs ys knees }
  else none

/-- `lf.linear_r2(x[l:r+1], y[l:r+1], lf.linear_fit(x[l:r+1], y[l:r+1]))`, exactly -/
def coefQ (xs ys : List Rat) (l r : Nat) : Rat :=
  r2Q (sliceQ ys l r) (lineQ (sliceQ xs l r) (fitQ (sliceQ xs l r) (sliceQ ys l r)))

def accTraceQ (xs ys : List Rat) (knees : List Nat) : Option AccTrace := accTrace (coefQ xs ys) xs ys knees

/-- `postprocessing.rank_corners`: `x[k₀] - x[0], x[k₁] - x[k₀], …`; `none` = IndexError (no knee / knee out of range).
Backward gaps are NOT an error here (no slices): they give negative entries. -/
def rankCornersQ (xs : List Rat) (knees : List Nat) : Option (List Rat) :=
  if !knees.isEmpty && knees.all (fun k => decide (k < xs.length)) then
    some ((gapsOf knees).map fun g => ptAt xs g.2 - ptAt xs g.1)
  else none

/-- residual sum of squares of `y` against the end-point line `y = m·x + b` of `(x, y)` (`linear_residuals(x, y, linear_fit(x, y))`) -/
def resFit (xs ys : List Rat) : Rat := rssQ ys (lineQ xs (fitQ xs ys))

/-- `linear_fit.linear_hv_residuals` -/
def hvResQ (xs ys : List Rat) : Rat :=
  if resFit xs ys ≤ resFit ys xs then resFit xs ys else resFit ys xs

/-- `linear_fit.linear_fit_transform(x, y, vertical=False)` -/
def fitTransformQ (xs ys : List Rat) : List Rat := lineQ xs (fitQ xs ys)

/-- `linear_fit.linear_fit_transform(x, y, vertical=True)`: `(y, y_hat)` or `(x, x_hat)` -/
def fitTransformVQ (xs ys : List Rat) : List Rat × List Rat :=
  if resFit xs ys ≤ resFit ys xs then (ys, lineQ xs (fitQ xs ys)) else (xs, lineQ ys (fitQ ys xs))

/-- `rdp.compute_cost_coef(pt, coef, cost)`: `methods[cost](pt, coef)`; every helper computes `y_hat = x*m + b` and the metric of
`(y, y_hat)`.  Rooted metrics as squares, the logarithm of RMSLE a parameter. -/
def costCoefQ (lg : Rat → Rat) (kind : MKind) (xs ys : List Rat) (coef : Rat × Rat) : Rat :=
  match kind with
  | .r2 => r2Q ys (lineQ xs coef)
  | .rmspe => rmspeSq ys (lineQ xs coef)
  | .rmsle => rmsleSq lg ys (lineQ xs coef)
  | .smape => smapeQ ys (lineQ xs coef)
  | .rpd => rpdQ ys (lineQ xs coef)

/-- the argument of `atan` in `linear_fit.angle`: `(m1 - m2) / (1.0 + m1*m2)`; `none` = division by zero
(ZeroDivisionError for Python floats, ±inf + RuntimeWarning for NumPy scalars) -/
def angleArg (m1 m2 : Rat) : Option Rat := if 1 + m1 * m2 = 0 then none else some ((m1 - m2) / (1 + m1 * m2))

/-- `linear_fit.angle` for an arc tangent `atn` -/
def angleQ {α : Type} (atn : Rat → α) (m1 m2 : Rat) : Option α := (angleArg m1 m2).map atn

end Knee

import Knee.Model.Basic
/-
Model of `rdp.compute_removed_points` (rdp.py:177-198) and `rdp.mapping` (rdp.py:59-94).
Indices are naturals; a row of the removed table is `(left index, number of dropped interior points)`.
-/
namespace Knee

/-- `compute_removed_points`: one row per pair of consecutive retained indices. -/
def computeRemoved : List Nat → List (Nat × Nat)
  | a :: b :: t => (a, b - a - 1) :: computeRemoved (b :: t)
  | _ => []

/-- inner `while j < len(removed) and removed[j][0] < value: count += removed[j][1]; j += 1` -/
def consume (v : Nat) : List (Nat × Nat) → Nat → List (Nat × Nat) × Nat
  | [], c => ([], c)
  | (a, d) :: rs, c => if a < v then consume v rs (c + d) else ((a, d) :: rs, c)

/-- the `for i in indexes` loop; state = remaining rows and running count. -/
def mappingAux (reduced : List Nat) : List Nat → List (Nat × Nat) → Nat → List Nat
  | [], _, _ => []
  | i :: is, rem, c =>
    let p := consume (reduced[i]?.getD 0) rem c
    (i + p.2) :: mappingAux reduced is p.1 p.2

/-- insertion sort of rows by left index (rows have distinct left indices in every
use, so any correct sort gives the same table as `numpy.argsort`). -/
def insertRow (r : Nat × Nat) : List (Nat × Nat) → List (Nat × Nat)
  | [] => [r]
  | s :: ss => if r.1 ≤ s.1 then r :: s :: ss else s :: insertRow r ss

def sortRows : List (Nat × Nat) → List (Nat × Nat)
  | [] => []
  | r :: rs => insertRow r (sortRows rs)

def mapping (idx reduced : List Nat) (removed : List (Nat × Nat)) (sorted : Bool) : List Nat :=
  mappingAux reduced idx (if sorted then removed else sortRows removed) 0

end Knee

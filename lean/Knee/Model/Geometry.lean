import Knee.Model.Basic
import Knee.Model.Filters
/-
Layer N: exact geometric primitives over ℚ (squares instead of square roots).
Points are pairs `(x, y)`.
-/
namespace Knee

abbrev P2 := Rat × Rat

def dot (u v : P2) : Rat := u.1 * v.1 + u.2 * v.2
def cross (u v : P2) : Rat := u.1 * v.2 - u.2 * v.1
def sub (u v : P2) : P2 := (u.1 - v.1, u.2 - v.2)
def normSq (u : P2) : Rat := dot u u

/-- squared distance from `p` to the point `a + lam * (b - a)` of the line through `a`, `b` -/
def distSqAt (p a b : P2) (lam : Rat) : Rat :=
  normSq (sub p (a.1 + lam * (b.1 - a.1), a.2 + lam * (b.2 - a.2)))

/-- `linear_fit.shortest_distance_points`, squared: with v = b - a, S = (a-p)·v, T = (p-b)·v,
C = (p-a)×v the code computes hypot(max(S,T,0)/|v|, C/|v|); for a = b the distance to `a`. -/
def shortestSq (p a b : P2) : Rat :=
  if a = b then normSq (sub p a) else
    let v := sub b a
    let S := dot (sub a p) v
    let T := dot (sub p b) v
    let h := rmax (rmax S T) 0
    let c := cross (sub p a) v
    (h * h + c * c) / normSq v

/-- `linear_fit.perpendicular_distance_points`, squared: |(b-a)×(p-a)|² / |b-a|² -/
def perpSq (p a b : P2) : Rat :=
  let c := cross (sub b a) (sub p a)
  c * c / normSq (sub b a)

/-- `menger.menger_curvature(f, g, h)`, squared: (2·|(g-f)×(h-g)|)² / (|g-f|²·|h-g|²·|f-h|²) -/
def mengerSq (f g h : P2) : Rat :=
  let c := cross (sub g f) (sub h g)
  4 * c * c / (normSq (sub g f) * normSq (sub h g) * normSq (sub f h))

/-- `postprocessing.triangle_area` (signed) -/
def triArea (p0 p1 p2 : P2) : Rat :=
  (p0.1 * (p1.2 - p2.2) + p1.1 * (p2.2 - p0.2) + p2.1 * (p0.2 - p1.2)) / 2

/-- `knee_ranking.rank`: `ranks[argsort(v)[i]] = i`; modelled as the number of entries that sort
strictly before entry `i` (smaller value, or equal value at a smaller index = stable order) -/
def rankOf (v : List Rat) : List Nat :=
  (List.range v.length).map fun i =>
    ((List.range v.length).filter fun j =>
      decide (v[j]?.getD 0 < v[i]?.getD 0) || (decide (v[j]?.getD 0 = v[i]?.getD 0) && decide (j < i))).length

end Knee

/-
C20(b): the checker that decides the generated link table (Knee/Generated/LinkTable.lean).
Import-free; structurally recursive so that `decide +kernel` evaluates it without axioms.
-/
namespace Knee

/-- `rs ⊆ ds` for ascending duplicate-free `rs` and ascending `ds` (merge scan) -/
def subsetSorted : List Nat → List Nat → Bool
  | [], _ => true
  | _ :: _, [] => false
  | r :: rs, d :: ds => if d < r then subsetSorted (r :: rs) ds else if d = r then subsetSorted rs ds else false

structure Sig where
  callee : Nat
  params : List Nat      -- positional-or-keyword parameter names, in order
  nreq : Nat             -- the first `nreq` of them have no default
  varpos : Bool
  varkw : Bool
  kwonly : List Nat
  kwonlyReq : List Nat

structure CallSite where
  callee : Nat
  npos : Nat
  kws : List Nat

/-- would Python accept this call shape? (no *args / **kwargs at the call site) -/
def callOk (s : Sig) (c : CallSite) : Bool :=
  (s.varpos || decide (c.npos ≤ s.params.length)) &&
  c.kws.all (fun k => s.varkw || (s.params.drop c.npos).contains k || s.kwonly.contains k) &&
  (List.range s.nreq).all (fun i => decide (i < c.npos) || c.kws.contains (s.params[i]?.getD 0)) &&
  s.kwonlyReq.all (fun k => c.kws.contains k)

def callOkIn (sigs : List Sig) (c : CallSite) : Bool :=
  match sigs.find? (fun s => s.callee == c.callee) with
  | some s => callOk s c
  | none => false

def linkOk (nameRefs nameDefs attrRefs attrDefs : List Nat) (sigs : List Sig) (calls : List CallSite) : Bool :=
  subsetSorted nameRefs nameDefs && subsetSorted attrRefs attrDefs && calls.all (callOkIn sigs)

end Knee

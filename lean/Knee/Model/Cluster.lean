import Knee.Model.Basic
/-
Model of `clustering.py`.  All four linkages are ONE skeleton (Layer S): walk the points left to
right; point `i` starts a new cluster iff its linkage distance to the current cluster
`[start, i)` is `≥ t`.  `dist start i` is the oracle for that (already divided by the x range).
Layer N gives the four exact distance definitions over ℚ.
-/
namespace Knee

/-- labels of points `i, i+1, …` given the current cluster start and label; `fuel` = points left -/
def linkGo (dist : Nat → Nat → Rat) (t : Rat) : Nat → Nat → Nat → Nat → List Nat
  | 0, _, _, _ => []
  | fuel + 1, i, start, label =>
    if t ≤ dist start i then (label + 1) :: linkGo dist t fuel (i + 1) i (label + 1)
    else label :: linkGo dist t fuel (i + 1) start label

/-- one label per point; the first point is cluster 0 -/
def linkLabels (dist : Nat → Nat → Rat) (t : Rat) (n : Nat) : List Nat :=
  if n = 0 then [] else 0 :: linkGo dist t (n - 1) 1 0 0

/-! ### Layer N: exact linkage distances for x-coordinates `x : Nat → Rat`, range `L` -/

def sumRange (f : Nat → Rat) (a b : Nat) : Rat := ((List.range (b - a)).map fun k => f (a + k)).foldl (· + ·) 0

def distSingle (x : Nat → Rat) (L : Rat) (_start i : Nat) : Rat := rabs (x i - x (i - 1)) / L
def distComplete (x : Nat → Rat) (L : Rat) (start i : Nat) : Rat := rabs (x i - x start) / L
/-- arithmetic mean of the members `start … i-1` -/
def meanRange (x : Nat → Rat) (start i : Nat) : Rat := sumRange x start i / ((i - start : Nat) : Rat)
def distCentroid (x : Nat → Rat) (L : Rat) (start i : Nat) : Rat := rabs (x i - meanRange x start i) / L
def distAverage (x : Nat → Rat) (L : Rat) (start i : Nat) : Rat :=
  sumRange (fun m => rabs (x m - x i)) start i / (((i - start : Nat) : Rat) * L)

/-- the incremental centroid update of `centroid_linkage`:
`center := (size/(size+1))*center + (1/(size+1))*x_i ; size += 1`, started at `(x start, 1)` -/
def centroidInc (x : Nat → Rat) (start : Nat) : Nat → Rat × Nat
  | 0 => (x start, 1)
  | k + 1 =>
    let (c, s) := centroidInc x start k
    (((s : Rat) / ((s : Rat) + 1)) * c + (1 / ((s : Rat) + 1)) * x (start + k + 1), s + 1)

def singleLinkage (x : Nat → Rat) (n : Nat) (t : Rat) : List Nat := linkLabels (distSingle x (x (n - 1) - x 0)) t n
def completeLinkage (x : Nat → Rat) (n : Nat) (t : Rat) : List Nat := linkLabels (distComplete x (x (n - 1) - x 0)) t n
def centroidLinkage (x : Nat → Rat) (n : Nat) (t : Rat) : List Nat := linkLabels (distCentroid x (x (n - 1) - x 0)) t n
def averageLinkage (x : Nat → Rat) (n : Nat) (t : Rat) : List Nat := linkLabels (distAverage x (x (n - 1) - x 0)) t n

/-- number of clusters = last label + 1 -/
def clusterCount (labels : List Nat) : Nat := labels.getLast?.getD 0 + 1

end Knee

import Knee.Model.Basic
/-
Model of `postprocessing.filter_worst_knees`, `filter_corner_knees`, `select_corner_knees`
(postprocessing.py:31-127) and of the rectangle primitives of `knee_ranking.py`.
`h k` = height (y) of the point with index `k`; `iou k` = intersection-over-union of the
corner rectangle and the neighbour rectangle of knee `k` (Layer S: an oracle; its exact
definition `cornerIoU` below is Layer N and is tied to `knee_ranking.rect_overlap` under C17).
-/
namespace Knee

/-- running-minimum filter, state `hmin` = height of the last kept knee -/
def worstGo (h : Nat → Rat) (hmin : Rat) : List Nat → List Nat
  | [] => []
  | k :: ks => if h k ≤ hmin then k :: worstGo h (h k) ks else worstGo h hmin ks

/-- `filter_worst_knees` -/
def worstFilter (h : Nat → Rat) : List Nat → List Nat
  | [] => []
  | k :: ks => k :: worstGo h (h k) ks

/-- a knee has both neighbours: `idx-1 >= 0 and idx+1 < len(points)` -/
def hasNeighbours (n k : Nat) : Bool := decide (1 ≤ k) && decide (k + 1 < n)

/-- `filter_corner_knees`: keep end knees, and knees whose IoU is `< t` -/
def cornerFilter (n : Nat) (iou : Nat → Rat) (t : Rat) (ks : List Nat) : List Nat :=
  ks.filter fun k => if hasNeighbours n k then decide (iou k < t) else true

/-- `select_corner_knees`: knees with both neighbours whose IoU is `≥ t` -/
def cornerSelect (n : Nat) (iou : Nat → Rat) (t : Rat) (ks : List Nat) : List Nat :=
  ks.filter fun k => hasNeighbours n k && decide (t ≤ iou k)

/-! ### Layer N: rectangles and intersection-over-union (`knee_ranking.rect`, `rect_overlap`) -/

def rmin (a b : Rat) : Rat := if a ≤ b then a else b
def rmax (a b : Rat) : Rat := if a ≤ b then b else a

/-- `rect(p1, p2)` = (lower-left, upper-right) -/
def rect (p q : Rat × Rat) : (Rat × Rat) × (Rat × Rat) :=
  ((rmin p.1 q.1, rmin p.2 q.2), (rmax p.1 q.1, rmax p.2 q.2))

/-- `rect_overlap(amin, amax, bmin, bmax)` -/
def rectOverlap (amin amax bmin bmax : Rat × Rat) : Rat :=
  let dx := rmax 0 (rmin amax.1 bmax.1 - rmax amin.1 bmin.1)
  let dy := rmax 0 (rmin amax.2 bmax.2 - rmax amin.2 bmin.2)
  let ov := dx * dy
  if 0 < ov then
    ov / (rabs (amax.1 - amin.1) * rabs (amax.2 - amin.2) + rabs (bmax.1 - bmin.1) * rabs (bmax.2 - bmin.2) - ov)
  else 0

/-- IoU of the corner rectangle `rect((p0.x, p2.y), p1)` and the neighbour rectangle `rect(p0, p2)` -/
def cornerIoU (p0 p1 p2 : Rat × Rat) : Rat :=
  let a := rect (p0.1, p2.2) p1
  let b := rect p0 p2
  rectOverlap a.1 a.2 b.1 b.2

end Knee

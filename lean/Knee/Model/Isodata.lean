import Knee.Model.Basic
/-
Layer N: exact-ℚ model of the ISODATA threshold (`uts.thresholding.isodata`) and of the DFDT
criterion array `|gradient[cutoff:] - isodata(gradient[cutoff:])|`.  Import-free and executable.

```
def isodata(array, eps=1e-6, max_iter=100):
    threshold = mean(array)
    for _ in range(max_iter):
        left = array <= threshold ; right = array > threshold
        if not any(left) or not any(right): break
        new = (mean(array[left]) + mean(array[right])) / 2
        if abs(new - threshold) < eps: threshold = new; break
        threshold = new
    return threshold
```
-/
namespace Knee

/-- `np.mean` -/
def meanL (l : List Rat) : Rat := l.sum / (l.length : Rat)

/-- one ISODATA update from threshold `t`: `none` when one side of the partition is empty
(the `break`), else the midpoint of the two class means -/
def isoStep (a : List Rat) (t : Rat) : Option Rat :=
  let left := a.filter fun v => decide (v ≤ t)
  let right := a.filter fun v => decide (t < v)
  if left.isEmpty || right.isEmpty then none
  else some ((meanL left + meanL right) / 2)

/-- the `for _ in range(max_iter)` loop; the `Nat` is the number of remaining iterations -/
def isoLoop (a : List Rat) (eps : Rat) : Nat → Rat → Rat
  | 0, t => t
  | f + 1, t =>
    match isoStep a t with
    | none => t
    | some new => if rabs (new - t) < eps then new else isoLoop a eps f new

/-- `isodata(array)` with the default `eps = 1e-6`, `max_iter = 100` -/
def isodataQ (a : List Rat) : Rat := isoLoop a (1 / 1000000) 100 (meanL a)

/-- the DFDT criterion array of the tail `g[cutoff:]`: `|g[cutoff:] - isodata(g[cutoff:])|` -/
def dfdtDiffsQ (g : List Rat) (cutoff : Nat) : List Rat :=
  let t := g.drop cutoff
  t.map fun v => rabs (v - isodataQ t)

end Knee

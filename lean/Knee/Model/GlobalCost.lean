import Knee.Model.Basic
import Knee.Model.Metrics
/-
Model of `evaluation.compute_global_cost` / `compute_cost` / `compute_global_rmse` / `mip`
(evaluation.py:565-790).  `segErr l r` = partial cost of the end-point line on the points
`l … r` (inclusive), i.e. `compute_partial_cost(y, y_hat, cost)` — a Layer-S oracle whose exact
definitions for the non-logarithmic metrics are `partialQ` below (Layer N).
The cache is an association list keyed by `(left, right)`; one cache serves one (curve, metric).
-/
namespace Knee

inductive MKind where
  | r2 | rmspe | rmsle | rpd | smape
deriving DecidableEq, Repr

/-- consecutive pairs of the breakpoint list -/
def pairsOf : List Nat → List (Nat × Nat)
  | a :: b :: t => (a, b) :: pairsOf (b :: t)
  | _ => []

/-- `if len(pt) <= 2: 0 else compute_partial_cost(...)`, with `len(pt) = r - l + 1` -/
def segErrG (segErr : Nat → Nat → Rat) (l r : Nat) : Rat := if r - l + 1 ≤ 2 then 0 else segErr l r

def sumErr (segErr : Nat → Nat → Rat) (red : List Nat) : Rat := ((pairsOf red).map fun p => segErrG segErr p.1 p.2).sum

/-- `compute_cost`, with the square root of the rooted metrics left out: for `rmsle`/`rmspe` the value
is the SQUARE of what the code returns (`sqrt` is monotone and `sqrt 0 = 0`, so thresholds compare the
same way after squaring).  `total = len(points) + len(segment_errors) - 1`; R² is clipped at 0. -/
def gcostQ (kind : MKind) (n : Nat) (tss : Rat) (segErr : Nat → Nat → Rat) (red : List Nat) : Rat :=
  let s := sumErr segErr red
  let total : Rat := ((n + (red.length - 1) - 1 : Nat) : Rat)
  match kind with
  | .r2 => let c := if tss = 0 then 1 - s else 1 - s / tss
           if c < 0 then 0 else c
  | _ => let c := s / total
         if c < 0 then 0 else c

/-! ### the shared cache as a state machine -/

abbrev Cache := List ((Nat × Nat) × Rat)

def cacheGet (c : Cache) (k : Nat × Nat) : Option Rat := (c.find? fun e => e.1 == k).map (·.2)

/-- one segment lookup: hit → cached value; miss → compute and store -/
def lookupSeg (segErr : Nat → Nat → Rat) (c : Cache) (k : Nat × Nat) : Rat × Cache :=
  match cacheGet c k with
  | some v => (v, c)
  | none => let v := segErrG segErr k.1 k.2; (v, (k, v) :: c)

/-- the `for i in range(1, len(reduced))` loop against a cache: returns the segment errors and the new cache -/
def evalSegs (segErr : Nat → Nat → Rat) : List (Nat × Nat) → Cache → List Rat × Cache
  | [], c => ([], c)
  | k :: ks, c =>
    let r := lookupSeg segErr c k
    let rest := evalSegs segErr ks r.2
    (r.1 :: rest.1, rest.2)

/-- `compute_global_cost(points, reduced, cost, cache)`: value and updated cache -/
def evalShared (kind : MKind) (n : Nat) (tss : Rat) (segErr : Nat → Nat → Rat) (c : Cache) (red : List Nat) : Rat × Cache :=
  let r := evalSegs segErr (pairsOf red) c
  let s := r.1.sum
  let total : Rat := ((n + (red.length - 1) - 1 : Nat) : Rat)
  let v := match kind with
    | .r2 => let c := if tss = 0 then 1 - s else 1 - s / tss
             if c < 0 then 0 else c
    | _ => let c := s / total
           if c < 0 then 0 else c
  (v, r.2)

/-- a whole query history against one shared cache -/
def runShared (kind : MKind) (n : Nat) (tss : Rat) (segErr : Nat → Nat → Rat) : Cache → List (List Nat) → List Rat
  | _, [] => []
  | c, q :: qs => let r := evalShared kind n tss segErr c q; r.1 :: runShared kind n tss segErr r.2 qs

/-- cache invariant: every stored value is the value a fresh computation gives -/
def CacheOK (segErr : Nat → Nat → Rat) (c : Cache) : Prop := ∀ e ∈ c, e.2 = segErrG segErr e.1.1 e.1.2

/-! ### Layer N: partial costs of a segment against its end-point line (non-logarithmic metrics) -/

def partialQ (kind : MKind) (y yh : List Rat) : Rat :=
  match kind with
  | .r2 => (List.zipWith (fun a b => (a - b) * (a - b)) y yh).sum
  | .rmspe => (List.zipWith (fun a b => ((a - b) / (a + epsM)) * ((a - b) / (a + epsM))) y yh).sum
  | .rpd => (List.zipWith (fun a b => rabs ((a - b) / ((if a ≤ b then b else a) + epsM))) y yh).sum
  | .smape => (List.zipWith (fun a b => 2 * rabs (b - a) / (rabs a + rabs b + epsM)) y yh).sum
  | .rmsle => 0

/-- exact segment error from the curve: points `l … r` against the line through its end points -/
def segErrQ (kind : MKind) (xs ys : List Rat) (l r : Nat) : Rat :=
  let x := (xs.drop l).take (r - l + 1)
  let y := (ys.drop l).take (r - l + 1)
  partialQ kind y (lineQ x (fitQ x y))

/-! ### global RMSE and MIP -/

/-- `compute_global_rmse` squared: Σ segment RSS / n (every segment, 2-point ones included) -/
def grmseSq (rss : Nat → Nat → Rat) (n : Nat) (red : List Nat) : Rat :=
  ((pairsOf red).map fun p => rss p.1 p.2).sum / (n : Rat)

/-- `np.delete(reduced, i)` -/
def deleteAt (l : List Nat) (i : Nat) : List Nat := l.take i ++ l.drop (i + 1)

def insertRat (x : Rat) : List Rat → List Rat
  | [] => [x]
  | y :: ys => if x ≤ y then x :: y :: ys else y :: insertRat x ys
def sortRat (l : List Rat) : List Rat := l.foldr insertRat []

/-- `np.median` -/
def medianQ (l : List Rat) : Rat :=
  let s := sortRat l
  let n := s.length
  if n = 0 then 0 else if n % 2 = 1 then s[n / 2]?.getD 0 else (s[n / 2 - 1]?.getD 0 + s[n / 2]?.getD 0) / 2

/-- `mip`: median (and median absolute deviation) over interior breakpoints of the RMSE increase caused by
deleting that breakpoint; `sq` is the square root supplied as a parameter -/
def mipQ (sq : Rat → Rat) (rss : Nat → Nat → Rat) (n : Nat) (red : List Nat) : Rat × Rat :=
  let fin := sq (grmseSq rss n red)
  let ip := (List.range (red.length - 2)).map fun i => sq (grmseSq rss n (deleteAt red (i + 1))) - fin
  let m := medianQ ip
  (m, medianQ (ip.map fun v => rabs (v - m)))

end Knee

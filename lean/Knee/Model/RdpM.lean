import Knee.Model.Rdp
/-
Monadic twins of the oracle-taking loops of `Knee/Model/Rdp.lean`.  The driver instantiates
them at `m := IO` (oracle calls become questions to the harness, asked lazily, only for the
ranges the model visits).  `Knee/Lemmas/Bridge.lean` proves each twin equal to the pure
function at `m := Id`; what stays trusted is parametricity in `m`.
-/
namespace Knee

def segCostM {m} [Monad m] (isR2 : Bool) (cst : Nat → Nat → m Rat) (l r : Nat) : m Rat :=
  if r - l ≤ 2 then pure (if isR2 then 1 else 0) else cst l r

def rdpLoopM {m} [Monad m] (isR2 : Bool) (t : Rat) (cst : Nat → Nat → m Rat) (dst : Nat → Nat → m (List Rat)) :
    Nat → List (Nat × Nat) → List (Nat × Nat) → m (Option (List (Nat × Nat)))
  | 0, _, _ => pure none
  | _ + 1, [], out => pure (some out)
  | f + 1, (l, r) :: st, out => do
    let c ← segCostM isR2 cst l r
    if curved isR2 t c then
      let d ← dst l r
      rdpLoopM isR2 t cst dst f ((l, l + splitOf d + 1) :: (l + splitOf d, r) :: st) out
    else
      rdpLoopM isR2 t cst dst f st ((l, r) :: out)

def rdpM {m} [Monad m] (isR2 : Bool) (t : Rat) (cst : Nat → Nat → m Rat) (dst : Nat → Nat → m (List Rat)) (n : Nat) :
    m (Option (List Nat × List (Nat × Nat))) := do
  let o ← rdpLoopM isR2 t cst dst (2 * n) [(0, n)] []
  pure (o.map fun out => segsToResult n out.reverse)

def refineStepM {m} [Monad m] (dst : Nat → Nat → m (List Rat)) (key : Nat → Nat → Nat → m (Rat × Rat)) (s : RState) : m RState :=
  match s.stack.getLast? with
  | none => pure s
  | some (_, l, r) => do
    let d ← dst l r
    let k ← key l r (pickSplit d)
    pure (
      let i := pickSplit d
      let st := s.stack.dropLast
      let st := if i + 1 > 2 then st ++ [(k.1, l, l + i + 1)] else st
      let st := if (r - l) - i > 2 then st ++ [(k.2, l + i, r)] else st
      { stack := sortKeyed st, reduced := insertSorted (l + i) s.reduced })

def fixedLoopM {m} [Monad m] (dst : Nat → Nat → m (List Rat)) (key : Nat → Nat → Nat → m (Rat × Rat)) : Nat → RState → m RState
  | 0, s => pure s
  | k + 1, s => if s.stack.isEmpty then pure s else do
    let s' ← refineStepM dst key s
    fixedLoopM dst key k s'

def grdpLoopM {m} [Monad m] (accept : List Nat → m Bool) (dst : Nat → Nat → m (List Rat)) (key : Nat → Nat → Nat → m (Rat × Rat)) :
    Nat → RState → m RState
  | 0, s => pure s
  | f + 1, s => do
    let a ← accept s.reduced
    if a || s.stack.isEmpty then pure s else do
      let s' ← refineStepM dst key s
      grdpLoopM accept dst key f s'

def mpGrdpM {m} [Monad m] (accept : List Nat → m Bool) (dst : Nat → Nat → m (List Rat)) (key : Nat → Nat → Nat → m (Rat × Rat)) (n mp : Nat) :
    m (List Nat) := do
  let s ← grdpLoopM accept dst key n (rinit n)
  if s.reduced.length ≥ mp then pure s.reduced else do
    let s' ← fixedLoopM dst key (mp - s.reduced.length) s
    pure s'.reduced

def minPointRdpM {m} [Monad m] (acceptAt : Rat → List Nat → m Bool) (dst : Nat → Nat → m (List Rat)) (key : Nat → Nat → Nat → m (Rat × Rat))
    (n mp : Nat) : List Rat → m (List Nat)
  | [] => do
    let s ← fixedLoopM dst key (mp - 2) (rinit n)
    pure s.reduced
  | t :: ts => do
    let s ← grdpLoopM (acceptAt t) dst key n (rinit n)
    if s.reduced.length ≥ mp then pure s.reduced else minPointRdpM acceptAt dst key n mp ts

/-- descending insertion sort: `t.sort(reverse=True)` -/
def insertDesc (x : Rat) : List Rat → List Rat
  | [] => [x]
  | y :: ys => if y < x then x :: y :: ys else y :: insertDesc x ys
def sortDesc : List Rat → List Rat
  | [] => []
  | x :: xs => insertDesc x (sortDesc xs)

end Knee

import Knee.Model.PipelineCfg
import Knee.Model.RdpM
import Knee.Model.DetectM
/-
Monadic twin of `pipelineCfg` (`Knee/Model/PipelineCfg.lean`): the same composition, with every
floating-point oracle an action of an arbitrary monad `m`.  The driver runs it at `IO` (each oracle
is a question to the harness, asked lazily, in the space — original or reduced — in which the code
evaluates it); `Knee/Lemmas/BridgeCfg.lean` proves that at `Id` it IS `pipelineCfg`.

The later stages ask whole tables: `hts` (heights of the reduced curve), `ious ks` (IoU of each
listed knee), `labels ks`, per-cluster rows (`scores g` / `herrs g` / `areas g`), `hull`,
`hOrig`/`wide`/`npts` (for `add_points_even`).  Table oracles receive the number of entries they must
return (`hts len`, `hOrig n`, `wide nseg`, `npts nseg`), so that at `Id` they can be instantiated
with the tabulation of the pure model's functions.  `announce red` tells the oracle side that the
curve is now `points[red]`.
-/
namespace Knee

structure SimpOraclesM (m : Type → Type) where
  cst : Nat → Nat → m Rat
  dst : Nat → Nat → m (List Rat)
  key : Nat → Nat → Nat → m (Rat × Rat)
  gcs : List Nat → m Rat

def acceptM {m} [Monad m] (isR2 : Bool) (t : Rat) (gcs : List Nat → m Rat) (red : List Nat) : m Bool := do
  let g ← gcs red
  pure (!curved isR2 t g)

def simplifyM {m} [Monad m] (s : Simplifier) (o : SimpOraclesM m) (n : Nat) : m (Option (List Nat × List (Nat × Nat))) :=
  match s with
  | .rdp isR2 t => rdpM isR2 t o.cst o.dst n
  | .grdp isR2 t => do
    let st ← grdpLoopM (acceptM isR2 t o.gcs) o.dst o.key n (rinit n)
    pure (some (st.reduced, computeRemoved st.reduced))
  | .fixed k => do
    let st ← fixedLoopM o.dst o.key (k - 2) (rinit n)
    pure (some (st.reduced, computeRemoved st.reduced))
  | .mpGrdp isR2 t mp => do
    let r ← mpGrdpM (acceptM isR2 t o.gcs) o.dst o.key n mp
    pure (some (r, computeRemoved r))
  | .minPoint isR2 mp ts => do
    let r ← minPointRdpM (fun t => acceptM isR2 t o.gcs) o.dst o.key n mp (sortDesc ts)
    pure (some (r, computeRemoved r))

/-- table lookup used to turn per-cluster answers into the score function of the pure model -/
def rowOf (tbl : List (List Nat × List Rat)) (c : List Nat) : List Rat :=
  ((tbl.find? fun e => e.1 == c).map (·.2)).getD []

/-- which per-cluster oracle the cluster stage consults -/
inductive ClusterModeM (m : Type → Type) where
  | rank (scores : List Nat → m (List Rat))
  | hull (hull : m (List Nat)) (herrs : List Nat → m (List Rat))
  | corners (areas : List Nat → m (List Rat))

/-- hull-mode error of knee `j` inside cluster `c`, from the row answered for `c` -/
def herrOf (tbl : List (List Nat × List Rat)) (c : List Nat) (j : Nat) : Rat :=
  (((c.zip (rowOf tbl c)).find? fun e => e.1 == j).map (·.2)).getD 0

def clusterStageM {m} [Monad m] (cm : ClusterModeM m) (labels knees : List Nat) : m (List Nat) := do
  let groups := groupByLabels labels knees
  match cm with
  | .rank scores => do
    let rows ← groups.mapM fun g => if g.length > 1 then scores g else pure []
    pure (clusterFilter (rowOf (groups.zip rows)) labels knees)
  | .hull hull herrs => do
    let hl ← hull
    let rows ← groups.mapM fun g => if g.length > 1 then herrs g else pure []
    pure (clusterFilterHull hl (herrOf (groups.zip rows)) labels knees)
  | .corners areas => do
    let rows ← groups.mapM fun g => areas g
    pure (clusterFilterCorners (rowOf (groups.zip rows)) labels knees)

inductive FinalM (m : Type → Type) where
  | map
  | addEven (hOrig : Nat → m (List Rat)) (wide : Nat → m (List Nat)) (npts : Nat → m (List Nat)) (extremes : Bool)

def pipelineCfgM {m} [Monad m] (s : Simplifier) (o : SimpOraclesM m) (n : Nat)
    (announce : List Nat → m Unit)
    (det : Nat → Nat → m (Option Nat)) (gate : Nat → Nat → m Bool) (t2 : Nat)
    (hts : Nat → m (List Rat)) (ious : List Nat → m (List Rat)) (tc : Rat) (labelsOf : List Nat → m (List Nat))
    (cm : ClusterModeM m) (fin : FinalM m) : m (Option StagesCfg) := do
  match ← simplifyM s o n with
  | none => pure none
  | some (reduced, removed) =>
    announce reduced
    match ← multiKneeM det gate t2 reduced.length with
    | none => pure none
    | some knees =>
      let hs ← hts reduced.length
      let w := worstFilter (fun k => hs[k]?.getD 0) knees
      let iv ← if w.isEmpty then pure [] else ious w
      let tbl := w.zip iv
      let c := cornerFilter reduced.length (fun k => ((tbl.find? fun p => p.1 == k).map (·.2)).getD 0) tc w
      let labels ← if c.length ≤ 1 then pure (c.map fun _ => 0) else labelsOf c
      let k ← clusterStageM cm labels c
      let out ← match fin with
        | .map => pure (mapping k reduced removed true)
        | .addEven hOrig wide npts ext => do
          let ho ← hOrig n
          let wd ← wide (reduced.length - 1)
          let np ← npts (reduced.length - 1)
          pure (addEven (fun i => ho[i]?.getD 0) n reduced removed k (fun i => wd[i]?.getD 0 == 1) (fun i => np[i]?.getD 1) ext)
      pure (some { reduced := reduced, removed := removed, knees := knees, worst := w, corner := c, cluster := k, out := out })

end Knee

import Knee.Model.Basic
import Knee.Model.Detectors
import Knee.Model.Metrics
/-
Layer N: `kneedle.knee(points, t=0)` over ℚ (no smoothing: `uts.ema.ema_linear(points, 0)` is the identity).
Direction from the sign of the end-point slope, concavity from the vote `Σ (y - ŷ)`, min-max
normalisation (a zero range is replaced by 1), the difference curve, and the highest strict peak
(`Knee.kneedleKnee`, Knee/Model/Detectors.lean).
-/
namespace Knee

def listMinQ (l : List Rat) : Rat := l.foldl (fun a b => if b < a then b else a) (l.head?.getD 0)
def listMaxQ (l : List Rat) : Rat := l.foldl (fun a b => if a < b then b else a) (l.head?.getD 0)

/-- `(v - min) / (max - min)` with `diff[diff == 0] = 1.0` -/
def normQ (l : List Rat) : List Rat :=
  let lo := listMinQ l
  let d := listMaxQ l - lo
  l.map fun v => (v - lo) / (if d = 0 then 1 else d)

/-- `kneedle.differences` for the direction / concavity chosen by `kneedle.knee` -/
def kneedleDiffQ (xs ys : List Rat) : List Rat :=
  let c := fitQ xs ys                       -- (b, m)
  let increasing := decide (0 < c.2)
  let vote := (List.zipWith (fun x y => y - (x * c.2 + c.1)) xs ys).sum
  let clockwise := decide (0 < vote)
  let xn := normQ xs
  let yn := normQ ys
  List.zipWith (fun x y =>
    if increasing then (if clockwise then y - x else rabs (y - x))
    else (if clockwise then x + y else 1 - (x + y))) xn yn

def kneedleKneeQ (xs ys : List Rat) : Option Nat := kneedleKnee (kneedleDiffQ xs ys)

end Knee

import Knee.Model.Rdp
import Knee.Model.MultiKnee
import Knee.Model.Pipeline
/-
The whole pipeline of the demos as one model function: threshold RDP → multi-knee on the reduced curve →
worst-knee filter → corner filter → cluster filter → index mapping.  All floating-point quantities are
oracles; the oracles of the later stages (`det`, `gate`, `h`, `iou`, `labelsOf`, `score`) are indexed in
REDUCED space, exactly as the code evaluates them on `points[reduced]`.
-/
namespace Knee

def pipelineFull (isR2 : Bool) (t : Rat) (cst : Nat → Nat → Rat) (dst : Nat → Nat → List Rat) (n : Nat)
    (det : Nat → Nat → Option Nat) (gate : Nat → Nat → Bool) (t2 : Nat)
    (h : Nat → Rat) (iou : Nat → Rat) (tc : Rat) (labelsOf : List Nat → List Nat) (score : List Nat → List Rat) :
    Option (List Nat × Stages) :=
  match rdp isR2 t cst dst n with
  | none => none
  | some (reduced, removed) =>
    match multiKnee det gate t2 reduced.length with
    | none => none
    | some knees => some (reduced, pipelineTail h reduced.length iou tc labelsOf score reduced removed knees)

end Knee

import Knee.Model.Basic
/-
Model of `zmethod.getPoints` / `zmethod.knees` (zmethod.py:160-288).
Inputs: the curve `(x, y)` with the z-scores `z` of its second derivative (from
`uts.gradient.csd` + `uts.zscore.zscore_array`; an input array here), the absolute band sizes
`w = max(1, int(x_max*dx))`, `h = (y_max - y_min)*dy`, and the threshold sequence
`zthr k` = value of `outlier_z` in round `k` (`3, 3-dz, …`; an oracle so that the float
accumulation `outlier_z -= dz` is reproduced exactly).  Band arithmetic (`x ± w`, `y ± h`,
`|yᵢ - yⱼ|`) is exact in ℚ.
-/
namespace Knee

abbrev P3 := Rat × Rat × Rat   -- (x, y, z)

/-- `all(abs(best.y - o.y) >= y_height for o in outlier_points)` -/
def yOk (h : Rat) (outl : List (Rat × Rat)) (y : Rat) : Bool :=
  outl.all fun o => decide (h ≤ rabs (y - o.2))

/-- keep the points outside BOTH bands of the selected outlier `(bx, by)` -/
def removeBand (w h bx by' : Rat) (pts : List P3) : List P3 :=
  pts.filter fun p =>
    (decide (p.1 ≤ bx - w) || decide (bx + w ≤ p.1)) && (decide (p.2.1 ≤ by' - h) || decide (by' + h ≤ p.2.1))

/-- first element with minimal `y` (`np.argmin`) -/
def argminY : List P3 → Option P3
  | [] => none
  | p :: ps => match argminY ps with
    | none => some p
    | some q => if q.2.1 < p.2.1 then some q else some p

def minZ : List P3 → Rat
  | [] => 0
  | [p] => p.2.2
  | p :: ps => let m := minZ ps; if p.2.2 ≤ m then p.2.2 else m

/-- split the candidates after every pair whose x-gap is `≥ w` -/
def splitGaps (w : Rat) : List P3 → List (List P3)
  | [] => []
  | [p] => [[p]]
  | p :: q :: rest =>
    match splitGaps w (q :: rest) with
    | [] => [[p]]
    | g :: gs => if w ≤ q.1 - p.1 then [p] :: g :: gs else (p :: g) :: gs

/-- insert by ascending z, after equal keys (stable) -/
def insertByZ (c : P3) : List P3 → List P3
  | [] => [c]
  | d :: ds => if c.2.2 < d.2.2 then c :: d :: ds else d :: insertByZ c ds

/-- `candidate_outliers[np.argsort(z)][::-1]`: descending z -/
def sortDescZ (l : List P3) : List P3 := (l.foldl (fun acc c => insertByZ c acc) []).reverse

/-- try the candidate outliers in order: y-check, select, remove its bands -/
def tryOutliers (w h : Rat) : List P3 → List P3 → List (Rat × Rat) → Nat → List P3 × List (Rat × Rat) × Nat
  | [], pts, outl, added => (pts, outl, added)
  | c :: cs, pts, outl, added =>
    if yOk h outl c.2.1 then tryOutliers w h cs (removeBand w h c.1 c.2.1 pts) (outl ++ [(c.1, c.2.1)]) (added + 1)
    else tryOutliers w h cs pts outl added

/-- one iteration of the `while True` loop for threshold `thr` -/
def zRound (w h thr : Rat) (pts : List P3) (outl : List (Rat × Rat)) : List P3 × List (Rat × Rat) × Nat :=
  let cand := pts.filter fun p => decide (thr ≤ p.2.2)
  match splitGaps w cand with
  | [] => (pts, outl, 0)
  | [g] => match argminY g with
    | none => (pts, outl, 0)
    | some b => tryOutliers w h [b] pts outl 0
  | gs =>
    let cos := gs.filterMap fun g => (argminY g).map fun b => (b.1, b.2.1, minZ g)
    tryOutliers w h (sortDescZ cos) pts outl 0

def zLoop (w h : Rat) (zthr : Nat → Rat) (minz : Rat) : Nat → Nat → List P3 → List (Rat × Rat) → Option (List (Rat × Rat))
  | 0, _, _, _ => none
  | f + 1, k, pts, outl =>
    let r := zRound w h (zthr k) pts outl
    if r.1.isEmpty || (decide (zthr k ≤ minz) && r.2.2 == 0) then some r.2.1
    else zLoop w h zthr minz f (k + 1) r.1 r.2.1

def insertByX (c : Rat × Rat) : List (Rat × Rat) → List (Rat × Rat)
  | [] => [c]
  | d :: ds => if c.1 < d.1 then c :: d :: ds else if c.1 = d.1 then c :: ds else d :: insertByX c ds

/-- `{int(x): y}` then sorted keys: ascending x, a later point with the same x overwrites -/
def sortByX (l : List (Rat × Rat)) : List (Rat × Rat) := l.foldl (fun acc c => insertByX c acc) []

/-- final sweep: `if y > min_mr: delete else min_mr = y`, `min_mr` starts at 1 -/
def sweep : Rat → List (Rat × Rat) → List (Rat × Rat)
  | _, [] => []
  | m, p :: ps => if m < p.2 then sweep m ps else p :: sweep p.2 ps

/-- `getPoints`: selected x values, ascending -/
def zPoints (xs ys zs : List Rat) (w h ymin : Rat) (zthr : Nat → Rat) (fuel : Nat) : Option (List Rat) :=
  if xs.length < 4 then some []
  else if ymin = 1 then some []
  else
    let pts : List P3 := (xs.zip (ys.zip zs))
    (zLoop w h zthr (minZ pts) fuel 0 pts []).map fun outl => (sweep 1 (sortByX outl)).map (·.1)

/-- `knees`: the x values mapped back to indices -/
def zKnees (xs ys zs : List Rat) (w h ymin : Rat) (zthr : Nat → Rat) (fuel : Nat) : Option (List Nat) :=
  (zPoints xs ys zs w h ymin zthr fuel).map fun sel => sel.map fun x => xs.idxOf x

end Knee

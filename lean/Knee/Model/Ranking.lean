import Knee.Model.Basic
import Knee.Model.Geometry
import Knee.Model.ClusterFilter
/-
Layer N: the ranking scores used by the cluster filters.
* `smoothScores fit heights` – `knee_ranking.smooth_ranking`: (segment fit quality) × (relative height), where
  `fit` are the best-fit R² values of the documented spans (oracle / C16) and the relative height of a member is
  `|peak − y| / Σ |peak − y|` (un-normalised when the sum is 0);
* `cornerTriQ` – `postprocessing.rank_corners_triangle`: `0.5·(x₁−x₀)·(y₁−y₂)` for the triple around a knee;
* `dist2sim` – `knee_ranking.distance_to_similarity`: `max − v`.
-/
namespace Knee

def smoothScores (fit heights : List Rat) : List Rat :=
  let peak := listMax heights
  let w := heights.map fun y => rabs (peak - y)
  let sw := w.sum
  let w' := if sw = 0 then w else w.map fun v => v / sw
  List.zipWith (fun a b => a * b) fit w'

def cornerTriQ (p0 p1 p2 : P2) : Rat := (1 / 2) * ((p1.1 - p0.1) * (p1.2 - p2.2))

def dist2sim (v : List Rat) : List Rat := v.map fun a => listMax v - a

theorem smoothScores_length (fit heights : List Rat) (h : fit.length = heights.length) :
    (smoothScores fit heights).length = fit.length := by
  unfold smoothScores
  simp only
  split <;> simp [h]

end Knee

import Knee.Model.Basic
import Knee.Model.Geometry
import Knee.Model.Metrics
/-
Layer N model of the matching-error scores of `evaluation.py` (`mae`, `mse`, `rmse`, `rmspe`):
every point of side `a` is matched to its nearest neighbour in side `b` (first minimum of the
Euclidean distance = first minimum of the squared distance), the per-coordinate errors are
accumulated, and the side is chosen by the strategy.  `rmse = sqrt(mse)`, `rmspe = sqrt(rmspeSq)`.
-/
namespace Knee

inductive Strategy where
  | knees | expected | best | worst
deriving DecidableEq, Repr

/-- nearest neighbour of `p` in `b` (`np.argmin(np.linalg.norm(b - p, axis=1))`) -/
def nearest (b : List P2) (p : P2) : P2 := b[argminIdx (b.map fun q => normSq (sub q p))]?.getD (0, 0)

/-- which side is iterated (`a`) and which is searched (`b`) -/
def strategySide (s : Strategy) (expected kneePts : List P2) : List P2 × List P2 :=
  match s with
  | .knees => (kneePts, expected)
  | .expected => (expected, kneePts)
  | .best => if expected.length ≤ kneePts.length then (expected, kneePts) else (kneePts, expected)
  | .worst => if kneePts.length ≤ expected.length then (expected, kneePts) else (kneePts, expected)

def maeSides (a b : List P2) : Rat :=
  (a.map fun p => let q := nearest b p; rabs (p.1 - q.1) + rabs (p.2 - q.2)).sum / ((a.length : Rat) * 2)

def mseSides (a b : List P2) : Rat :=
  (a.map fun p => let q := nearest b p; (p.1 - q.1) * (p.1 - q.1) + (p.2 - q.2) * (p.2 - q.2)).sum / ((a.length : Rat) * 2)

/-- RMSPE² : mean over both coordinates of `((p - q)/(p + eps))²` -/
def rmspeSqSides (a b : List P2) : Rat :=
  (a.map fun p => let q := nearest b p
    ((p.1 - q.1) / (p.1 + epsM)) * ((p.1 - q.1) / (p.1 + epsM)) + ((p.2 - q.2) / (p.2 + epsM)) * ((p.2 - q.2) / (p.2 + epsM))).sum
    / ((a.length : Rat) * 2)

def maeQ (s : Strategy) (expected kneePts : List P2) : Rat := let ab := strategySide s expected kneePts; maeSides ab.1 ab.2
def mseQ2 (s : Strategy) (expected kneePts : List P2) : Rat := let ab := strategySide s expected kneePts; mseSides ab.1 ab.2
def rmspeSqQ (s : Strategy) (expected kneePts : List P2) : Rat := let ab := strategySide s expected kneePts; rmspeSqSides ab.1 ab.2

end Knee

import Knee.Model.Mapping
import Knee.Model.Filters
import Knee.Model.ClusterFilter
/-
Model of the post-detection part of the end-to-end pipeline as the demos compose it:
knees of the REDUCED curve → worst-knee filter → corner filter → cluster filter → index mapping.
(The simplifier and multi-knee stages are `Knee/Model/Rdp.lean` and `Knee/Model/MultiKnee.lean`.)
`h k` = height of reduced point `k`, `m` = number of reduced points, `labelsOf ks` = cluster labels
the linkage assigns to the knee list `ks` (one label per knee).
-/
namespace Knee

structure Stages where
  worst : List Nat
  corner : List Nat
  cluster : List Nat
  mapped : List Nat
deriving Repr

def pipelineTail (h : Nat → Rat) (m : Nat) (iou : Nat → Rat) (tc : Rat) (labelsOf : List Nat → List Nat)
    (score : List Nat → List Rat) (reduced : List Nat) (removed : List (Nat × Nat)) (knees : List Nat) : Stages :=
  let w := worstFilter h knees
  let c := cornerFilter m iou tc w
  let k := clusterFilter score (labelsOf c) c
  { worst := w, corner := c, cluster := k, mapped := mapping k reduced removed true }

/-- hull-ranking variant (the demos' default) -/
def pipelineTailHull (h : Nat → Rat) (m : Nat) (iou : Nat → Rat) (tc : Rat) (labelsOf : List Nat → List Nat)
    (hull : List Nat) (herr : List Nat → Nat → Rat) (reduced : List Nat) (removed : List (Nat × Nat)) (knees : List Nat) : Stages :=
  let w := worstFilter h knees
  let c := cornerFilter m iou tc w
  let k := clusterFilterHull hull herr (labelsOf c) c
  { worst := w, corner := c, cluster := k, mapped := mapping k reduced removed true }

end Knee

import Knee.Model.Cluster
import Knee.Model.Cm
/-
Monadic twins (see Knee/Model/RdpM.lean) of the clustering skeleton and the confusion matrix.
-/
namespace Knee

def linkGoM {m} [Monad m] (dist : Nat → Nat → m Rat) (t : Rat) : Nat → Nat → Nat → Nat → m (List Nat)
  | 0, _, _, _ => pure []
  | fuel + 1, i, start, label => do
    let q ← dist start i
    if t ≤ q then do
      let rest ← linkGoM dist t fuel (i + 1) i (label + 1)
      pure ((label + 1) :: rest)
    else do
      let rest ← linkGoM dist t fuel (i + 1) start label
      pure (label :: rest)

def linkLabelsM {m} [Monad m] (dist : Nat → Nat → m Rat) (t : Rat) (n : Nat) : m (List Nat) :=
  if n = 0 then pure [] else do
    let rest ← linkGoM dist t (n - 1) 1 0 0
    pure (0 :: rest)

/-- `row e` = the whole distance row of expected point `e` (one batched oracle answer) -/
def cmGoM {m} [Monad m] (row : Nat → m (List Rat)) (t : Rat) : List Nat → Nat × Nat × List Nat → m (Nat × Nat × List Nat)
  | [], s => pure s
  | e :: es, (tp, fn, used) => do
    let r ← row e
    let idx := argminIdx r
    if r[idx]?.getD 0 ≤ t ∧ idx ∉ used then cmGoM row t es (tp + 1, fn, idx :: used)
    else cmGoM row t es (tp, fn + 1, used)

def cmM {m} [Monad m] (row : Nat → m (List Rat)) (t : Rat) (n nk ne : Nat) : m (Nat × Nat × Nat × Int) := do
  let r ← cmGoM row t (List.range ne) (0, 0, [])
  let tp := r.1
  let fn := r.2.1
  let fp := nk - tp
  pure (tp, fp, fn, (n : Int) - ((tp + fp + fn : Nat) : Int))

end Knee

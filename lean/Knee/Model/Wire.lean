import Knee.Model.Basic
/-
Wire format of the correspondence driver (line protocol).  Tokens are separated by single
spaces; a list is comma-separated (`-` = empty list); a rational is `num/den` or `num`;
a pair is `a:b`.  Nothing here is part of any theorem; it is trusted glue (see DESIGN §2.6).
-/
namespace Knee.Wire

def parseNat? (s : String) : Option Nat := s.toNat?
def parseInt? (s : String) : Option Int := s.toInt?

def parseRat? (s : String) : Option Rat :=
  match s.splitOn "/" with
  | [n] => (n.toInt?).map fun i => (i : Rat)
  | [n, d] => do
    let i ← n.toInt?
    let k ← d.toNat?
    if k = 0 then none else some (mkRat i k)
  | _ => none

def parseList? {α} (p : String → Option α) (s : String) : Option (List α) :=
  if s = "-" then some [] else (s.splitOn ",").mapM p

def parsePair? {α β : Type} (p : String → Option α) (q : String → Option β) (s : String) : Option (α × β) :=
  match s.splitOn ":" with
  | [a, b] => do let x ← p a; let y ← q b; pure (x, y)
  | _ => none

def showRat (r : Rat) : String :=
  if r.den = 1 then toString r.num else toString r.num ++ "/" ++ toString r.den

def showList {α} (f : α → String) (l : List α) : String :=
  if l.isEmpty then "-" else ",".intercalate (l.map f)

def showNats (l : List Nat) : String := showList toString l
def showPairs (l : List (Nat × Nat)) : String := showList (fun p => toString p.1 ++ ":" ++ toString p.2) l

end Knee.Wire

import Knee.Model.Detectors
import Knee.Model.MultiKnee
/-! Monadic twins of the detector loops and of multi-knee (see Knee/Model/RdpM.lean). -/
namespace Knee

def dfdtLoopM {m} [Monad m] (diffs : Nat → m (List Rat)) (n : Nat) : Nat → Int → Nat → Nat → m Nat
  | 0, _, knee, _ => pure knee
  | f + 1, last, knee, cutoff =>
    if last < (knee : Int) ∧ n - cutoff > 2 then do
      let d ← diffs cutoff
      dfdtLoopM diffs n f (knee : Int) (dfdtInner d + cutoff) ((dfdtInner d + cutoff + 1) / 2)
    else pure knee

def dfdtKneeM {m} [Monad m] (diffs : Nat → m (List Rat)) (n : Nat) : m Nat := dfdtLoopM diffs n (n + 1) (-1) 0 0

def lmethodLoopM {m} [Monad m] (errs : Nat → m (List Rat)) (mode : Refinement) (n limit : Nat) :
    Nat → Int → Nat → Nat → Bool → m (Option Nat)
  | 0, _, _, _, _ => pure none
  | f + 1, last, cur, cutoff, done =>
    if (cur : Int) ≠ last ∧ done = false then do
      let e ← errs (min (cutoff + 1) n)
      let cur' := lmethodScan e
      match mode with
      | .none => lmethodLoopM errs mode n limit f (cur : Int) cur' cutoff true
      | .original => lmethodLoopM errs mode n limit f (cur : Int) cur' (nextCutoff mode n limit cur' cur) (decide (cur ≤ cur'))
      | .adjusted => lmethodLoopM errs mode n limit f (cur : Int) cur' (nextCutoff mode n limit cur' cur) false
    else pure (some cur)

def lmethodKneeM {m} [Monad m] (errs : Nat → m (List Rat)) (mode : Refinement) (n limit : Nat) : m (Option Nat) :=
  lmethodLoopM errs mode n limit (n + 8) (-1) n n false

def multiKneeLoopM {m} [Monad m] (det : Nat → Nat → m (Option Nat)) (gate : Nat → Nat → m Bool) (t2 : Nat) :
    Nat → List (Nat × Nat) → List Nat → m (Option (List Nat))
  | 0, _, _ => pure none
  | _ + 1, [], acc => pure (some acc)
  | f + 1, (l, r) :: st, acc =>
    if r - l > t2 then do
      let g ← gate l r
      if g = true then do
        let d ← det l r
        match d with
        | some k => multiKneeLoopM det gate t2 f ((l + k + 1, r) :: (l, l + k + 1) :: st) ((l + k) :: acc)
        | none => multiKneeLoopM det gate t2 f st acc
      else multiKneeLoopM det gate t2 f st acc
    else multiKneeLoopM det gate t2 f st acc

def multiKneeM {m} [Monad m] (det : Nat → Nat → m (Option Nat)) (gate : Nat → Nat → m Bool) (t2 n : Nat) : m (Option (List Nat)) := do
  let o ← multiKneeLoopM det gate t2 (2 * n + 1) [(0, n)] []
  pure (o.map sortNats)

end Knee

import Knee.Model.Basic
/-
Model of `evaluation.cm` (evaluation.py:511-544) and of the scores computed from it.
`d e j` = `|x[knees[j]] - px_e| / dx`, the normalised x-distance from expected point `e` to knee `j`
(Layer S oracle; nk = number of knees, ne = number of expected points, n = number of points).
-/
namespace Knee

/-- state: (tp, fn, used knee positions) -/
def cmGo (d : Nat → Nat → Rat) (t : Rat) (nk : Nat) : List Nat → Nat × Nat × List Nat → Nat × Nat × List Nat
  | [], s => s
  | e :: es, (tp, fn, used) =>
    let row := (List.range nk).map (d e)
    let idx := argminIdx row
    if row[idx]?.getD 0 ≤ t ∧ idx ∉ used then cmGo d t nk es (tp + 1, fn, idx :: used)
    else cmGo d t nk es (tp, fn + 1, used)

/-- the confusion matrix `[[tp, fp], [fn, tn]]`; `tn` is an `Int` because the code computes
`len(points) - (tp+fp+fn)` without clipping -/
def cm (d : Nat → Nat → Rat) (t : Rat) (n nk ne : Nat) : Nat × Nat × Nat × Int :=
  let r := cmGo d t nk (List.range ne) (0, 0, [])
  let tp := r.1
  let fn := r.2.1
  let fp := nk - tp
  (tp, fp, fn, (n : Int) - ((tp + fp + fn : Nat) : Int))

def accuracyQ (tp fp fn : Nat) (tn : Int) : Rat := ((tp : Rat) + (tn : Rat)) / ((tp : Rat) + (tn : Rat) + (fp : Rat) + (fn : Rat))
def f1Q (tp fp fn : Nat) : Rat := (2 * (tp : Rat)) / (2 * (tp : Rat) + (fp : Rat) + (fn : Rat))
/-- numerator and squared denominator of MCC (the square root is avoided) -/
def mccNum (tp fp fn : Nat) (tn : Int) : Int := (tp : Int) * tn - (fp : Int) * (fn : Int)
def mccDenSq (tp fp fn : Nat) (tn : Int) : Int := ((tp : Int) + fp) * ((tp : Int) + fn) * (tn + fp) * (tn + fn)

end Knee

import Knee.Model.Basic
import Knee.Model.Geometry
/-
Model of the R²-neighbourhood searches of `evaluation.py` and of what is built on them:

* `nbBinary`   – `evaluation.get_neighbourhood_binary` (evaluation.py:85-115)
* `nbFast`     – `evaluation.get_neighbourhood_fast`   (evaluation.py:118-149)
* `nbLinear`   – `evaluation.get_neighbourhood`        (evaluation.py:152-185)
* `slopeRanking` – `knee_ranking.slope_ranking`        (knee_ranking.py:130-169)
* `accuracyKneeCalls` – the index skeleton of `evaluation.accuracy_knee` (evaluation.py:188-246)

ORACLES (everything floating point).  For a fixed right end `a`:
  `r2 i`    = what `lf.linear_r2(x[i:a+1], y[i:a+1], lf.linear_fit(x[i:a+1], y[i:a+1]))` returns,
  `slope i` = the second component of `lf.linear_fit(x[i:a+1], y[i:a+1])`.
The value type `α` of `r2` and of the threshold `t` is ARBITRARY: the Python only ever evaluates `r2 < t`
(binary / fast) or `r2 > t` (linear), so the model asks for a decidable `<` and nothing else – no order axioms.
The driver instantiates `α` with `ExtQ` (rationals extended by `-inf`, `+inf` and `nan`, with the IEEE comparison:
every comparison with `nan` is false), so non-finite oracle values are modelled, not skipped.

What the model owns (exactly as the Python does it): the loops, the `while` conditions, `int((i+right)/2.0)`
(floor, all operands are non-negative), the index arithmetic, `previous_res` possibly unbound, the argument pairs
`(knees[i], knees[i-1])`, `rank` + min-max normalisation.
Every model function also returns the TRACE: the indices at which the r2 oracle was evaluated, in order
(the harness compares it with the recorded `linear_r2` calls of the real run).
-/
namespace Knee

/-! ### extended rationals = the float values that can reach a comparison -/

inductive ExtQ where
  | nan
  | ninf
  | fin (q : Rat)
  | pinf
deriving DecidableEq

/-- IEEE `<` : false whenever a NaN is involved -/
def ExtQ.ltB : ExtQ → ExtQ → Bool
  | .nan, _ => false
  | _, .nan => false
  | .ninf, .ninf => false
  | .ninf, _ => true
  | .fin _, .ninf => false
  | .fin a, .fin b => decide (a < b)
  | .fin _, .pinf => true
  | .pinf, _ => false

instance : LT ExtQ := ⟨fun a b => ExtQ.ltB a b = true⟩
instance : DecidableLT ExtQ := fun a b => inferInstanceAs (Decidable (ExtQ.ltB a b = true))

section
variable {α : Type} [LT α] [DecidableLT α]

/-! ### `get_neighbourhood_binary` -/

/-- `abs(i - right) > 1` -/
def nbFar (i right : Nat) : Bool := decide (i + 1 < right) || decide (right + 1 < i)

/-- final state of the binary loop: the returned `i`, the final `right`, the evaluated indices -/
structure NbBin where
  i : Nat
  right : Nat
  trace : List Nat
deriving DecidableEq, Repr

/-- the loop `while abs(i-right) > 1: … if r2 < t: i = int((i+right)/2.0) else: right = i; i = int((b+right)/2.0)`;
`none` = fuel exhausted -/
def nbBinLoop (r2 : Nat → α) (t : α) (b : Nat) : Nat → Nat → Nat → Option NbBin
  | 0, _, _ => none
  | f + 1, i, right =>
    if nbFar i right then
      (if r2 i < t then nbBinLoop r2 t b f ((i + right) / 2) right
       else nbBinLoop r2 t b f ((b + i) / 2) i).map fun s => { s with trace := i :: s.trace }
    else some ⟨i, right, []⟩

/-- fuel handed to the loop by the wrapper: `d² + d + 1` with `d = |a - b|` (never exhausted: `nbBinary_terminates`) -/
def nbBinFuel (a b : Nat) : Nat :=
  let d := (a - b) + (b - a)
  d * d + d + 1

/-- `get_neighbourhood_binary(x, y, a, b, t)`: `i = b; right = a; loop; return i` -/
def nbBinary (r2 : Nat → α) (t : α) (a b : Nat) : Option NbBin :=
  nbBinLoop r2 t b (nbBinFuel a b) b a

/-! ### `get_neighbourhood_fast` -/

/-- the loop `while r2 < t and i < a: i += 1; r2 = …`, first argument = `a - i` (so `i < a` iff it is positive).
Returns the final `i` and the evaluated indices (the first evaluation, at the start index, is the one before the loop). -/
def nbUp (r2 : Nat → α) (t : α) : Nat → Nat → Nat × List Nat
  | 0, i => (i, [i])
  | g + 1, i =>
    if r2 i < t then
      let r := nbUp r2 t g (i + 1)
      (r.1, i :: r.2)
    else (i, [i])

structure NbFast (α : Type) where
  i : Nat
  r2 : α
  binTrace : List Nat
  trace : List Nat
deriving DecidableEq

/-- `get_neighbourhood_fast(x, y, a, b, t)`: returned index, returned r2 (= the oracle at that index; the returned slope is the
slope oracle at that index), trace of the binary phase, trace of the linear phase -/
def nbFast (r2 : Nat → α) (t : α) (a b : Nat) : Option (NbFast α) :=
  (nbBinary r2 t a b).map fun s =>
    let u := nbUp r2 t (a - s.i) s.i
    ⟨u.1, r2 u.1, s.trace, u.2⟩

/-! ### `get_neighbourhood` -/

/-- state after `while r2 > t and i > b`: final `i`, final `r2`, `previous_res` (index, r2) if bound, evaluated indices -/
structure NbWalk (α : Type) where
  i : Nat
  cur : α
  prev : Option (Nat × α)
  trace : List Nat

/-- `while r2 > t and i > b: previous_res = (i, r2, slope); i -= 1; r2 = oracle(i)`.
At `i = 0` the test `i > b` fails for every `b ≥ 0`. -/
def nbWalk (r2 : Nat → α) (t : α) (b : Nat) : Nat → α → Option (Nat × α) → NbWalk α
  | 0, cur, prev => ⟨0, cur, prev, []⟩
  | i + 1, cur, prev =>
    if t < cur ∧ b < i + 1 then
      let s := nbWalk r2 t b i (r2 i) (some (i + 1, cur))
      { s with trace := i :: s.trace }
    else ⟨i + 1, cur, prev, []⟩

inductive NbOut (α : Type) where
  /-- returns `(i, r2, slope i)` -/
  | found (i : Nat) (r2 : α) (trace : List Nat)
  /-- `return previous_res` with `previous_res` never assigned: Python raises `UnboundLocalError` -/
  | unbound (trace : List Nat)
  /-- `a = 0`: `i = a - 1 = -1`, the first slice is `x[-1:1]` (empty when `len(x) ≥ 2`: `linear_fit` raises `IndexError`) -/
  | negIndex
deriving DecidableEq

/-- `get_neighbourhood(x, y, a, b, t)`; `one` is the constant `1.0` the Python starts `r2` with (never computed!) -/
def nbLinear (r2 : Nat → α) (one t : α) (a b : Nat) : NbOut α :=
  match a with
  | 0 => .negIndex
  | a' + 1 =>
    let s := nbWalk r2 t b a' one none
    if t < s.cur then .found s.i s.cur s.trace
    else
      match s.prev with
      | some (i, v) => .found i v s.trace
      | none => .unbound s.trace

/-- the r2 value `get_neighbourhood` has in hand at index `j`: the constant `1.0` at the start index `a-1`, the oracle elsewhere -/
def nbR (r2 : Nat → α) (one : α) (a j : Nat) : α := if j + 1 = a then one else r2 j

end

/-! ### `slope_ranking` and the skeleton of `accuracy_knee` -/

/-- the `(a, b)` arguments of the successive neighbourhood calls: `(knees[0], 0), (knees[1], knees[0]), …` -/
def nbArgs (knees : List Nat) : List (Nat × Nat) := knees.zip (0 :: knees)

inductive SrErr where
  /-- `knees[0]` on an empty array: `IndexError` -/
  | emptyKnees
  /-- call number `pos` has `a = 0` -/
  | negIndex (pos : Nat)
  /-- call number `pos` raises `UnboundLocalError` -/
  | unbound (pos : Nat)
deriving DecidableEq, Repr

section
variable {α : Type} [LT α] [DecidableLT α]

/-- the successive `get_neighbourhood` calls of `slope_ranking` (oracles indexed by the right end `a` first) -/
def slopeCalls (r2 : Nat → Nat → α) (one t : α) (knees : List Nat) : List (NbOut α) :=
  (nbArgs knees).map fun ab => nbLinear (r2 ab.1) one t ab.1 ab.2

/-- sequential evaluation: the first call that raises decides the exception -/
def nbIdxSeq : Nat → List (NbOut α) → Except SrErr (List Nat)
  | _, [] => .ok []
  | p, .found i _ _ :: rest => (nbIdxSeq (p + 1) rest).map (i :: ·)
  | p, .unbound _ :: _ => .error (.unbound p)
  | p, .negIndex :: _ => .error (.negIndex p)

/-- `np.min` of a non-empty integer array -/
def natMin (l : List Nat) : Nat := l.foldr Nat.min (l.headD 0)
/-- `np.max` of an array of non-negative integers -/
def natMax (l : List Nat) : Nat := l.foldr Nat.max 0

/-- min-max normalisation `(r - np.min(r)) / np.ptp(r)` of the (integer) rank vector, true division -/
def normRanks (r : List Nat) : List Rat :=
  r.map fun (k : Nat) => (((k - natMin r : Nat) : Int) : Rat) / (((natMax r - natMin r : Nat) : Int) : Rat)

/-- `slope_ranking(points, knees, t)`; `aslope a i` = `math.fabs` of the slope oracle for the slice `i..a`.
`rank` is modelled by the stable `rankOf` (ties of equal `|slope|`: NumPy's order is unspecified, see `IsRankOf`). -/
def slopeRanking (r2 : Nat → Nat → α) (one t : α) (aslope : Nat → Nat → Rat) (knees : List Nat) : Except SrErr (List Rat) :=
  match knees with
  | [] => .error .emptyKnees
  | [_] => .ok [1]
  | _ =>
    (nbIdxSeq 0 (slopeCalls r2 one t knees)).map fun idx =>
      let vals := List.zipWith (fun ab k => aslope ab.1 k) (nbArgs knees) idx
      let ranks := rankOf vals
      -- `if len(rankings) > 1 … else np.array([1.0])`: the else branch is dead code (`slopeRanking_dead_branch`)
      if ranks.length > 1 then normRanks ranks else [1]

/-- the successive `get_neighbourhood_fast(x, y, knees[i], previous_knee)` calls of `accuracy_knee`; `tf` is the threshold these calls
receive: as the code stands that is the default `0.9` of `get_neighbourhood_fast` (the parameter `t` of `accuracy_knee` is NOT passed on) -/
def accuracyKneeCalls (r2 : Nat → Nat → α) (tf : α) (knees : List Nat) : List (Option (NbFast α)) :=
  (nbArgs knees).map fun ab => nbFast (r2 ab.1) tf ab.1 ab.2

end

/-- what `rank` guarantees whatever the order of equal keys: a permutation of `0..n-1` that respects strict order of the values -/
def IsRankOf (v : List Rat) (r : List Nat) : Prop :=
  r.length = v.length ∧ (∀ k, k < v.length → k ∈ r) ∧
    ∀ i j, i < v.length → j < v.length → v[i]?.getD 0 < v[j]?.getD 0 → r[i]?.getD 0 < r[j]?.getD 0

/-- executable form of `IsRankOf` (used by the driver to judge REAL outputs when slopes tie) -/
def isRankOfB (v : List Rat) (r : List Nat) : Bool :=
  decide (r.length = v.length) && (List.range v.length).all (fun k => r.contains k) &&
    (List.range v.length).all fun i => (List.range v.length).all fun j =>
      !decide (v[i]?.getD 0 < v[j]?.getD 0) || decide (r[i]?.getD 0 < r[j]?.getD 0)

end Knee

import Knee.Model.Basic
/-
Layer-S models of the single-knee detectors over their criterion arrays (oracles):

* curvature (`curvature.knee`):  `crit` = |f''| / (1 + f'^2)^1.5 per point
* Menger (`menger.knee`):        `cs` = Menger curvature of the consecutive triples, i = 1 … n-2
* DFDT (`dfdt.knee`):            `diffs cutoff` = |gradient[cutoff:] - isodata(gradient[cutoff:])|
* L-method (`lmethod.knee`):     `errs len` = fitting error of the splits 2 … len-3 on the first `len` points
* Kneedle (`kneedle._knee`):     `dd` = the difference curve
-/
namespace Knee

/-- `np.argmax(curvature[1:-1]) + 1` -/
def curvKnee (crit : List Rat) : Nat := 1 + argmaxIdx (interior crit)

/-- `np.argmax([0] + curvatures + [0])` -/
def mengerKnee (cs : List Rat) : Nat := argmaxIdx ((0 : Rat) :: cs ++ [0])

/-- `get_knee_gradient`: `np.argmin(diff[1:-1]) + 1` -/
def dfdtInner (d : List Rat) : Nat := 1 + argminIdx (interior d)

/-- `dfdt.knee` loop: `while last_knee < knee and (len(x)-cutoff) > 2` -/
def dfdtLoop (diffs : Nat → List Rat) (n : Nat) : Nat → Int → Nat → Nat → Nat
  | 0, _, knee, _ => knee
  | f + 1, last, knee, cutoff =>
    if last < (knee : Int) ∧ n - cutoff > 2 then
      let k' := dfdtInner (diffs cutoff) + cutoff
      dfdtLoop diffs n f (knee : Int) k' ((k' + 1) / 2)
    else knee

def dfdtKnee (diffs : Nat → List Rat) (n : Nat) : Nat := dfdtLoop diffs n (n + 1) (-1) 0 0

/-- number of rounds of the DFDT loop -/
def dfdtRounds (diffs : Nat → List Rat) (n : Nat) : Nat → Int → Nat → Nat → Nat
  | 0, _, _, _ => 0
  | f + 1, last, knee, cutoff =>
    if last < (knee : Int) ∧ n - cutoff > 2 then
      let k' := dfdtInner (diffs cutoff) + cutoff
      1 + dfdtRounds diffs n f (knee : Int) k' ((k' + 1) / 2)
    else 0

/-- `lmethod.get_knee`: first strict minimum of the error over the splits `2 … len-3`;
`errs` lists the errors of exactly those splits -/
def lmethodScan (errs : List Rat) : Nat := 2 + argminIdx errs

inductive Refinement where
  | none | original | adjusted
deriving DecidableEq, Repr

/-- next cutoff -/
def nextCutoff (mode : Refinement) (n limit cur last : Nat) : Nat :=
  match mode with
  | .adjusted => max limit ((cur + last) / 2)
  | .original => max limit (min (cur * 2) n)
  | .none => 0

/-- `lmethod.knee` loop: `while current_knee != last_knee and not done`.  The sub-curve handed to
`get_knee` is `x[0:cutoff+1]`, i.e. the first `min (cutoff+1) n` points.  For `original` the loop also
stops as soon as the knee no longer moves left (the paper's stopping rule). `none` = fuel exhausted. -/
def lmethodLoop (errs : Nat → List Rat) (mode : Refinement) (n limit : Nat) : Nat → Int → Nat → Nat → Bool → Option Nat
  | 0, _, _, _, _ => none
  | f + 1, last, cur, cutoff, done =>
    if (cur : Int) ≠ last ∧ done = false then
      let cur' := lmethodScan (errs (min (cutoff + 1) n))
      match mode with
      | .none => lmethodLoop errs mode n limit f (cur : Int) cur' cutoff true
      | .original => lmethodLoop errs mode n limit f (cur : Int) cur' (nextCutoff mode n limit cur' cur) (decide (cur ≤ cur'))
      | .adjusted => lmethodLoop errs mode n limit f (cur : Int) cur' (nextCutoff mode n limit cur' cur) false
    else some cur

def lmethodKnee (errs : Nat → List Rat) (mode : Refinement) (n limit : Nat) : Option Nat :=
  lmethodLoop errs mode n limit (n + 8) (-1) n n false

/-- strict peaks `y[i-1] < y[i] > y[i+1]` (`uts.peak_detection.all_peaks`), as indices -/
def peaksGo : Nat → List Rat → List Nat
  | i, a :: b :: c :: t => if a < b ∧ c < b then (i + 1) :: peaksGo (i + 1) (b :: c :: t) else peaksGo (i + 1) (b :: c :: t)
  | _, _ => []

def allPeaks (dd : List Rat) : List Nat := peaksGo 0 dd

/-- `highest_peak`: the first peak of maximal value; `none` when there is no peak -/
def kneedleKnee (dd : List Rat) : Option Nat :=
  let ps := allPeaks dd
  if ps.isEmpty then none else ps[argmaxIdx (ps.map fun p => dd[p]?.getD 0)]?

end Knee

import Knee.Model.Basic
import Knee.Model.Detectors
import Knee.Model.Metrics
import Knee.Model.Elbow
/-
Layer N: the L-method fitting error of `lmethod.compute_error` for every Fit × Cost option over ℚ.
`sq` stands for `math.sqrt` (a parameter: the theorems need only `sq 0 = 0` and `0 < v → 0 < sq v`).
-/
namespace Knee

/-- residual sum of squares of the least-squares line (`np.polyfit(x, y, 1, full=True)` residual) -/
def olsRss (xs ys : List Rat) : Rat :=
  let mx := meanQ xs
  let my := meanQ ys
  let sxy := (List.zipWith (fun a b => (a - mx) * (b - my)) xs ys).sum
  let sxx := (xs.map fun a => (a - mx) * (a - mx)).sum
  let b := sxy / sxx
  (List.zipWith (fun a v => (v - my - b * (a - mx)) * (v - my - b * (a - mx))) xs ys).sum

/-- `compute_error(x, y, index, length, fit, cost)[0]` on the first `len` points, split at `i` -/
def lmErrGen (sq : Rat → Rat) (bestfit rmse : Bool) (x y : Nat → Rat) (len i : Nat) : Rat :=
  let xs := (List.range len).map x
  let ys := (List.range len).map y
  let xl := xs.take (i + 1)
  let yl := ys.take (i + 1)
  let xr := xs.drop i
  let yr := ys.drop i
  let length := x (len - 1) - x 0
  let lr := (x i - x 0) / length
  let rr := (x (len - 1) - x i) / length
  let rl := if bestfit then olsRss xl yl else rssQ yl (lineQ xl (fitQ xl yl))
  let rrt := if bestfit then olsRss xr yr else rssQ yr (lineQ xr (fitQ xr yr))
  if rmse then lr * sq (rl * lr) + rr * sq (rr * rrt) else rl * lr + rrt * rr

def lmErrsGen (sq : Rat → Rat) (bestfit rmse : Bool) (x y : Nat → Rat) (len : Nat) : List Rat :=
  (List.range (len - 4)).map fun k => lmErrGen sq bestfit rmse x y len (k + 2)

/-- `lmethod.knee(points, fit, it, limit)` (the refinement always uses the RMSE cost) -/
def lmethodKneeGen (sq : Rat → Rat) (bestfit : Bool) (x y : Nat → Rat) (mode : Refinement) (n limit : Nat) : Option Nat :=
  lmethodKnee (lmErrsGen sq bestfit true x y) mode n limit

end Knee

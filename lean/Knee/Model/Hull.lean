import Knee.Model.Geometry
/-
Model of `convex_hull.py`: orientation test, lower/upper chain scans over x-sorted curves, and
`graham_scan` (angular sort around the lowest-leftmost point + scan).  Orientation signs are exact in ℚ.
Stacks: head = top.
-/
namespace Knee

/-- `_ccw(a, b, c)` -/
def ccw (a b c : P2) : Rat := (b.1 - a.1) * (c.2 - a.2) - (c.1 - a.1) * (b.2 - a.2)

/-- `while len(stack) > 1 and ccw(p[stack[-2]], p[stack[-1]], p[i]) <= 0: stack.pop()` -/
def popLower (pt : Nat → P2) (i : Nat) : List Nat → List Nat
  | b :: a :: rest => if ccw (pt a) (pt b) (pt i) ≤ 0 then popLower pt i (a :: rest) else b :: a :: rest
  | st => st

/-- `while len(stack) > 1 and ccw(p[i], p[stack[-1]], p[stack[-2]]) <= 0: stack.pop()` -/
def popUpper (pt : Nat → P2) (i : Nat) : List Nat → List Nat
  | b :: a :: rest => if ccw (pt i) (pt b) (pt a) ≤ 0 then popUpper pt i (a :: rest) else b :: a :: rest
  | st => st

/-- `graham_scan_lower`: indices of the lower chain, ascending -/
def hullLower (pt : Nat → P2) (n : Nat) : List Nat :=
  ((List.range (n - 2)).foldl (fun st k => (k + 2) :: popLower pt (k + 2) st) [1, 0]).reverse

/-- `graham_scan_upper` -/
def hullUpper (pt : Nat → P2) (n : Nat) : List Nat :=
  ((List.range (n - 2)).foldl (fun st k => (k + 2) :: popUpper pt (k + 2) st) [1, 0]).reverse

/-! ### `graham_scan` -/

/-- `_compare_points(p0, pi, pj) < 0`: `pi` sorts before `pj` (clockwise first; on a tie the nearer first) -/
def angBefore (p0 pi pj : P2) : Bool :=
  let o := ccw p0 pi pj
  if o = 0 then decide (normSq (sub pi p0) ≤ normSq (sub pj p0)) else decide (o < 0)

def insertAng (p0 : P2) (x : P2 × Nat) : List (P2 × Nat) → List (P2 × Nat)
  | [] => [x]
  | y :: ys => if angBefore p0 y.1 x.1 then y :: insertAng p0 x ys else x :: y :: ys

/-- stable insertion sort by the angular comparator -/
def sortAng (p0 : P2) (l : List (P2 × Nat)) : List (P2 × Nat) := l.foldl (fun acc x => insertAng p0 x acc) []

/-- lexicographic minimum `(x, y)` with its first index -/
def lexMin : List (P2 × Nat) → Option (P2 × Nat)
  | [] => none
  | a :: t => match lexMin t with
    | none => some a
    | some b => if a.1.1 < b.1.1 ∨ (a.1.1 = b.1.1 ∧ a.1.2 ≤ b.1.2) then some a else some b

/-- `while len(stack) > 1 and ccw(stack[-2], stack[-1], p) >= 0: stack.pop()` -/
def popGraham (p : P2) : List (P2 × Nat) → List (P2 × Nat)
  | b :: a :: rest => if 0 ≤ ccw a.1 b.1 p then popGraham p (a :: rest) else b :: a :: rest
  | st => st

/-- `graham_scan` on points with their original indices (≥ 3 distinct points) -/
def grahamScan (pts : List P2) : List Nat :=
  let ip := pts.zip (List.range pts.length)
  match lexMin ip with
  | none => []
  | some p0 =>
    let rest := ip.filter fun q => q.2 ≠ p0.2
    match p0 :: sortAng p0.1 rest with
    | a :: b :: c :: more =>
      ((more.foldl (fun st p => p :: popGraham p.1 st) [c, b, a]).reverse).map (·.2)
    | _ => []

end Knee

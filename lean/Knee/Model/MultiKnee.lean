import Knee.Model.Basic
/-
Model of `multi_knee.multi_knee` (multi_knee.py:45-75).  `det l r` = the detector's answer on
`points[l:r]` (relative index, `none` when the detector finds nothing); `gate l r` = the
end-point-line cost of `points[l:r]` is on the "curved" side of `t1`.
-/
namespace Knee

/-- `if len(pt) <= 2: r = 1.0 (smape default) else r = smape; curved = r >= t1` -/
def gateOf (t1 : Rat) (sm : Nat → Nat → Rat) (l r : Nat) : Bool :=
  if r - l ≤ 2 then decide (t1 ≤ 1) else decide (t1 ≤ sm l r)

def multiKneeLoop (det : Nat → Nat → Option Nat) (gate : Nat → Nat → Bool) (t2 : Nat) :
    Nat → List (Nat × Nat) → List Nat → Option (List Nat)
  | 0, _, _ => none
  | _ + 1, [], acc => some acc
  | f + 1, (l, r) :: st, acc =>
    if r - l > t2 ∧ gate l r = true then
      match det l r with
      | some k => multiKneeLoop det gate t2 f ((l + k + 1, r) :: (l, l + k + 1) :: st) ((l + k) :: acc)
      | none => multiKneeLoop det gate t2 f st acc
    else multiKneeLoop det gate t2 f st acc

/-- `knees.sort()` -/
def sortNats (l : List Nat) : List Nat := l.foldr insertSorted []

def multiKnee (det : Nat → Nat → Option Nat) (gate : Nat → Nat → Bool) (t2 n : Nat) : Option (List Nat) :=
  (multiKneeLoop det gate t2 (2 * n + 1) [(0, n)] []).map sortNats

/-- the same thing as a structural recursion (in-order, hence already sorted) -/
def multiKneeRec (det : Nat → Nat → Option Nat) (gate : Nat → Nat → Bool) (t2 : Nat) : Nat → Nat → Nat → List Nat
  | 0, _, _ => []
  | f + 1, l, r =>
    if r - l > t2 ∧ gate l r = true then
      match det l r with
      | some k => multiKneeRec det gate t2 f l (l + k + 1) ++ (l + k) :: multiKneeRec det gate t2 f (l + k + 1) r
      | none => []
    else []

end Knee

import Knee.Model.Basic
/-
Layer N: exact definitions over ℚ of `metrics.py` and the linear-fit helpers of `linear_fit.py`.
Vectors are `List Rat` of equal length.  Square roots never enter: rooted metrics are modelled by
their squares (`mseQ` = RMSE², `rmspeSq`, `rmsleSq`).  The logarithm of RMSLE is a parameter `lg`.
`epsM` = the code's `eps = 1e-16`, exactly.
-/
namespace Knee

def epsM : Rat := 1 / 10000000000000000

def meanQ (l : List Rat) : Rat := l.sum / (l.length : Rat)

/-- residual sum of squares = `metrics.residuals` -/
def rssQ (y yh : List Rat) : Rat := (List.zipWith (fun a b => (a - b) * (a - b)) y yh).sum
def tssQ (y : List Rat) : Rat := (y.map fun a => (a - meanQ y) * (a - meanQ y)).sum

/-- `metrics.r2` (classic): `1 - rss` when `tss = 0`, else `1 - rss/tss` -/
def r2Q (y yh : List Rat) : Rat := if tssQ y = 0 then 1 - rssQ y yh else 1 - rssQ y yh / tssQ y
/-- adjusted variant: `1 - (1 - r2) * ((n-1)/(n-2))` -/
def adjustQ (n : Nat) (r2 : Rat) : Rat := 1 - (1 - r2) * (((n : Rat) - 1) / ((n : Rat) - 2))

/-- RMSE² -/
def mseQ (y yh : List Rat) : Rat := meanQ (List.zipWith (fun a b => (a - b) * (a - b)) y yh)
/-- RMSLE² for a logarithm `lg` -/
def rmsleSq (lg : Rat → Rat) (y yh : List Rat) : Rat :=
  meanQ (List.zipWith (fun a b => (lg (a + 1) - lg (b + 1)) * (lg (a + 1) - lg (b + 1))) y yh)
/-- RMSPE² -/
def rmspeSq (y yh : List Rat) : Rat :=
  meanQ (List.zipWith (fun a b => ((a - b) / (a + epsM)) * ((a - b) / (a + epsM))) y yh)
/-- RPD -/
def rpdQ (y yh : List Rat) : Rat :=
  meanQ (List.zipWith (fun a b => rabs ((a - b) / ((if a ≤ b then b else a) + epsM))) y yh)
/-- SMAPE -/
def smapeQ (y yh : List Rat) : Rat :=
  meanQ (List.zipWith (fun a b => 2 * rabs (b - a) / (rabs a + rabs b + epsM)) y yh)

/-- `linear_fit.linear_fit`: the line through the first and last point, as `(b, m)` -/
def fitQ (x y : List Rat) : Rat × Rat :=
  let x0 := x.head?.getD 0
  let xl := x.getLast?.getD 0
  let y0 := y.head?.getD 0
  let yl := y.getLast?.getD 0
  if x0 - xl ≠ 0 then
    let m := (y0 - yl) / (x0 - xl)
    (y0 - m * x0, m)
  else (0, 0)

/-- `linear_transform`: `x * m + b` -/
def lineQ (x : List Rat) (coef : Rat × Rat) : List Rat := x.map fun v => v * coef.2 + coef.1

/-- squared Pearson correlation (best-fit R²) -/
def corrSqQ (x y : List Rat) : Rat :=
  let mx := meanQ x
  let my := meanQ y
  let sxy := (List.zipWith (fun a b => (a - mx) * (b - my)) x y).sum
  let sxx := (x.map fun a => (a - mx) * (a - mx)).sum
  let syy := (y.map fun b => (b - my) * (b - my)).sum
  sxy * sxy / (sxx * syy)

end Knee

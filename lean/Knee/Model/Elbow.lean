import Knee.Model.Basic
import Knee.Model.Detectors
import Knee.Model.Geometry
import Knee.Model.Metrics
/-
Layer N: exact criteria of the single-knee detectors over ℚ, so that Layer S (Knee/Model/Detectors.lean)
instantiated with them gives closed exact models — what C03 (exact two-slope elbows) needs.
Curves are given by `x y : Nat → Rat` and a point count `n`.
-/
namespace Knee

/-- `uts.gradient.lagrange_derivative`: derivative at `xe` of the parabola through three points -/
def lagrangeD (xe x0 x1 x2 y0 y1 y2 : Rat) : Rat :=
  y0 * (2 * xe - x1 - x2) / ((x0 - x1) * (x0 - x2)) +
  y1 * (2 * xe - x0 - x2) / ((x1 - x0) * (x1 - x2)) +
  y2 * (2 * xe - x0 - x1) / ((x2 - x0) * (x2 - x1))

/-- `uts.gradient.cfd`: central three-point first derivative; forward at the first, backward at the last point -/
def cfdQ (x y : Nat → Rat) (n i : Nat) : Rat :=
  if i = 0 then lagrangeD (x 0) (x 0) (x 1) (x 2) (y 0) (y 1) (y 2)
  else if i + 1 = n then lagrangeD (x (n - 1)) (x (n - 3)) (x (n - 2)) (x (n - 1)) (y (n - 3)) (y (n - 2)) (y (n - 1))
  else lagrangeD (x i) (x (i - 1)) (x i) (x (i + 1)) (y (i - 1)) (y i) (y (i + 1))

/-- second derivative of the parabola through three points -/
def secondD (x1 x2 x3 y1 y2 y3 : Rat) : Rat :=
  2 * (y1 / ((x1 - x2) * (x1 - x3)) + y2 / ((x2 - x1) * (x2 - x3)) + y3 / ((x3 - x1) * (x3 - x2)))

/-- `uts.gradient.csd`: end points copy their neighbour -/
def csdQ (x y : Nat → Rat) (n i : Nat) : Rat :=
  let j := if i = 0 then 1 else if i + 1 = n then n - 2 else i
  secondD (x (j - 1)) (x j) (x (j + 1)) (y (j - 1)) (y j) (y (j + 1))

/-- square of the curvature criterion `|f''| / (1 + f'^2)^(3/2)`: `f''^2 / (1 + f'^2)^3` (same argmax) -/
def curvCritSq (x y : Nat → Rat) (n i : Nat) : Rat :=
  let g1 := cfdQ x y n i
  let g2 := csdQ x y n i
  g2 * g2 / ((1 + g1 * g1) * (1 + g1 * g1) * (1 + g1 * g1))

def curvKneeQ (x y : Nat → Rat) (n : Nat) : Nat := curvKnee ((List.range n).map (curvCritSq x y n))

/-- squared Menger curvature of the consecutive triple centred at `i` (`menger_curvature(p[i], p[i-1], p[i+1])`) -/
def mengerAt (x y : Nat → Rat) (i : Nat) : Rat := mengerSq (x i, y i) (x (i - 1), y (i - 1)) (x (i + 1), y (i + 1))

def mengerKneeQ (x y : Nat → Rat) (n : Nat) : Nat := mengerKnee ((List.range (n - 2)).map fun k => mengerAt x y (k + 1))

/-- L-method, end-point fit, RSS cost: `r_left * left_ratio + r_right * right_ratio` for the split at `i`
on the first `len` points -/
def lmErrRss (x y : Nat → Rat) (len i : Nat) : Rat :=
  let xs := (List.range len).map x
  let ys := (List.range len).map y
  let xl := xs.take (i + 1)
  let yl := ys.take (i + 1)
  let xr := xs.drop i
  let yr := ys.drop i
  let length := x (len - 1) - x 0
  rssQ yl (lineQ xl (fitQ xl yl)) * ((x i - x 0) / length) + rssQ yr (lineQ xr (fitQ xr yr)) * ((x (len - 1) - x i) / length)

def lmErrsRss (x y : Nat → Rat) (len : Nat) : List Rat := (List.range (len - 4)).map fun k => lmErrRss x y len (k + 2)

def lmethodKneeQ (x y : Nat → Rat) (mode : Refinement) (n limit : Nat) : Option Nat := lmethodKnee (lmErrsRss x y) mode n limit

/-- an exact two-slope elbow: corner index `c`, slopes `s1 ≠ s2`, strictly increasing `x` -/
structure IsElbow (x y : Nat → Rat) (n c : Nat) (s1 s2 : Rat) : Prop where
  xinc : ∀ i j, i < j → j < n → x i < x j
  left : ∀ i, i ≤ c → y i = y 0 + s1 * (x i - x 0)
  right : ∀ i, c ≤ i → i < n → y i = y c + s2 * (x i - x c)
  slopes : s1 ≠ s2
  arm1 : 3 ≤ c
  arm2 : c + 3 < n

end Knee

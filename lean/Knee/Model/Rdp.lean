import Knee.Model.Basic
import Knee.Model.Mapping
/-
Layer-S model of the simplifiers of `rdp.py` (threshold RDP, fixed-size RDP, global RDP,
min-points and multi-threshold variants).  Every floating-point computation the Python code
delegates to a primitive is an oracle parameter:

* `cst l r`   – cost of the end-point line on `points[l:r]`      (`compute_cost_coef ∘ linear_fit_points`)
* `dst l r`   – distances of `points[l:r]` to its chord           (`distance_points(pt, pt[0], pt[-1])`)
* `key l r i` – (left, right) ordering scores of the two children (`order_triangle/area/segment`)
* `gcs red`   – global reconstruction cost of the breakpoints      (`evaluation.compute_global_cost`)

Everything the Python code does itself (comparisons, `argmax`, the eps guard, pushes and pops,
the stable `list.sort(key=…)`, slicing arithmetic, `int(len/2)`) is modelled exactly.
Ranges are half-open `[l, r)` as in the code.
-/
namespace Knee

/-- split index: `np.argmax(d[1:-1]) + 1` -/
def splitOf (d : List Rat) : Nat := 1 + argmaxIdx (interior d)

/-- `curved = r < t if cost is r2 else r >= t` -/
def curved (isR2 : Bool) (t r : Rat) : Bool := if isR2 then decide (r < t) else decide (t ≤ r)

/-- `if len(pt) <= 2: r = 1.0 if r2 else 0.0  else: r = compute_cost_coef(…)` -/
def segCost (isR2 : Bool) (cst : Nat → Nat → Rat) (l r : Nat) : Rat :=
  if r - l ≤ 2 then (if isR2 then 1 else 0) else cst l r

/-- `rdp.rdp` main loop (rdp.py:149-171). Work stack: head = top.  `out` collects the accepted
segments, most recent first.  `none` = fuel exhausted (proved impossible for fuel `2n`). -/
def rdpLoop (isR2 : Bool) (t : Rat) (cst : Nat → Nat → Rat) (dst : Nat → Nat → List Rat) :
    Nat → List (Nat × Nat) → List (Nat × Nat) → Option (List (Nat × Nat))
  | 0, _, _ => none
  | _ + 1, [], out => some out
  | f + 1, (l, r) :: st, out =>
    if curved isR2 t (segCost isR2 cst l r) then
      let i := splitOf (dst l r)
      rdpLoop isR2 t cst dst f ((l, l + i + 1) :: (l + i, r) :: st) out
    else
      rdpLoop isR2 t cst dst f st ((l, r) :: out)

/-- turn the accepted segments (in processing order) into `(reduced, removed)` -/
def segsToResult (n : Nat) (segs : List (Nat × Nat)) : List Nat × List (Nat × Nat) :=
  (segs.map (·.1) ++ [n - 1], segs.map fun s => (s.1, s.2 - s.1 - 2))

def rdp (isR2 : Bool) (t : Rat) (cst : Nat → Nat → Rat) (dst : Nat → Nat → List Rat) (n : Nat) :
    Option (List Nat × List (Nat × Nat)) :=
  (rdpLoop isR2 t cst dst (2 * n) [(0, n)] []).map fun out => segsToResult n out.reverse

/-- number of loop iterations `rdpLoop` performs (for the "bounded linearly in n" clause) -/
def rdpSteps (isR2 : Bool) (t : Rat) (cst : Nat → Nat → Rat) (dst : Nat → Nat → List Rat) :
    Nat → List (Nat × Nat) → Nat
  | 0, _ => 0
  | _ + 1, [] => 0
  | f + 1, (l, r) :: st =>
    if curved isR2 t (segCost isR2 cst l r) then
      let i := splitOf (dst l r)
      1 + rdpSteps isR2 t cst dst f ((l, l + i + 1) :: (l + i, r) :: st)
    else
      1 + rdpSteps isR2 t cst dst f st

/-! ### refinement step shared by `_rdp_fixed` and `_grdp` (rdp.py:298-331, 414-450) -/

/-- `np.finfo(float).eps` -/
def eps : Rat := 1 / 4503599627370496

/-- `if np.all(d < eps): index = int(len(d)/2) else: index = np.argmax(d[1:-1]) + 1` -/
def pickSplit (d : List Rat) : Nat := if d.all (fun v => decide (v < eps)) then d.length / 2 else splitOf d

/-- keyed work stack in Python's order (ascending by key, **last = top**) and the sorted reduced set -/
structure RState where
  stack : List (Rat × Nat × Nat)
  reduced : List Nat
deriving Repr

/-- insert `x` after every element whose key is `≤` its key (one step of a stable sort) -/
def insertKeyed (x : Rat × Nat × Nat) : List (Rat × Nat × Nat) → List (Rat × Nat × Nat)
  | [] => [x]
  | y :: ys => if x.1 < y.1 then x :: y :: ys else y :: insertKeyed x ys

/-- stable sort by key, ascending: the unique result of Python's `list.sort(key=…)` -/
def sortKeyed (l : List (Rat × Nat × Nat)) : List (Rat × Nat × Nat) :=
  l.foldl (fun acc x => insertKeyed x acc) []

def refineStep (dst : Nat → Nat → List Rat) (key : Nat → Nat → Nat → Rat × Rat) (s : RState) : RState :=
  match s.stack.getLast? with
  | none => s
  | some (_, l, r) =>
    let i := pickSplit (dst l r)
    let k := key l r i
    let st := s.stack.dropLast
    let st := if i + 1 > 2 then st ++ [(k.1, l, l + i + 1)] else st
    let st := if (r - l) - i > 2 then st ++ [(k.2, l + i, r)] else st
    { stack := sortKeyed st, reduced := insertSorted (l + i) s.reduced }

/-- initial state; a curve of ≤ 2 points has nothing to refine -/
def rinit (n : Nat) : RState :=
  { stack := if n > 2 then [(0, 0, n)] else [], reduced := [0, n - 1] }

/-- `_rdp_fixed`: `while length > 0 and stack:` -/
def fixedLoop (dst : Nat → Nat → List Rat) (key : Nat → Nat → Nat → Rat × Rat) : Nat → RState → RState
  | 0, s => s
  | k + 1, s => if s.stack.isEmpty then s else fixedLoop dst key k (refineStep dst key s)

def rdpFixed (dst : Nat → Nat → List Rat) (key : Nat → Nat → Nat → Rat × Rat) (n k : Nat) : List Nat :=
  (fixedLoop dst key (k - 2) (rinit n)).reduced

/-- `_grdp`: `while curved and stack:`; `accept red` = the global cost of `red` is on the accepting
side of `t`. Fuel `n` suffices (proved). -/
def grdpLoop (accept : List Nat → Bool) (dst : Nat → Nat → List Rat) (key : Nat → Nat → Nat → Rat × Rat) :
    Nat → RState → RState
  | 0, s => s
  | f + 1, s => if accept s.reduced || s.stack.isEmpty then s else grdpLoop accept dst key f (refineStep dst key s)

def acceptOf (isR2 : Bool) (t : Rat) (gcs : List Nat → Rat) (red : List Nat) : Bool :=
  !curved isR2 t (gcs red)

def grdp (accept : List Nat → Bool) (dst : Nat → Nat → List Rat) (key : Nat → Nat → Nat → Rat × Rat) (n : Nat) : List Nat :=
  (grdpLoop accept dst key n (rinit n)).reduced

/-- `mp_grdp`: continue the global loop's state with the fixed loop up to `m` points -/
def mpGrdp (accept : List Nat → Bool) (dst : Nat → Nat → List Rat) (key : Nat → Nat → Nat → Rat × Rat) (n m : Nat) : List Nat :=
  let s := grdpLoop accept dst key n (rinit n)
  if s.reduced.length ≥ m then s.reduced else (fixedLoop dst key (m - s.reduced.length) s).reduced

/-- `min_point_rdp`: thresholds in descending order, first whose `grdp` result has ≥ m points,
otherwise `rdp_fixed(m)`. `acceptAt t` is the acceptance test for threshold `t`. -/
def minPointRdp (acceptAt : Rat → List Nat → Bool) (dst : Nat → Nat → List Rat) (key : Nat → Nat → Nat → Rat × Rat)
    (n m : Nat) : List Rat → List Nat
  | [] => rdpFixed dst key n m
  | t :: ts =>
    let r := grdp (acceptAt t) dst key n
    if r.length ≥ m then r else minPointRdp acceptAt dst key n m ts

end Knee

import Knee.Model.Basic
import Knee.Model.Filters
/-
Model of `zmethod.knees2` (zmethod.py:60-131) and `zmethod.map_index` (zmethod.py:45-57).

`knees2(points, dx, dy, out)`:
* `v`      – the array that is thresholded (`yd2 = uts.gradient.csd(x, y)` for `Outlier.iqr`/`hampel`,
             `z_yd2 = uts.zscore.zscore_array(x, yd2)` for `Outlier.zscore`), an INPUT (oracle values);
* `z`      – `outlier_z` (`q3 + 1.5*iqr` | `median(|yd2-med|)*4.5` | `median(z_yd2)`), an oracle value;
             the comparison `v[i] >= outlier_z` and the list comprehension are the model's;
* `h k`    – height `points[k][1]`; `iou k` – oracle for `kr.rect_overlap` of knee `k`; `t = 0.3`; `n = len(points)`
             (`worstFilter`, `cornerFilter` of `Knee/Model/Filters.lean`);
* `near j i` – `fabs(points[j,0]-points[i,0]) <= x_step and fabs(points[j,1]-points[i,1]) <= y_step`
             (generic oracle in the theorems; instance `nearOf` over the float differences `dxf`, `dyf` and
             the steps `x_step = (max x - min x)*dx`, `y_step = (max y - min y)*dy`, where the two `<=` and
             the `and` are the model's);
* `score n` – `pp.rank_corners(points, n)` for a neighbourhood list `n` (generic oracle in the theorems;
             instance `rankCorners dxf`: the list building of `rank_corners` is the model's, the float
             subtraction `points[a][0] - points[b][0]` is the oracle `dxf a b`).
Everything else (the `for`/`while` loops, the three-way `if`, `np.argmax`, `np.array_equal`, the counter)
is modelled exactly.
-/
namespace Knee

/-! ### candidate selection -/

/-- `[i for i in range(len(v)) if v[i] >= z]` -/
def outlierCandidates (v : List Rat) (z : Rat) : List Nat :=
  (List.range v.length).filter fun i => decide (z ≤ v[i]?.getD 0)

/-! ### one refinement round -/

/-- `n = [candidates[j] for j in range(len(candidates)) if near(candidates[j], i)]` -/
def neighbourhood (near : Nat → Nat → Bool) (cands : List Nat) (i : Nat) : List Nat :=
  cands.filter fun j => near j i

/-- the body of `for i in candidates`: is `i` appended to `best_candidates`?
```
if len(n) == 1 and n[0] == i:        append
elif len(n) > 1:                     append iff n[np.argmax(rank_corners(points, n))] == i
else:                                "Ups..."   (len(n) == 0, or len(n) == 1 and n[0] != i)
```
`n[argmax]` cannot be out of range in the Python (`len(r) == len(n)`); for an arbitrary oracle `score`
an out-of-range position selects nobody. -/
def survives (near : Nat → Nat → Bool) (score : List Nat → List Rat) (cands : List Nat) (i : Nat) : Bool :=
  match neighbourhood near cands i with
  | [] => false
  | [a] => a == i
  | a :: b :: rest => (a :: b :: rest)[argmaxIdx (score (a :: b :: rest))]? == some i

/-- one pass of the `while` body: `best_candidates` -/
def refineRound (near : Nat → Nat → Bool) (score : List Nat → List Rat) (cands : List Nat) : List Nat :=
  cands.filter (survives near score cands)

/-! ### `np.array_equal(best_candidates, candidates)` -/

/-- element-wise `==` then `all()`, on two lists of the same length -/
def allEq : List Nat → List Nat → Bool
  | a :: as, b :: bs => (a == b) && allEq as bs
  | _, _ => true

/-- `np.array_equal(a1, a2)` on 1-D integer data: `False` when the shapes differ, otherwise
`bool((a1 == a2).all())` (two empty arrays are equal whatever their dtype). -/
def arrayEqual (a b : List Nat) : Bool :=
  if a.length ≠ b.length then false else allEq a b

/-! ### the `while not done` loop -/

/-- `(final candidates, counter, candidates at the start of every round)`;
`none` = fuel exhausted (never, see `knees2_loop_terminates`). `counter` = rounds already run. -/
def refineLoop (near : Nat → Nat → Bool) (score : List Nat → List Rat) :
    Nat → Nat → List Nat → Option (List Nat × Nat × List (List Nat))
  | 0, _, _ => none
  | fuel + 1, counter, cands =>
    let best := refineRound near score cands
    if arrayEqual best cands then some (cands, counter + 1, [cands])
    else match refineLoop near score fuel (counter + 1) best with
      | none => none
      | some (r, k, tr) => some (r, k, cands :: tr)

/-- `j` rounds applied to `cands` (specification device: the loop returns the first repetition) -/
def iterRound (near : Nat → Nat → Bool) (score : List Nat → List Rat) : Nat → List Nat → List Nat
  | 0, c => c
  | j + 1, c => iterRound near score j (refineRound near score c)

/-! ### instances of the oracles -/

/-- `near` from the float differences: `dxf j i = fl(x[j] - x[i])`, `dyf j i = fl(y[j] - y[i])` -/
def nearOf (dxf dyf : Nat → Nat → Rat) (xstep ystep : Rat) (j i : Nat) : Bool :=
  decide (rabs (dxf j i) ≤ xstep) && decide (rabs (dyf j i) ≤ ystep)

/-- `for i in range(1, len(knees)): ranks.append(x[knees[i]] - x[knees[i-1]])` with running predecessor -/
def rankCornersGo (dxf : Nat → Nat → Rat) (prev : Nat) : List Nat → List Rat
  | [] => []
  | k :: ks => dxf k prev :: rankCornersGo dxf k ks

/-- `pp.rank_corners(points, knees)`: first rank `x[knees[0]] - x[0]`, then the gaps to the predecessor
in the list (`knees` non-empty in every call made by `knees2`) -/
def rankCorners (dxf : Nat → Nat → Rat) (knees : List Nat) : List Rat :=
  rankCornersGo dxf 0 knees

/-! ### `knees2` -/

structure Knees2Out where
  outliers : List Nat          -- candidates after the threshold
  worst : List Nat             -- after `filter_worst_knees`
  corner : List Nat            -- after `filter_corner_knees(t)`
  result : List Nat            -- returned array
  rounds : Nat                 -- final value of `counter`
  trace : List (List Nat)      -- `candidates` at the start of every round
deriving Repr, DecidableEq

/-- `knees2`; the wrapper gives the loop `len(candidates) + 1` units of fuel -/
def knees2 (v : List Rat) (z : Rat) (n : Nat) (h iou : Nat → Rat) (t : Rat)
    (near : Nat → Nat → Bool) (score : List Nat → List Rat) : Option Knees2Out :=
  let c0 := outlierCandidates v z
  let c1 := worstFilter h c0
  let c2 := cornerFilter n iou t c1
  match refineLoop near score (c2.length + 1) 0 c2 with
  | none => none
  | some (r, k, tr) => some ⟨c0, c1, c2, r, k, tr⟩

/-- `knees2` with the box test and the corner ranks computed from float-difference tables -/
def knees2F (v : List Rat) (z : Rat) (n : Nat) (h iou : Nat → Rat) (t : Rat)
    (dxf dyf : Nat → Nat → Rat) (xstep ystep : Rat) : Option Knees2Out :=
  knees2 v z n h iou t (nearOf dxf dyf xstep ystep) (rankCorners dxf)

/-- the same over exact coordinates (`x[a] - x[b]` in ℚ); equals the float run whenever every
subtraction the Python performs is exact -/
def knees2Q (v : List Rat) (z : Rat) (xs ys : List Rat) (iou : Nat → Rat) (t : Rat) (xstep ystep : Rat) :
    Option Knees2Out :=
  let x := fun i => xs[i]?.getD 0
  let y := fun i => ys[i]?.getD 0
  knees2F v z xs.length y iou t (fun a b => x a - x b) (fun a b => y a - y b) xstep ystep

/-! ### `map_index` -/

/-- lower-bound bisection on positions `[lo, hi)` of the sorted view `key` (`key p = a[sort_idx[p]]`):
`numpy.searchsorted(..., side='left')` -/
def bisectLeft (key : Nat → Rat) (v : Rat) : Nat → Nat → Nat → Nat
  | 0, lo, _ => lo
  | fuel + 1, lo, hi =>
    if lo < hi then
      let mid := lo + (hi - lo) / 2
      if key mid < v then bisectLeft key v fuel (mid + 1) hi else bisectLeft key v fuel lo mid
    else lo

/-- `np.searchsorted(a, v, sorter=sigma)` for one value -/
def searchLeft (a : List Rat) (sigma : List Nat) (v : Rat) : Nat :=
  bisectLeft (fun p => a[sigma[p]?.getD 0]?.getD 0) v (sigma.length + 1) 0 sigma.length

/-- `sort_idx[np.searchsorted(a, b, sorter=sort_idx)]`, `sigma = np.argsort(a)` (an input: any
permutation that sorts); `none` = IndexError (a position `len(a)` indexes `sort_idx`) -/
def mapIndex (a : List Rat) (sigma : List Nat) : List Rat → Option (List Nat)
  | [] => some []
  | v :: vs =>
    match sigma[searchLeft a sigma v]? with
    | none => none
    | some i =>
      match mapIndex a sigma vs with
      | none => none
      | some r => some (i :: r)

end Knee

import Knee.Model.Basic
import Knee.Model.Mapping
import Knee.Lemmas.Mapping
import Knee.Props.C07
